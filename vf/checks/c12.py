"""C12 — Docstring parsers are total and terminating on arbitrary text.

Workload: docstring source texts assembled from a token pool (every section keyword of the
three styles in several letter-cases, Google/Numpy/Sphinx header and item syntaxes including
empty names and types, dash lines of all lengths, indentation 0..12, blank and
whitespace-only lines, prose, code fences, doctest prompts, tabs, unicode, very long lines)
in arbitrary order and repetition, parsed by each of the three parsers under random members of
the full boolean option space (plus an unknown option) with parents of every kind.

Monitors (all attached from outside the repository):
  * exception monitor around the real ``parse`` entry points;
  * logical step budget (``vf.core.mon.Steps``: function entries inside ``_griffe``)
    proportional to (lines + 10)^2;
  * loop-progress monitor: ``sys.monitoring`` LINE events on the header line of every
    ``while <var> < len(lines)`` loop of the three parser modules (headers are located with
    ``ast``), reading the frame local; within one frame the sequence must be strictly increasing;
  * contracts (icontract) on every block / section / field reader: the returned offset (index of the last
    consumed line) lies in [offset - 1, max(offset, len(lines) - 1)];
  * snapshots of the docstring (value, lineno, endlineno, parser, options, parent identity) and of
    the parent's JSON before / after;
  * result oracle: a ``list`` of ``DocstringSection`` whose items have the documented types,
    ``as_dict()`` works and the list serialises with ``griffe.JSONEncoder``;
  * text-only identity for texts drawn from the prose-only sub-pool.
"""
from __future__ import annotations

import ast
import contextlib
import inspect
import json
import os
import random
import re
import sys
import traceback

from vf.core import mon
from vf.core.rec import digest
from vf.core.util import case_watchdog
from vf.gen import docstrings as gen

PROP = "C12"
LEVEL = "exploration"
ANCHORS = ["docstrings/google.py", "docstrings/numpy.py", "docstrings/sphinx.py", "docstrings/parsers.py", "docstrings/utils.py"]
RULE = ("texts assembled from a token pool (all Google/Numpy section keywords and Sphinx field names in 6 letter-case variants, "
        "admonition titles, 10 Google header forms, dash lines of length 1..40 and malformed ones, 16/14/14 Google/Numpy/Sphinx item "
        "forms over 41 names (empty, starred, dotted, unicode, names the parents import) x 49 types (empty, unbalanced, non-expressions), indentation 0..12, "
        "blank / whitespace-only lines, prose, code fences, doctest prompts, tabs, CR/FF/VT/LS characters, lines of 1200-5000 "
        "characters) as 0..8 chunks (20..60 in 'big' cases) followed by random line mutations (duplicate, delete, re-indent, swap, "
        "shuffle a window); each text is parsed by all three parsers under random members of the full boolean option space "
        "(2^8 Google, 2^3 Numpy, 2^1 Sphinx, sometimes an unknown extra option or no options) through 6 entry routes with one of "
        "51 parents (none, modules, classes incl. a subclass and one with an unresolvable base, functions with varied signatures, return annotations "
        "tuple/Iterator/Generator of arity 0..3, __init__ methods, properties, attributes; visited from source or built through "
        "the model API with string annotations, no file path, or no parent module); a quarter of the texts come from the "
        "prose-only sub-pool. distinct = digest of the text; non-trivial = the text contains a section keyword / field name "
        "and at least one change of indentation")
LEVEL_TEXT = ("Every generated (text, parent, style, options, route) is parsed by the real parser under an exception monitor, a "
              "logical step budget proportional to (lines+10)^2, a loop-progress monitor on every offset-driven while loop of the "
              "three parser modules, offset post-conditions on every reader, before/after snapshots of docstring and parent, a "
              "type oracle on the returned sections incl. JSON serialisation, and the text-identity oracle for prose-only texts.")
LEVEL_NOTE = ("sampled, not exhaustive; 'terminates' is restated as bounded logical progress (function entries and strictly "
              "increasing loop variables); the per-case wall-clock watchdog only yields 'inconclusive'; the atheris leg of the "
              "design is not implemented")
TECHNIQUE = ("runtime monitoring: exception / step-budget / loop-progress (sys.monitoring LINE) monitors, icontract "
             "post-conditions on the readers, state snapshots and a result-shape oracle over generated hostile docstrings")
REQUIRED_COUNTERS = ["parses_completed", "main_loop_header_events", "inner_loop_header_events", "reader_contract_evals",
                     "docstring_snapshots_compared", "parent_snapshots_compared", "module_snapshots_compared",
                     "sections_shape_checked", "sections_json_roundtrips", "text_identity_checked", "step_budgets_armed",
                     "parser_none_route_checked", "edited_docstring_objects_parsed", "edited_vs_fresh_object_compared"]
EXHAUSTIVE = {"quick": False, "thorough": False}
ASSUMPTIONS = ["texts are sampled from the token-pool grammar described in the rule; the space of all strings is not covered",
               "step budget: function entries in _griffe <= STEP_FACTOR*(lines+10)^2 + STEP_PER_CHAR*len(text) (the second term "
               "covers work that is proportional to the length of a line rather than to the line count: the expression builder on a long "
               "annotation, one signature lookup per name of a long 'a, b, c : T' item)",
               "parents come from 3 literal modules visited statically and one module built through the model API (no inspected / alias parents)"]
SHARD_TIMEOUT = {"quick": 900, "thorough": 7200}

# Calibration (thorough tier, 6e6 parses): the largest steps/(lines+10)^2 seen on texts without a very long line was ~7; the
# largest steps/len(text) was 58 (a Numpy item naming 800 parameters 'a, a, a, ... : T' under a class parent: every name costs a
# Class.parameters lookup of ~200 function entries).  The factors leave a margin of about 7x on both terms; the observed
# maximum of steps/budget is reported as observed_maxima.steps_over_budget.
STEP_FACTOR = 60
STEP_PER_CHAR = 400
TEXTS = {"quick": 20_000, "thorough": 1_000_000}
NSHARDS = 16
STYLES = ("google", "numpy", "sphinx")
ROUTES = ("method", "method", "enum", "parsed", "func", "dispatch", "auto")


class ContractBroken(BaseException):
    """Reader post-condition violated (BaseException so that no ``except Exception`` in the code under test hides it)."""


class LoopStalled(BaseException):
    """A loop variable of an offset-driven loop failed to increase strictly between two evaluations of its header."""


# ------------------------------------------------------------------------------------------
# loop-progress monitor
def _loop_headers(path: str) -> dict[str, dict[int, str]]:
    """function name -> {header line: loop variable} for every ``while <name> < len(lines) [and ...]`` in the file."""
    with open(path) as fh:
        tree = ast.parse(fh.read())
    out: dict[str, dict[int, str]] = {}
    for fn in tree.body:
        if not isinstance(fn, ast.FunctionDef):
            continue
        for node in ast.walk(fn):
            if not isinstance(node, ast.While):
                continue
            test = node.test
            if isinstance(test, ast.BoolOp) and isinstance(test.op, ast.And):
                test = test.values[0]
            if (isinstance(test, ast.Compare) and isinstance(test.left, ast.Name) and len(test.ops) == 1
                    and isinstance(test.ops[0], ast.Lt) and isinstance(test.comparators[0], ast.Call)
                    and isinstance(test.comparators[0].func, ast.Name) and test.comparators[0].func.id == "len"):
                out.setdefault(fn.name, {})[test.lineno] = test.left.id
    return out


class LoopProgress:
    MAIN = {"parse_google": "offset", "parse_numpy": "offset", "parse_sphinx": "curr_line_index"}

    def __init__(self) -> None:
        self.tool: int | None = None
        self.headers: dict = {}          # code -> {line: var}
        self.main_codes: set = set()
        self.state: dict = {}            # (code, line) -> [frame, last value]
        self.active = False
        self.n_main = 0
        self.n_inner = 0
        self.main_this_call = 0
        self.found: dict[str, list[str]] = {}

    def install(self) -> None:
        import _griffe.docstrings.google as g
        import _griffe.docstrings.numpy as n
        import _griffe.docstrings.sphinx as s

        m = sys.monitoring
        for tool in (2, 5, 1):
            try:
                m.use_tool_id(tool, "vf-loop-progress")
                self.tool = tool
                break
            except ValueError:
                continue
        if self.tool is None:
            return
        m.register_callback(self.tool, m.events.LINE, self._line)
        for module in (g, n, s):
            for fname, hdrs in _loop_headers(module.__file__).items():
                func = getattr(module, fname, None)
                func = getattr(func, "__wrapped__", func)
                code = getattr(func, "__code__", None)
                if code is None:
                    continue
                self.headers[code] = hdrs
                self.found[module.__name__.rsplit(".", 1)[-1] + "." + fname] = [f"{v}@{ln}" for ln, v in sorted(hdrs.items())]
                if fname in self.MAIN and self.MAIN[fname] in hdrs.values():
                    self.main_codes.add(code)
                m.set_local_events(self.tool, code, m.events.LINE)

    def begin(self) -> None:
        self.state.clear()
        self.main_this_call = 0
        self.active = True

    def end(self) -> None:
        self.active = False
        self.state.clear()

    def _line(self, code, lineno):  # noqa: ANN001
        hdrs = self.headers.get(code)
        if hdrs is None:
            return sys.monitoring.DISABLE
        var = hdrs.get(lineno)
        if var is None:
            return sys.monitoring.DISABLE
        if not self.active:
            return None
        frame = sys._getframe(1)
        if frame.f_code is not code:
            return None
        value = frame.f_locals.get(var)
        if code in self.main_codes:
            self.n_main += 1
            self.main_this_call += 1
        else:
            self.n_inner += 1
        key = (code, lineno)
        st = self.state.get(key)
        if st is not None and st[0] is frame:
            if not isinstance(value, int) or not isinstance(st[1], int) or value <= st[1]:
                self.active = False
                raise LoopStalled(f"{code.co_name}: loop variable {var!r} at line {lineno} went {st[1]!r} -> {value!r} "
                                  f"between two evaluations of the loop header")
            st[1] = value
        else:
            self.state[key] = [frame, value]
        return None


# ------------------------------------------------------------------------------------------
# M-CON: offset post-conditions on the readers (module attributes *and* the registries that captured them)
class Contracts:
    def __init__(self) -> None:
        self.evals = 0
        self.via = "none"
        self.wrapped: list[str] = []

    def _new_offset(self, result):  # noqa: ANN001, ANN202
        if isinstance(result, tuple) and len(result) == 2:  # noqa: PLR2004
            return result[1]
        if hasattr(result, "next_index"):
            return result.next_index
        return result

    def _ok(self, nlines: int, offset, result) -> bool:  # noqa: ANN001
        self.evals += 1
        new = self._new_offset(result)
        # the returned offset is the index of the last line the reader consumed (the caller adds one): never before the
        # line preceding the start, and never past the last line unless the reader was started past the end
        return (isinstance(new, int) and not isinstance(new, bool) and isinstance(offset, int)
                and offset - 1 <= new <= max(offset, nlines - 1))

    def install(self) -> None:  # noqa: C901
        import _griffe.docstrings.google as g
        import _griffe.docstrings.numpy as n
        import _griffe.docstrings.sphinx as s

        if getattr(g, "_vf_c12_contracts", False):
            return
        try:
            import icontract
        except ImportError:
            icontract = None
        self.via = "icontract.ensure" if icontract else "built-in fallback wrapper (icontract not importable)"

        def wrap(func, lines_of):  # noqa: ANN001, ANN202
            name = f"{func.__module__.rsplit('.', 1)[-1]}.{func.__name__}"

            def describe(first, offset, result):  # noqa: ANN001, ANN202
                return ContractBroken(f"{name}(offset={offset!r}) returned offset {self._new_offset(result)!r}, outside "
                                      f"[offset-1, max(offset, len(lines)-1)] = [{offset - 1 if isinstance(offset, int) else '?'}, "
                                      f"{max(offset, len(lines_of(first)) - 1) if isinstance(offset, int) else '?'}]")

            first_name = next(iter(func.__code__.co_varnames[:1]))
            if icontract is not None:
                if first_name == "docstring":
                    return icontract.ensure(lambda docstring, offset, result: self._ok(len(lines_of(docstring)), offset, result),
                                            error=lambda docstring, offset, result: describe(docstring, offset, result))(func)
                return icontract.ensure(lambda lines, offset, result: self._ok(len(lines_of(lines)), offset, result),
                                        error=lambda lines, offset, result: describe(lines, offset, result))(func)
            import functools
            import inspect

            sig = inspect.signature(func)

            @functools.wraps(func)
            def wrapper(*a, **k):  # noqa: ANN002, ANN003, ANN202
                result = func(*a, **k)
                bound = sig.bind(*a, **k)
                first, offset = bound.arguments[first_name], bound.arguments["offset"]
                if not self._ok(len(lines_of(first)), offset, result):
                    raise describe(first, offset, result)
                return result

            return wrapper

        mapping: dict = {}
        for module in (g, n, s):
            for name, func in list(vars(module).items()):
                if not callable(func) or getattr(func, "__module__", None) != module.__name__ or not hasattr(func, "__code__"):
                    continue
                args = func.__code__.co_varnames[: func.__code__.co_argcount + func.__code__.co_kwonlyargcount]
                if "offset" not in args or not args or args[0] not in ("docstring", "lines"):
                    continue
                lines_of = (lambda d: d.lines) if args[0] == "docstring" else (lambda ls: ls)
                w = wrap(func, lines_of)
                mapping[func] = w
                setattr(module, name, w)
                self.wrapped.append(f"{module.__name__.rsplit('.', 1)[-1]}.{name}")
        for module in (g, n):
            for kind, reader in list(module._section_reader.items()):
                module._section_reader[kind] = mapping[reader]
        s._field_types[:] = [s._FieldType(ft.names, mapping[ft.reader]) for ft in s._field_types]
        g._vf_c12_contracts = True


# ------------------------------------------------------------------------------------------
class Env:
    """Per-process monitoring environment."""

    def __init__(self, rec) -> None:  # noqa: ANN001
        self.rec = rec
        self.steps = mon.Steps()
        self.progress = LoopProgress()
        self.progress.install()          # before the contracts: the loop monitor needs the original code objects
        self.contracts = Contracts()
        self.contracts.install()
        self.parents: dict = {}
        self.parent_sources: dict[str, str] = {}
        self.detached: dict[str, dict] = {}
        rec.note("M-CON via " + self.contracts.via + f" on {len(self.contracts.wrapped)} readers")
        for name, hdrs in sorted(self.progress.found.items()):
            rec.add_to_set("loop_headers_monitored", f"{name}: {', '.join(hdrs)}")
        for name in self.contracts.wrapped:
            rec.add_to_set("readers_under_contract", name)
        self._flushed = [0, 0, 0]

    def module(self, key: str, source: str | None = None):  # noqa: ANN201
        source = source if source is not None else gen.module_source(key)
        if self.parent_sources.get(key) != source or key not in self.parents:
            from vf.core.util import visit_source

            if source == gen.API_SENTINEL:
                self.parents[key], self.detached[key] = gen.build_api_module()
            else:
                self.parents[key] = visit_source(source, "vfp_" + key)
            self.parent_sources[key] = source
        return self.parents[key]

    def resolve(self, key: str, path: str, source: str | None = None):  # noqa: ANN201
        module = self.module(key, source)
        if path.startswith("@"):
            return self.detached[key][path]
        return module[path] if path else module

    def drop(self, key: str) -> None:
        self.parents.pop(key, None)

    def flush(self) -> None:
        rec = self.rec
        rec.count("main_loop_header_events", self.progress.n_main - self._flushed[0])
        rec.count("inner_loop_header_events", self.progress.n_inner - self._flushed[1])
        rec.count("reader_contract_evals", self.contracts.evals - self._flushed[2])
        self._flushed = [self.progress.n_main, self.progress.n_inner, self.contracts.evals]


_ENV: Env | None = None


def env_for(rec) -> Env:  # noqa: ANN001
    global _ENV
    if _ENV is None:
        _ENV = Env(rec)
    _ENV.rec = rec
    return _ENV


# ------------------------------------------------------------------------------------------
# result-shape oracle
NAMED_KINDS = {"parameters", "other parameters", "attributes", "functions", "classes", "modules", "returns", "yields", "receives"}
UNNAMED_KINDS = {"raises", "warns"}


def sections_problem(sections) -> tuple[str, object] | None:  # noqa: ANN001, C901, PLR0911, PLR0912
    import griffe
    from _griffe.docstrings import models as dm
    from _griffe.expressions import Expr

    if type(sections) is not list:
        return "parse did not return a list", type(sections).__name__
    for i, sec in enumerate(sections):
        if not isinstance(sec, dm.DocstringSection):
            return f"section #{i} is not a DocstringSection", type(sec).__name__
        if not isinstance(getattr(sec, "kind", None), griffe.DocstringSectionKind):
            return f"section #{i} has no DocstringSectionKind kind", repr(getattr(sec, "kind", None))
        if sec.title is not None and not isinstance(sec.title, str):
            return f"section #{i} title is neither None nor str", repr(sec.title)
        kind = sec.kind.value
        val = sec.value
        if kind == "text":
            if not isinstance(val, str):
                return f"text section #{i} value is not a str", repr(val)[:200]
        elif kind in NAMED_KINDS or kind in UNNAMED_KINDS:
            if not isinstance(val, list):
                return f"{kind} section #{i} value is not a list", repr(val)[:200]
            for j, el in enumerate(val):
                base = dm.DocstringNamedElement if kind in NAMED_KINDS else dm.DocstringElement
                if not isinstance(el, base):
                    return f"{kind} section #{i} item #{j} is not a {base.__name__}", type(el).__name__
                if not isinstance(el.description, str):
                    return f"{kind} section #{i} item #{j} description is not a str", repr(el.description)
                if el.annotation is not None and not isinstance(el.annotation, (str, Expr)):
                    return f"{kind} section #{i} item #{j} annotation is neither None, str nor Expr", repr(el.annotation)[:200]
                if kind in NAMED_KINDS:
                    if not isinstance(el.name, str):
                        return f"{kind} section #{i} item #{j} name is not a str", repr(el.name)
                    if el.value is not None and not isinstance(el.value, (str, Expr)):
                        return f"{kind} section #{i} item #{j} value is neither None, str nor Expr", repr(el.value)[:200]
        elif kind == "examples":
            if not isinstance(val, list):
                return f"examples section #{i} value is not a list", repr(val)[:200]
            for j, sub in enumerate(val):
                if not (isinstance(sub, tuple) and len(sub) == 2 and isinstance(sub[0], griffe.DocstringSectionKind)  # noqa: PLR2004
                        and sub[0].value in ("text", "examples") and isinstance(sub[1], str)):
                    return f"examples section #{i} sub-section #{j} is not a (text|examples kind, str) pair", repr(sub)[:200]
        elif kind in ("deprecated", "admonition"):
            cls = dm.DocstringDeprecated if kind == "deprecated" else dm.DocstringAdmonition
            if not isinstance(val, cls):
                return f"{kind} section #{i} value is not a {cls.__name__}", type(val).__name__
            if not isinstance(val.annotation, str) or not isinstance(val.description, str):
                return f"{kind} section #{i} annotation/description is not a str", repr((val.annotation, val.description))[:200]
        else:
            return f"section #{i} has an unexpected kind", kind
        d = sec.as_dict()
        if not isinstance(d, dict) or d.get("kind") != kind or "value" not in d:
            return f"section #{i}.as_dict() lacks kind/value", repr(d)[:200]
    return None


def json_problem(sections) -> tuple[str, object] | None:  # noqa: ANN001
    import griffe

    for full in (False, True):
        back = json.loads(json.dumps(sections, cls=griffe.JSONEncoder, full=full))
        if not isinstance(back, list) or len(back) != len(sections):
            return "JSON form of the sections is not a list of the same length", repr(back)[:200]
        for sec, d in zip(sections, back):
            if not isinstance(d, dict) or d.get("kind") != sec.kind.value:
                return "JSON form of a section lost its kind", repr(d)[:200]
    return None


def _norm_blank(text: str) -> str:
    return "\n".join(ln if ln.strip() else "" for ln in text.split("\n")).strip("\n")


# ------------------------------------------------------------------------------------------
# mechanism classifiers (predicates over input structure + observation; never case lists)
_RE_EMPTY_ATTR_SPHINX = re.compile(r"^\s*:(var|ivar|cvar)", re.MULTILINE)
_RE_EMPTY_ITEM = re.compile(r"^\s*:", re.MULTILINE)
ALL_FINDINGS = ["C12-annotation-lone-surrogate", "C12-class-init-unresolved-alias", "C12-empty-attr-name", "C12-annotation-compile-too-complex", "C12-numpy-parent-annotation-index",
                "C12-google-single-block-empty", "C12-google-property-summary-not-text",
                "C12-builtin-module-parent-annotation-error", "C12-attr-named-like-unresolved-import"]


def griffe_frames(exc: BaseException) -> list[tuple[str, str, str]]:
    out = []
    for fs in traceback.extract_tb(exc.__traceback__):
        fn = os.path.realpath(fs.filename)
        if fn.startswith(mon.GRIFFE_DIR + os.sep):
            out.append((fn[len(mon.GRIFFE_DIR) + 1:], fs.name, fs.line or ""))
    return out


def classify_exception(case: dict, exc: BaseException, pkind: str, no_filepath: bool = False,  # noqa: PLR0911
                       alias_names: frozenset = frozenset(), parent_annotation: str = "") -> str | None:
    frames = griffe_frames(exc)
    if not frames:
        return None
    style, text, opts = case["style"], case["text"], case.get("options") or {}
    parent = case.get("parent")
    funcs = [f[1] for f in frames]
    docfuncs = [f for f in frames if f[0].startswith("docstrings" + os.sep)]
    last_doc = docfuncs[-1] if docfuncs else ("", "", "")
    # frame that the last docstrings frame called (line texts of frames that sit in an except / with block are not used:
    # under sys.monitoring CPython 3.12.1 sometimes reports the line after the block for them)
    after_doc = frames[frames.index(last_doc) + 1] if docfuncs and frames.index(last_doc) + 1 < len(frames) else ("", "", "")
    parent_getitem = after_doc[0] == "mixins.py" and after_doc[1] == "__getitem__"
    if (isinstance(exc, ValueError) and str(exc) == "Empty strings are not supported" and parent is not None
            and last_doc[1] in ("_read_attributes_section", "_read_attribute") and parent_getitem
            and (_RE_EMPTY_ATTR_SPHINX.search(text) if style == "sphinx" else _RE_EMPTY_ITEM.search(text))):
        return "C12-empty-attr-name"
    if (isinstance(exc, (RecursionError, MemoryError)) and frames[-1][1] == "parse_docstring_annotation"  # raised by its compile() call
            and max((len(ln) for ln in text.split("\n")), default=0) > 2500):  # noqa: PLR2004
        return "C12-annotation-compile-too-complex"
    if (isinstance(exc, IndexError) and style == "numpy" and parent is not None and frames[-1][0] == os.path.join("docstrings", "numpy.py")
            and frames[-1][1] in ("_read_returns_section", "_read_receives_section") and "[" in parent_annotation):
        return "C12-numpy-parent-annotation-index"
    if (isinstance(exc, IndexError) and style == "google" and frames[-1][1] == "_get_name_annotation_description"
            and "lines[0]" in frames[-1][2] and "_read_block_items_maybe" not in funcs
            and (opts.get("returns_multiple_items") is False or opts.get("receives_multiple_items") is False)):
        return "C12-google-single-block-empty"
    if (isinstance(exc, AttributeError) and "lstrip" in str(exc) and style == "google" and frames[-1][1] == "parse_google"
            and "sections[0].value.lstrip()" in frames[-1][2] and opts.get("returns_type_in_property_summary") is True
            and pkind == "property"):
        return "C12-google-property-summary-not-text"
    if (type(exc).__name__ in ("AliasResolutionError", "CyclicAliasError") and last_doc[1] in ("_read_attributes_section", "_read_attribute")
            and after_doc[0] in ("mixins.py", "models.py") and alias_names
            and re.search(r"(?<![\w.])(" + "|".join(re.escape(a) for a in sorted(alias_names)) + r")(?![\w])", text)):
        return "C12-attr-named-like-unresolved-import"
    if (isinstance(exc, UnicodeEncodeError) and frames[-1][1] == "parse_docstring_annotation"  # raised by its compile() call
            and re.search("[\ud800-\udfff]", text)):
        return "C12-annotation-lone-surrogate"
    if (type(exc).__name__ in ("AliasResolutionError", "CyclicAliasError") and pkind == "class" and "parameters" in funcs
            and "__init__" in alias_names and after_doc[0] == "models.py" and after_doc[1] == "parameters"):
        return "C12-class-init-unresolved-alias"
    if (type(exc).__name__ == "BuiltinModuleError" and no_filepath and "safe_get_expression" in funcs
            and "parse_docstring_annotation" in funcs
            and any(f[1] == "safe_get_expression" and g[1] == "relative_filepath" for f, g in zip(frames, frames[1:]))):
        return "C12-builtin-module-parent-annotation-error"
    return None


# ------------------------------------------------------------------------------------------
KEYWORD_RE = None


def _nontrivial(text: str) -> bool:
    global KEYWORD_RE
    if KEYWORD_RE is None:
        words = sorted(set(gen.GOOGLE_KEYS + gen.NUMPY_KEYS), key=len, reverse=True)
        KEYWORD_RE = re.compile(r"(?i)(^|\n)\s*(" + "|".join(re.escape(w) for w in words) + r")\b|(^|\n)\s*:(" + "|".join(gen.SPHINX_FIELDS) + r")\b")
    if not KEYWORD_RE.search(text):
        return False
    indents = {len(ln) - len(ln.lstrip(" ")) for ln in text.split("\n")[1:] if ln.strip()}
    return len(indents) >= 2  # noqa: PLR2004


def object_kind(obj) -> str:  # noqa: ANN001, PLR0911
    """Kind of the docstring's parent, read from the object itself."""
    if obj is None:
        return "none"
    if obj.is_module:
        return "module"
    if obj.is_class:
        return "class"
    if obj.is_function:
        return "init-method" if obj.name == "__init__" and obj.parent is not None and obj.parent.is_class else "function"
    if obj.is_attribute:
        return "property" if "property" in obj.labels else "attribute"
    return obj.kind.value


def has_no_filepath(obj) -> bool:  # noqa: ANN001
    """True when the parent lives in a module without a file path (built-in / compiled modules, objects built by hand)."""
    if obj is None:
        return False
    try:
        obj.filepath  # noqa: B018
    except Exception as exc:  # noqa: BLE001
        return type(exc).__name__ == "BuiltinModuleError"
    return False


def unresolved_alias_names(obj) -> frozenset:  # noqa: ANN001
    """Names of the parent's members (inherited ones included) that are aliases whose target cannot be resolved."""
    out = set()
    if obj is None:
        return frozenset()
    try:
        members = dict(obj.all_members) if hasattr(obj, "all_members") else {}
    except Exception:  # noqa: BLE001
        members = dict(getattr(obj, "members", {}))
    for name, member in members.items():
        if member.is_alias:
            try:
                member.final_target  # noqa: B018
            except Exception:  # noqa: BLE001
                out.add(name)
    return frozenset(out)


def make_case(text: str, style: str, options: dict, route: str, ref, lineno, prose: str | None) -> dict:  # noqa: ANN001
    parent = None
    if ref is not None:
        parent = {"ref": list(ref), "module_source": gen.module_source(ref[0])}
    return {"text": text, "style": style, "options": options, "route": route, "parent": parent, "lineno": lineno, "prose_only": prose}


def _call(route: str, style: str, options: dict, ds):  # noqa: ANN001, ANN202
    import griffe

    if route == "method":
        return ds.parse(style, **options)
    if route == "enum":
        return ds.parse(griffe.Parser(style), **options)
    if route == "parsed":
        return ds.parsed
    if route == "func":
        return {"google": griffe.parse_google, "numpy": griffe.parse_numpy, "sphinx": griffe.parse_sphinx}[style](ds, **options)
    if route == "dispatch":
        return griffe.parse(ds, style, **options)
    if route == "auto":
        return griffe.parse_auto(ds, default=style, **options)
    raise ValueError(route)


def run_case(rec, case: dict, env: Env | None = None) -> None:  # noqa: ANN001, C901, PLR0911, PLR0912, PLR0915
    import griffe
    from vf.child import CaseTimeout

    env = env or env_for(rec)
    text, style, options, route = case["text"], case["style"], dict(case.get("options") or {}), case.get("route", "method")
    pinfo = case.get("parent")
    parent = None
    modkey = None
    if pinfo is not None:
        modkey, path = pinfo["ref"]
        parent = env.resolve(modkey, path, pinfo.get("module_source"))
    nontrivial = _nontrivial(text)
    pkind = object_kind(parent)
    tags = [style, "parent:" + pkind]
    lineno = case.get("lineno")
    kwargs = {"lineno": lineno, "endlineno": None if lineno is None else lineno + text.count("\n"), "parent": parent}
    if route == "parsed":
        kwargs.update(parser=style, parser_options=options)
    reuse = case.get("reuse")
    if reuse:
        # one Docstring object with a history: built around another text, read / parsed once, then edited the way an
        # extension edits it (`docstring.value = ...`); everything below judges the edited object like a fresh one
        ds = griffe.Docstring(reuse["first_text"], **kwargs)
        try:
            with case_watchdog(120):
                for touch in reuse["touch"]:
                    if touch == "lines":
                        ds.lines  # noqa: B018
                    elif touch == "parse":
                        ds.parse(style, **{k: v for k, v in options.items() if k != gen.UNKNOWN_OPTION})
                    elif touch == "source" and parent is not None:
                        with contextlib.suppress(Exception):
                            ds.source  # noqa: B018
        except Exception:  # noqa: BLE001, S110
            pass  # the first text is judged by its own case; here it only gives the object a past
        ds.value = inspect.cleandoc(text.rstrip())  # `value` holds the cleaned text (what the constructor stores)
        rec.count("edited_docstring_objects_parsed")
    else:
        ds = griffe.Docstring(text, **kwargs)
    snap = (ds.value, ds.lineno, ds.endlineno, ds.parser, dict(ds.parser_options))
    parent_before = parent.as_json() if parent is not None else None
    lines = ds.value.split("\n")
    nlines = len(lines)
    budget = STEP_FACTOR * (nlines + 10) ** 2 + STEP_PER_CHAR * len(text)
    dig = digest(text)
    result = None
    failure = None
    env.progress.begin()
    rec.count("step_budgets_armed")
    env.steps.begin(budget)
    try:
        try:
            with case_watchdog(120):
                result = _call(route, style, options, ds)
        finally:
            nsteps, depth = env.steps.end()
            env.progress.end()
    except mon.StepBudgetExceeded as exc:
        failure = ("logical step budget exceeded (non-termination or super-quadratic work)", f"{exc} for {nlines} lines", f"<= {budget} function entries", None)
    except LoopStalled as exc:
        failure = ("loop-progress monitor: an offset-driven loop did not advance", str(exc), "strictly increasing loop variable", None)
    except ContractBroken as exc:
        failure = ("reader post-condition broken", str(exc), "offset - 1 <= returned offset <= max(offset, len(lines) - 1)", None)
    except CaseTimeout:
        rec.inconclusive(case, "per-case wall-clock watchdog fired (120 s) before any logical budget did")
        return
    except Exception as exc:  # noqa: BLE001
        pann = str(getattr(parent, "returns", None) or getattr(parent, "annotation", None) or "") if parent is not None else ""
        fid = classify_exception(case, exc, pkind, has_no_filepath(parent), unresolved_alias_names(parent), pann)
        rec.fail_exc(case, f"{style} parser raised {type(exc).__name__}", exc, finding=fid, nontrivial=nontrivial, tags=tags, tried=ALL_FINDINGS)
        if parent is not None and parent.as_json() != parent_before:
            env.drop(modkey)
        return
    if failure is not None:
        rec.fail(case, failure[0], observed=failure[1], expected=failure[2], nontrivial=nontrivial, tags=tags, tried=ALL_FINDINGS)
        if modkey:
            env.drop(modkey)
        return
    rec.count("parses_completed")
    rec.maximum("steps", nsteps)
    rec.maximum("steps_over_quadratic", round(nsteps / (nlines + 10) ** 2, 3))
    rec.maximum("steps_over_budget", round(nsteps / budget, 4))
    rec.maximum("griffe_stack_depth", depth)
    rec.maximum("docstring_lines", nlines)
    problem = None
    if env.progress.tool is not None and env.progress.main_this_call == 0:
        rec.inconclusive(case, "the main loop header of the parser was never observed by the loop-progress monitor")
        return
    if env.progress.main_this_call > max(nlines, 1) + 1:
        problem = ("main loop header evaluated more often than there are lines", env.progress.main_this_call, f"<= {nlines + 1}")
    # snapshots ------------------------------------------------------------------------------
    rec.count("docstring_snapshots_compared")
    after = (ds.value, ds.lineno, ds.endlineno, ds.parser, dict(ds.parser_options))
    if not problem and (after != snap or ds.parent is not parent):
        problem = ("the docstring object was modified by parsing", after, snap)
    if parent is not None:
        rec.count("parent_snapshots_compared")
        if not problem and parent.as_json() != parent_before:
            problem = ("the parent object was modified by parsing", parent.as_json()[:300], parent_before[:300])
            env.drop(modkey)
    # result shape ---------------------------------------------------------------------------
    if not problem:
        try:
            rec.count("sections_shape_checked")
            p = sections_problem(result)
            if p is None:
                rec.count("sections_json_roundtrips")
                p = json_problem(result)
        except Exception as exc:  # noqa: BLE001
            rec.fail_exc(case, "as_dict() / JSONEncoder raised on the returned sections", exc, nontrivial=nontrivial, tags=tags, tried=ALL_FINDINGS)
            return
        if p:
            problem = (p[0], p[1], "a list of well-formed DocstringSection objects")
    # history independence -------------------------------------------------------------------
    if not problem and reuse:
        try:
            fresh = _call(route, style, options, griffe.Docstring(text, **kwargs))
            rec.count("edited_vs_fresh_object_compared")
            a = json.dumps(result, cls=griffe.JSONEncoder, sort_keys=True)
            b = json.dumps(fresh, cls=griffe.JSONEncoder, sort_keys=True)
            if a != b:
                problem = ("parsing an edited docstring object differs from parsing a fresh object with the same text", a[:600], b[:600])
        except Exception as exc:  # noqa: BLE001
            problem = ("a fresh object with the same text raised where the edited object parsed", f"{type(exc).__name__}: {exc}"[:300], "same outcome")
    # text-only identity ---------------------------------------------------------------------
    if not problem and case.get("prose_only") and gen.is_prose_only(text) and ds.value.strip():
        expected_lines = lines
        applicable = True
        if options.get("ignore_init_summary") and style in ("google", "numpy") and pkind == "init-method":
            expected_lines = lines[2:]           # documented option: the summary of an __init__ method is ignored
        if (options.get("returns_type_in_property_summary") and style == "google" and pkind == "property"
                and ":" in ds.value.lstrip().split("\n")[0]):
            applicable = False                   # documented option: 'type: summary' of a property is split
        expected = _norm_blank("\n".join(expected_lines))
        if applicable and expected:
            rec.count("text_identity_checked")
            tags.append("prose-only")
            got = [(s.kind.value, s.value) for s in result]
            if len(result) != 1 or result[0].kind.value != "text" or _norm_blank(result[0].value) != expected:
                problem = ("text without section syntax did not come back as one text section equal to the cleaned docstring",
                           got if len(repr(got)) < 1500 else repr(got)[:1500], [("text", expected)])  # noqa: PLR2004
    if problem:
        rec.fail(case, problem[0], observed=problem[1], expected=problem[2], nontrivial=nontrivial, tags=tags, tried=ALL_FINDINGS)
    else:
        for s in result:
            rec.add_to_set("section_kinds_returned", f"{style}:{s.kind.value}")
        rec.ok(case, nontrivial=nontrivial, tags=tags, dig=dig)


def run_none_route(rec, text: str) -> None:  # noqa: ANN001
    """parse(docstring, None) is documented to return a single text section holding the value."""
    import griffe

    ds = griffe.Docstring(text)
    rec.count("parser_none_route_checked")
    out = griffe.parse(ds, None)
    out2 = ds.parse()
    case = {"text": text, "style": None, "options": {}, "route": "none", "parent": None, "lineno": None, "prose_only": None}
    for o in (out, out2):
        if type(o) is not list or len(o) != 1 or o[0].kind.value != "text" or o[0].value != ds.value:
            rec.fail(case, "parser None did not return a single text section equal to the docstring value", observed=repr(o)[:300], expected=ds.value[:300])
            return
    rec.ok(case, nontrivial=False, tags=("route:none",))


# ------------------------------------------------------------------------------------------
def shards(tier: str, seed: int) -> list[dict]:
    per = TEXTS[tier] // NSHARDS
    return [{"kind": "texts", "count": per} for _ in range(NSHARDS)]


def run_shard(spec: dict, rec) -> None:  # noqa: ANN001
    env = env_for(rec)
    rng = random.Random(spec["seed"])
    nopt = {"google": 3, "numpy": 2, "sphinx": 1}
    try:
        for i in range(spec["count"]):
            r = rng.random()
            prose = None
            if r < 0.25:
                text, prose = gen.prose_text(rng)
            else:
                text = gen.hostile_text(rng, big=r > 0.995)
            ref = gen.pick_parent(rng)
            lineno = rng.choice([None, 1, 7, 120])
            module_before = None
            if ref is not None:
                module_before = env.module(ref[0]).as_json()
            for style in STYLES:
                for _ in range(nopt[style]):
                    options = gen.random_options(rng, style)
                    route = rng.choice(ROUTES)
                    bits = "".join("1" if options.get(n) else "0" for n in gen.STYLE_BOOLS[style]) if options else "default"
                    rec.add_to_set(f"{style}_option_combinations", bits + ("+unknown" if gen.UNKNOWN_OPTION in options else ""))
                    rec.add_to_set("routes", route)
                    case = make_case(text, style, options, route, ref, lineno, prose)
                    if rng.random() < 0.2:
                        first = gen.prose_text(rng)[0] if rng.random() < 0.5 else gen.hostile_text(rng, big=False)
                        touch = rng.sample(["lines", "parse", "source"], rng.randint(1, 3))
                        if first != text:
                            case["reuse"] = {"first_text": first, "touch": touch}
                    run_case(rec, case, env)
            if ref is not None and ref[0] in env.parents:
                rec.count("module_snapshots_compared")
                if env.module(ref[0]).as_json() != module_before:
                    rec.fail({"text": text, "parent": {"ref": list(ref), "module_source": gen.module_source(ref[0])}, "style": "all"},
                             "the module holding the parent was modified by parsing", observed=env.module(ref[0]).as_json()[:300],
                             expected=module_before[:300])
                    env.drop(ref[0])
            if i % 50 == 0:
                run_none_route(rec, text)
    finally:
        env.flush()


def run_replay(inp: dict, rec) -> None:  # noqa: ANN001
    env = env_for(rec)
    try:
        if inp.get("style") in STYLES:
            run_case(rec, inp, env)
        elif inp.get("route") == "none":
            run_none_route(rec, inp["text"])
        else:
            for style in STYLES:
                run_case(rec, {**inp, "style": style, "options": {}, "route": "method"}, env)
    finally:
        env.flush()


def run_pinned(findings: list[dict], rec) -> dict:  # noqa: ANN001
    from vf.core.rec import Recorder

    out = {}
    env = env_for(rec)
    for f in findings:
        sub = Recorder(PROP, {})
        env.rec = sub
        try:
            run_case(sub, f["witness"], env)
        finally:
            env.rec = rec
        hit = sub.known.get(f["id"])
        other = [k for k in sub.known if k != f["id"]]
        if hit:
            detail = hit["first"]["what"] + ": " + str(hit["first"]["observed"])[:160]
        elif sub.fails:
            detail = "fails differently: " + sub.fails[0]["what"] + ": " + str(sub.fails[0]["observed"])[:160]
        elif other:
            detail = "classified as " + other[0]
        else:
            detail = "passes"
        out[f["id"]] = {"reproduced": bool(hit) or bool(sub.fails and sub.fails[0]["classifier"]["matched"] == f["id"]), "detail": detail}
    env.flush()
    return out
