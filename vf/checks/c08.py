"""C08 — JSON serialisation round-trips without loss.

Workload: generated rich packages (vf.gen.rich_modules: every model field, every expression class) loaded by the visitor
and — importable flavour — by the inspector, with and without alias resolution; packages whose
scopes bind one name several times by statements of different kinds (import / def / class / assignment / annotation / wildcard
import; sequences, try-import/except-define, define/try-import-override, if/else, TYPE_CHECKING and version guards; module and
class level; init modules, sub-package modules, stub+module pairs) and use it in every expression slot; packages that come
with stubs (`.pyi` next to the sources, `__init__.pyi`, `<name>-stubs` packages in the same or another search path, stub-only
modules and sub-packages, stubs only) loaded with and without `find_stubs_package`; namespace packages over
two search paths (from a working directory above and unrelated to them); built-in modules; a slice of the standard library; Griffe's own
packages; the ``griffe dump`` command line in a subprocess.

Oracles: ``as_json(full=False|True)`` never raises; ``M2 = Module.from_json(M.as_json())`` never raises and
``M2.as_json(full=f) == M.as_json(full=f)`` byte for byte for both f (the contract of upstream's own round-trip test,
generalised); a parallel walker over M and M2 (kinds, names, line spans, docstrings, labels, parameters, returns,
decorators, bases, values, annotations, alias target paths, expression structure and rendering); every paired
``ExprName`` resolves (``canonical_path``) in M2 exactly as in M; the CLI output equals
``json.dumps(collection.members, cls=JSONEncoder, indent=2, full=..., sort_keys=True)`` of the same in-process load.
"""
from __future__ import annotations

import dataclasses
import importlib
import json
import os
import random
import re
import subprocess
import sys
import tempfile
import zlib
from contextlib import contextmanager

from vf.core.util import case_watchdog
from vf.gen import rich_modules

PROP = "C08"
LEVEL = "exploration"
ANCHORS = ["encoders.py", "mixins.py"]
RULE = ("trees = generated packages (top init + core + sub-package/leaf [+ extra module, + .pyi stub]; every expression slot "
        "filled from the full expression grammar of vf.gen.exprs (static flavour) or from an evaluable pool with grammar "
        "annotations under postponed evaluation (importable flavour); classes with bases/decorators/nested classes/"
        "properties with setters and deleters/overloads/instance attributes/dataclasses; functions over all five "
        "parameter kinds; aliases that resolve inside the package, stay unresolved (stdlib, unknown, TYPE_CHECKING), "
        "wildcards; __all__ forms) x agent {visitor, inspector} x aliases {unresolved, resolved (implicit or not)}; packages "
        "of vf.gen.rich_modules.RebindGen (each scope binds names 2-3 times by different statement kinds in different control-flow "
        "wrappers, then uses them in every expression slot, in the binding scope and below it; judged by CPython's ast as to "
        "which names are re-bound) x both flavours x agents x aliases; "
        "stub layouts of vf.gen.rich_modules.StubGen (stubs derived from the generated modules: same names, rewritten annotations, "
        "overloads, stub-only members/modules/sub-packages) x layout {inline, <name>-stubs same/other search path, stubs only, "
        "module+stub, both} x find_stubs_package x cwd; "
        "namespace packages over two search paths x cwd {above, unrelated}; built-in modules; stdlib modules; griffe and "
        "_griffe; CLI dumps. distinct = digest of (files, package, options); non-trivial = the dump has >=3 object kinds, "
        ">=1 alias and >=3 expression classes")
LEVEL_TEXT = ("Each tree is really loaded, serialised in both forms, decoded from its minimal form and serialised again; "
              "byte equality of both forms, a field-by-field parallel walk of original and reloaded tree and equality of "
              "the canonical path of every paired expression name are required; a sample of trees is also dumped by the "
              "real command line in a subprocess and compared byte for byte with the in-process serialisation.")
LEVEL_NOTE = ("trusted: CPython's json module, the parallel walker written for this check; decoding the *full* form is not "
              "part of the contract; docstring parser left at its default (the parser is a load option that no dump "
              "stores); memory addresses in inspected reprs are masked in the CLI comparison (two processes); the CLI child runs "
              "with a different PYTHONHASHSEED than the harness")
TECHNIQUE = "runtime monitoring: round-trip oracle (encode / decode / re-encode + parallel tree walk) and CLI-vs-API differential"
REQUIRED_COUNTERS = ["trees_loaded", "static_trees", "dynamic_trees", "resolved_trees", "namespace_trees", "builtin_trees",
                     "stdlib_trees", "own_package_trees", "serialised_minimal", "serialised_full", "decoded",
                     "roundtrip_minimal_equal", "roundtrip_full_equal", "objects_walked", "expressions_compared",
                     "names_resolution_compared", "cli_dumps_compared", "rebinding_trees", "scopes_import_then_rebound",
                     "names_compared_import_then_rebound", "names_compared_rebound_other_order", "derived_paths_compared",
                     "stub_layout_trees", "pyi_modules_in_trees", "modules_outside_package_search_path"]
EXHAUSTIVE = {"quick": False, "thorough": False}
ASSUMPTIONS = ["generated importable packages have no import-time side effects; they get unique names and are purged from sys.modules",
               "trees the loader itself refuses to build are outside the quantifier ('any loaded tree') and are skipped, counted",
               "docstring parser = None (default) for every tree"]
SHARD_TIMEOUT = {"quick": 900, "thorough": 7200}

BUILTINS = ["itertools", "math", "_json", "sys", "time", "builtins", "_thread", "gc", "marshal", "errno", "atexit", "_io",
            "_collections", "_functools", "_operator", "posix"]
STDLIB = ["textwrap", "json", "shlex", "fnmatch", "glob", "heapq", "bisect", "keyword", "colorsys", "copy", "getopt", "reprlib",
          "string", "types", "abc", "contextlib", "dataclasses", "enum", "functools", "fractions", "numbers", "operator",
          "queue", "sched", "secrets", "stat", "struct", "tokenize", "warnings", "weakref", "pprint", "graphlib", "html",
          "wsgiref", "importlib", "email", "unittest", "asyncio", "concurrent", "logging", "xml", "sqlite3", "collections",
          "argparse", "ast", "inspect", "typing", "pathlib", "ipaddress", "decimal"]
ADDR = re.compile(r"0x[0-9a-fA-F]{6,}")
SETREPR = re.compile(r"(frozenset\(\{|\{)((?:'[^'\\\"{}]*'|[-\w.]+)(?:, (?:'[^'\\\"{}]*'|[-\w.]+))+)(\}\)|\})")


def _sorted_set_repr(m: re.Match) -> str:
    return m.group(1) + ", ".join(sorted(m.group(2).split(", "))) + m.group(3)

ID_LINENO = "C08-decode-missing-lineno"
ID_FILEPATH = "C08-decode-module-filepath-not-a-string"
ID_FULL_BUILTIN = "C08-full-dump-builtin-module"
ID_FULL_NS_CWD = "C08-full-dump-namespace-outside-cwd"
ID_SCOPE_SITE = "C08-reload-unattached-base-or-annotation"
ID_SCOPE_NESTED = "C08-reload-unattached-nested-name"
ID_STR_PARENT = "C08-reload-str-attribute-parent"
ID_LAMBDA = "C08-reload-lambda-parameter-kind"
ID_CHAIN = "C08-reload-attribute-chain-flattened"
ID_INIT_SCOPE = "C08-reload-init-scope-lost"
ID_MEMBER_KEY = "C08-decode-member-named-kind-or-cls"
ID_FUNC_MEMBERS = "C08-decode-drops-function-members"
ID_STUB_SCOPE = "C08-reload-stub-scope-lost"
ID_FULL_OUTSIDE = "C08-full-dump-module-outside-package-search-path"
ALL_IDS = [ID_LINENO, ID_FILEPATH, ID_FULL_BUILTIN, ID_FULL_NS_CWD, ID_SCOPE_SITE, ID_SCOPE_NESTED, ID_STR_PARENT, ID_LAMBDA, ID_CHAIN,
           ID_INIT_SCOPE, ID_MEMBER_KEY, ID_FUNC_MEMBERS, ID_STUB_SCOPE, ID_FULL_OUTSIDE]


# -- building and loading trees ---------------------------------------------------------------------------------------
@contextmanager
def materialised(case: dict):
    """Write the roots of a case below a fresh directory; chdir as the case demands; purge imported modules afterwards."""
    base = tempfile.mkdtemp(prefix="vfc08-")
    old_cwd = os.getcwd()
    roots = []
    try:
        for i, files in enumerate(case.get("roots", [])):
            root = os.path.join(base, f"r{i}")
            os.makedirs(root)
            for rel, content in files.items():
                p = os.path.join(root, rel)
                os.makedirs(os.path.dirname(p), exist_ok=True)
                with open(p, "w", encoding="utf8", errors="surrogatepass") as fh:
                    fh.write(content)
            roots.append(root)
        cwd_mode = case.get("cwd", "above")
        if cwd_mode == "unrelated":
            other = os.path.join(base, "elsewhere")
            os.makedirs(other)
            os.chdir(other)
        else:
            os.chdir(base)
        yield roots
    finally:
        os.chdir(old_cwd)
        pkg = case.get("package", "")
        if case.get("roots"):
            for k in [k for k in sys.modules if k == pkg or k.startswith(pkg + ".")]:
                del sys.modules[k]
            importlib.invalidate_caches()
        import shutil

        shutil.rmtree(base, ignore_errors=True)


def load_tree(case: dict, roots: list[str], *, cli_like: bool = False):
    """Load the tree a case describes with the real loader. Returns (module, loader)."""
    import griffe

    agent = case.get("agent", "static")
    kw: dict = {}
    if roots:
        kw["search_paths"] = roots
    if agent == "dynamic":
        kw.update(allow_inspection=True, force_inspection=True)
    elif agent == "static":
        kw.update(allow_inspection=False)
    else:  # "auto": whatever the loader picks (built-in modules: inspection)
        kw.update(allow_inspection=True)
    if cli_like:
        kw["store_source"] = False
        kw["allow_inspection"] = True
    parser = case.get("parser")
    if parser:
        kw["docstring_parser"] = griffe.Parser(parser)
    loader = griffe.GriffeLoader(**kw)
    extra = {"find_stubs_package": True} if case.get("find_stubs") else {}
    mod = loader.load(case["package"], try_relative_path=True, **extra) if cli_like else loader.load(case["package"], **extra)
    if case.get("resolve"):
        loader.resolve_aliases(implicit=bool(case.get("implicit")), external=case.get("external", False))
    return mod, loader


# -- inspection of dumps --------------------------------------------------------------------------------------------
def dump_stats(doc, stats: dict | None = None) -> dict:  # noqa: ANN001
    """Object kinds / expression classes / aliases / structural facts present in a decoded JSON dump."""
    stats = stats if stats is not None else {"kinds": set(), "classes": set(), "aliases": 0, "no_lineno": 0, "list_filepath": 0,
                                             "null_filepath": 0, "labels": set(), "param_kinds": set(), "objects": 0, "member_keys": 0}
    if isinstance(doc, dict):
        if isinstance(doc.get("cls"), str):
            stats["classes"].add(doc["cls"])
        elif isinstance(doc.get("kind"), str) and "name" in doc and doc["kind"] in ("module", "class", "function", "attribute", "alias"):
            stats["kinds"].add(doc["kind"])
            stats["objects"] += 1
            if doc["kind"] == "alias":
                stats["aliases"] += 1
            if doc["kind"] != "module" and "lineno" not in doc:
                stats["no_lineno"] += 1
            if doc["kind"] == "module":
                if isinstance(doc.get("filepath"), list):
                    stats["list_filepath"] += 1
                elif doc.get("filepath") is None:
                    stats["null_filepath"] += 1
            stats["labels"].update(doc.get("labels", ()))
            if isinstance(doc.get("members"), dict) and ("kind" in doc["members"] or "cls" in doc["members"]):
                stats["member_keys"] += 1
        elif isinstance(doc.get("kind"), str) and "name" in doc:
            stats["param_kinds"].add(str(doc["kind"]))
        for v in doc.values():
            dump_stats(v, stats)
    elif isinstance(doc, list):
        for v in doc:
            dump_stats(v, stats)
    return stats


def first_difference(a: str, b: str) -> dict:
    """Where two JSON texts differ (JSON pointer of the first differing value)."""
    try:
        da, db = json.loads(a), json.loads(b)
    except ValueError:
        i = next((k for k, (x, y) in enumerate(zip(a, b)) if x != y), min(len(a), len(b)))
        return {"offset": i, "original": a[max(0, i - 60): i + 60], "other": b[max(0, i - 60): i + 60]}

    def walk(x, y, ptr):  # noqa: ANN001, ANN202
        if type(x) is not type(y):
            return ptr, x, y
        if isinstance(x, dict):
            if list(x) != list(y):
                if set(x) != set(y):
                    return ptr, {"keys_only_in_original": sorted(set(x) - set(y)), "keys_only_in_other": sorted(set(y) - set(x))}, None
                return ptr, {"key_order": list(x)[:12]}, {"key_order": list(y)[:12]}
            for k in x:
                r = walk(x[k], y[k], f"{ptr}/{k}")
                if r:
                    return r
            return None
        if isinstance(x, list):
            if len(x) != len(y):
                return ptr, f"{len(x)} items: {json.dumps(x)[:200]}", f"{len(y)} items: {json.dumps(y)[:200]}"
            for i, (p, q) in enumerate(zip(x, y)):
                r = walk(p, q, f"{ptr}/{i}")
                if r:
                    return r
            return None
        return None if x == y else (ptr, x, y)

    r = walk(da, db, "")
    if r is None:
        i = next((k for k, (x, y) in enumerate(zip(a, b)) if x != y), min(len(a), len(b)))
        return {"offset": i, "original": a[max(0, i - 60): i + 60], "other": b[max(0, i - 60): i + 60], "note": "same data, different text"}
    return {"pointer": r[0], "original": json.dumps(r[1], default=repr)[:300], "other": json.dumps(r[2], default=repr)[:300]}


# -- which names does a scope bind several times?  (CPython's ast, independent of griffe) -------------------------------
def _binders(body: list, out: list) -> None:
    """(name, kind, lineno) for every binding statement of one scope, in source order; compound statements are entered,
    function bodies are not, class bodies are scopes of their own (handled by the caller)."""
    import ast

    for node in body:
        if isinstance(node, ast.Import):
            for a in node.names:
                out.append((a.asname or a.name.split(".", 1)[0], "import", node.lineno))
        elif isinstance(node, ast.ImportFrom):
            for a in node.names:
                out.append(("*", "wildcard", node.lineno) if a.name == "*" else (a.asname or a.name, "import", node.lineno))
        elif isinstance(node, (ast.FunctionDef, ast.AsyncFunctionDef)):
            out.append((node.name, "def", node.lineno))
        elif isinstance(node, ast.ClassDef):
            out.append((node.name, "class", node.lineno))
        elif isinstance(node, (ast.Assign, ast.AnnAssign, ast.AugAssign)):
            targets = node.targets if isinstance(node, ast.Assign) else [node.target]
            for t in targets:
                for n in ast.walk(t):
                    if isinstance(n, ast.Name) and isinstance(n.ctx, ast.Store):
                        out.append((n.id, "assign" if not isinstance(node, ast.AnnAssign) or node.value is not None else "annotation", node.lineno))
        else:
            for field in ("body", "orelse", "finalbody"):
                sub = getattr(node, field, None)
                if isinstance(sub, list) and sub and isinstance(sub[0], ast.stmt):
                    _binders(sub, out)
            for h in getattr(node, "handlers", ()):
                _binders(h.body, out)
            for c in getattr(node, "cases", ()):
                _binders(c.body, out)


def rebinding_census(files: dict) -> dict:
    """module path -> {"import_then_other": names bound by an import statement and, further down in the same scope, by a statement
    of another kind (def/class/assignment/annotation/wildcard import) or by another import; "other": names bound several times in
    any other order; "scopes": number of scopes with at least one name of the first class}."""
    import ast

    census: dict = {}
    for rel, src in files.items():
        if not rel.endswith((".py", ".pyi")):
            continue
        try:
            tree = ast.parse(src)
        except (SyntaxError, ValueError):
            continue
        parts = rel.rsplit(".", 1)[0].split("/")
        if parts[-1] == "__init__":
            parts.pop()
        entry = census.setdefault(".".join(parts), {"import_then_other": set(), "other": set(), "scopes": 0})
        scopes = [tree.body] + [n.body for n in ast.walk(tree) if isinstance(n, ast.ClassDef)]
        for body in scopes:
            events: list = []
            _binders(body, events)
            wild = [ln for nm, kind, ln in events if kind == "wildcard"]
            first_import: dict = {}
            count: dict = {}
            hit = False
            for nm, kind, ln in events:
                if kind == "wildcard":
                    continue
                count[nm] = count.get(nm, 0) + 1
                if kind == "import":
                    first_import.setdefault(nm, ln)
                if nm in first_import and ln > first_import[nm]:
                    entry["import_then_other"].add(nm)
                    hit = True
            for nm, ln in first_import.items():
                if any(w > ln for w in wild):  # a wildcard import below an import may re-bind the name
                    entry["import_then_other"].add(nm)
                    hit = True
            for nm, c in count.items():
                if (c > 1 or wild) and nm not in entry["import_then_other"]:
                    entry["other"].add(nm)
            entry["scopes"] += hit
    return census


# -- parallel walker ------------------------------------------------------------------------------------------------
class Problem:
    def __init__(self, what: str, observed=None, expected=None, finding: str | None = None) -> None:  # noqa: ANN001
        self.what, self.observed, self.expected, self.finding = what, observed, expected, finding


def _cp(name) -> tuple:  # noqa: ANN001
    try:
        return ("ok", name.canonical_path)
    except Exception as exc:  # noqa: BLE001
        return ("raises", type(exc).__name__)


def _has_special_lambda(expr) -> bool:  # noqa: ANN001
    """Does the expression contain a lambda whose rendering needs the parameter kinds (/, *, **, bare *)?"""
    from _griffe import expressions as ex

    stack = [expr]
    while stack:
        e = stack.pop()
        if isinstance(e, ex.ExprLambda) and any(str(getattr(p.kind, "value", p.kind)) != "positional or keyword" for p in e.parameters):
            return True
        if isinstance(e, ex.Expr):
            for f in dataclasses.fields(e):
                if f.name != "parent":
                    stack.append(getattr(e, f.name))
        elif isinstance(e, (list, tuple)):
            stack.extend(e)
    return False


class Walker:
    def __init__(self, rec, census: dict | None = None) -> None:  # noqa: ANN001
        self.rec = rec
        self.problems: list[Problem] = []
        self.n_objects = 0
        self.n_exprs = 0
        self.n_names = 0
        self.n_derived = 0
        self.census = census or {}
        self.scope_census: dict | None = None  # census entry of the module the walker is in
        self.n_rebound_first = 0
        self.n_rebound_other = 0
        self.root1 = None  # root of the original tree (to tell scopes that are part of the tree from scopes that are not)
        self.cur2 = None  # the reloaded object whose expressions are being compared

    def add(self, what: str, observed=None, expected=None, finding: str | None = None) -> None:  # noqa: ANN001
        if len(self.problems) < 200:
            self.problems.append(Problem(what, observed, expected, finding))

    # expressions --------------------------------------------------------------------------------------------------
    def expr(self, e1, e2, site: str, site_kind: str) -> None:  # noqa: ANN001
        from _griffe import expressions as ex

        if e1 is None and e2 is None:
            return
        if isinstance(e1, str) or isinstance(e2, str) or e1 is None or e2 is None:
            if e1 != e2 or type(e1) is not type(e2):
                self.add(f"{site}: expression differs after reload", repr(e2)[:200], repr(e1)[:200])
            return
        self.n_exprs += 1
        names: list = []
        derived: list = []
        if not self._same(e1, e2, names, derived):
            self.add(f"{site}: expression structure differs after reload", json.dumps(ex._expr_as_dict(e2), default=str)[:400],
                     json.dumps(ex._expr_as_dict(e1), default=str)[:400])
            return
        try:
            s1, s2 = str(e1), str(e2)
        except Exception as exc:  # noqa: BLE001
            self.add(f"{site}: rendering an expression raised {type(exc).__name__}", str(exc)[:200])
            return
        if s1 != s2:
            self.add(f"{site}: reloaded expression renders differently", s2[:300], s1[:300],
                     ID_LAMBDA if _has_special_lambda(e1) else None)
        # first layer, as the decoder's re-attachment sees it
        first_layer = set()
        for elem in e2:
            if isinstance(elem, ex.ExprName):
                first_layer.add(id(elem))
            elif isinstance(elem, ex.ExprAttribute) and isinstance(elem.first, ex.ExprName):
                first_layer.add(id(elem.first))
        chain_first = id(e2.first) if isinstance(e2, ex.ExprAttribute) else None
        differing = 0
        for n1, n2 in names:
            self.n_names += 1
            if self.scope_census is not None and not isinstance(n1.parent, ex.ExprName):
                if n1.name in self.scope_census["import_then_other"]:
                    self.n_rebound_first += 1
                elif n1.name in self.scope_census["other"]:
                    self.n_rebound_other += 1
            c1, c2 = _cp(n1), _cp(n2)
            if c1 == c2:
                continue
            differing += 1
            self.add(f"{site}: name {n1.name!r} resolves differently after reload ({site_kind})", c2, c1,
                     self.classify_name(n1, n2, site_kind, first_layer, chain_first) or self.classify_stub_scope(n1, n2))
        if differing:
            return
        # paths that compound expressions derive from their names (`a.b.c`, `f(x)` -> f, `f(k=1)` -> f(k), `a[b]` -> a)
        for d1, d2 in derived:
            self.n_derived += 1
            c1, c2 = _cp(d1), _cp(d2)
            if c1 != c2:
                self.add(f"{site}: canonical path of a {type(d1).__name__} differs after reload although every name in it resolves as "
                         f"before ({site_kind})", c2, c1)

    @staticmethod
    def classify_name(n1, n2, site_kind: str, first_layer: set, chain_first: int | None) -> str | None:  # noqa: ANN001
        """Mechanism predicate for one name that resolves differently: relation between the two `parent` links."""
        from _griffe import expressions as ex
        from _griffe.models import Class, Function, Module

        # a name of a dotted chain resolves through the name on its left: judge the leftmost link that differs
        while isinstance(n1.parent, ex.ExprName) and isinstance(n2.parent, ex.ExprName):
            n1, n2 = n1.parent, n2.parent
        p1, p2 = n1.parent, n2.parent
        if chain_first is not None and id(n2) != chain_first and isinstance(p2, (Module, Class)) \
                and not isinstance(p1, (Module, Class, Function)):
            # the whole expression is a dotted chain and every name of it (not only the leftmost) was re-parented to the scope
            return ID_CHAIN
        if p2 is None and isinstance(p1, str):
            return ID_STR_PARENT
        if p2 is None and isinstance(p1, (Module, Class, Function)):
            if site_kind in ("base", "attribute-annotation"):
                return ID_SCOPE_SITE
            if id(n2) not in first_layer:
                return ID_SCOPE_NESTED
            return None
        if isinstance(p1, Function) and p1.name == "__init__" and isinstance(p2, Class) and p1.parent is not None \
                and p1.parent.path == p2.path and site_kind in ("attribute-value", "attribute-annotation"):
            return ID_INIT_SCOPE
        return None

    def classify_stub_scope(self, n1, n2) -> str | None:  # noqa: ANN001
        """The original name is attached to a scope of a *stub* module (.pyi) that was merged into the tree and is not part of it
        (the object of the tree at that path is another object, from a non-stub file); the reloaded name is attached where the
        decoder attaches the expressions of the object being compared (the object itself or its parent)."""
        from pathlib import Path

        from _griffe import expressions as ex
        from _griffe.models import Class, Module

        while isinstance(n1.parent, ex.ExprName) and isinstance(n2.parent, ex.ExprName):
            n1, n2 = n1.parent, n2.parent
        p1, p2 = n1.parent, n2.parent
        if not isinstance(p1, (Module, Class)) or not isinstance(p2, (Module, Class)) or self.root1 is None or self.cur2 is None:
            return None
        if p2 is not self.cur2 and p2 is not self.cur2.parent:
            return None
        try:
            stub_file = p1.module._filepath
            if not (isinstance(stub_file, Path) and stub_file.suffix == ".pyi"):
                return None
            root = self.root1
            if p1.path != root.path and not p1.path.startswith(root.path + "."):
                return None
            in_tree = root
            for part in p1.path[len(root.path):].lstrip(".").split("."):
                if part:
                    in_tree = in_tree.members[part]
            merged_file = in_tree.module._filepath
        except Exception:  # noqa: BLE001
            return None
        if in_tree is not p1 and isinstance(merged_file, Path) and merged_file.suffix != ".pyi":
            return ID_STUB_SCOPE
        return None

    def _same(self, a, b, names: list, derived: list | None = None) -> bool:  # noqa: ANN001
        from _griffe import expressions as ex

        if isinstance(a, ex.Expr) or isinstance(b, ex.Expr):
            if type(a) is not type(b):
                return False
            self.rec.add_to_set("expression_classes_roundtripped", type(a).__name__)
            if isinstance(a, ex.ExprName):
                names.append((a, b))
            elif derived is not None and type(a).canonical_path is not ex.Expr.canonical_path:
                derived.append((a, b))
            for f in dataclasses.fields(a):
                if f.name == "parent":
                    continue
                if not self._same(getattr(a, f.name), getattr(b, f.name), names, derived):
                    return False
            return True
        if isinstance(a, (list, tuple)) and isinstance(b, (list, tuple)):
            return len(a) == len(b) and all(self._same(x, y, names, derived) for x, y in zip(a, b))
        return a == b and (isinstance(a, str) == isinstance(b, str))

    # objects ------------------------------------------------------------------------------------------------------
    def docstring(self, d1, d2, site: str) -> None:  # noqa: ANN001
        if (d1 is None) != (d2 is None):
            # an empty docstring is not dumped: equivalent to none
            if (d1 is None or not d1.value) and (d2 is None or not d2.value):
                return
            self.add(f"{site}: docstring presence differs", d2 is not None, d1 is not None)
            return
        if d1 is None:
            return
        got = (d2.value, d2.lineno, d2.endlineno)
        want = (d1.value, d1.lineno, d1.endlineno)
        if got != want:
            self.add(f"{site}: docstring value/span differs", got, want)

    def decorators(self, l1, l2, site: str) -> None:  # noqa: ANN001
        if len(l1) != len(l2):
            self.add(f"{site}: number of decorators differs", len(l2), len(l1))
            return
        for i, (a, b) in enumerate(zip(l1, l2)):
            if (a.lineno, a.endlineno) != (b.lineno, b.endlineno):
                self.add(f"{site}: decorator {i} span differs", (b.lineno, b.endlineno), (a.lineno, a.endlineno))
            self.expr(a.value, b.value, f"{site}.decorators[{i}]", "decorator")

    def obj(self, o1, o2) -> None:  # noqa: ANN001, C901, PLR0912
        from _griffe.enumerations import ParameterKind

        self.n_objects += 1
        if self.root1 is None:
            self.root1 = o1
        self.cur2 = o2
        site = o1.path
        if o1.is_alias != o2.is_alias:
            self.add(f"{site}: alias-ness differs", o2.is_alias, o1.is_alias)
            return
        if o1.name != o2.name:
            self.add(f"{site}: name differs", o2.name, o1.name)
        if o1.is_alias:
            got = (o2.target_path, o2.alias_lineno, o2.alias_endlineno)
            want = (o1.target_path, o1.alias_lineno, o1.alias_endlineno)
            if got != want:
                self.add(f"{site}: alias target path / span differs", got, want)
            return
        if o1.kind is not o2.kind:
            self.add(f"{site}: kind differs", o2.kind.value, o1.kind.value)
            return
        if o1.path != o2.path:
            self.add(f"{site}: path differs", o2.path, o1.path)
        if self.census:
            try:
                self.scope_census = self.census.get(o1.path if o1.is_module else o1.module.path)
            except Exception:  # noqa: BLE001
                self.scope_census = None
        if (o1.lineno, o1.endlineno) != (o2.lineno, o2.endlineno):
            self.add(f"{site}: line span differs", (o2.lineno, o2.endlineno), (o1.lineno, o1.endlineno))
        self.docstring(o1.docstring, o2.docstring, site)
        if set(o1.labels) != set(o2.labels):
            self.add(f"{site}: labels differ", sorted(o2.labels), sorted(o1.labels))
        if o1.is_module:
            if o1._filepath != o2._filepath:
                self.add(f"{site}: module filepath differs", repr(o2._filepath), repr(o1._filepath))
        elif o1.is_class:
            if len(o1.bases) != len(o2.bases):
                self.add(f"{site}: number of bases differs", len(o2.bases), len(o1.bases))
            else:
                for i, (a, b) in enumerate(zip(o1.bases, o2.bases)):
                    self.expr(a, b, f"{site}.bases[{i}]", "base")
            self.decorators(o1.decorators, o2.decorators, site)
        elif o1.is_function:
            self.decorators(o1.decorators, o2.decorators, site)
            p1, p2 = list(o1.parameters), list(o2.parameters)
            if [p.name for p in p1] != [p.name for p in p2]:
                self.add(f"{site}: parameter names differ", [p.name for p in p2], [p.name for p in p1])
            else:
                for a, b in zip(p1, p2):
                    if a.kind is not b.kind or not isinstance(b.kind, (ParameterKind, type(None))):
                        self.add(f"{site}({a.name}): parameter kind differs", repr(b.kind), repr(a.kind))
                    self.expr(a.annotation, b.annotation, f"{site}({a.name}).annotation", "parameter-annotation")
                    self.expr(a.default, b.default, f"{site}({a.name}).default", "parameter-default")
                    self.docstring(a.docstring, b.docstring, f"{site}({a.name})")
            self.expr(o1.returns, o2.returns, f"{site}.returns", "returns")
        elif o1.is_attribute:
            self.expr(o1.value, o2.value, f"{site}.value", "attribute-value")
            self.expr(o1.annotation, o2.annotation, f"{site}.annotation", "attribute-annotation")
        if list(o1.members) != list(o2.members):
            self.add(f"{site}: member names / order differ", list(o2.members)[:30], list(o1.members)[:30],
                     ID_FUNC_MEMBERS if o1.is_function and not o2.members else None)
            return
        for name, m1 in o1.members.items():
            self.obj(m1, o2.members[name])


# -- the oracle -------------------------------------------------------------------------------------------------------
def classify_decode_error(exc: BaseException, stats: dict) -> str | None:
    import traceback

    frames = [f.name for f in traceback.extract_tb(exc.__traceback__)]
    if isinstance(exc, KeyError) and exc.args == ("lineno",) and stats["no_lineno"] and \
            frames and frames[-1] in ("_load_class", "_load_function", "_load_attribute", "_load_alias"):
        return ID_LINENO
    if isinstance(exc, TypeError) and "_load_module" in frames and (stats["list_filepath"] or stats["null_filepath"]):
        return ID_FILEPATH
    if stats["member_keys"] and isinstance(exc, (KeyError, TypeError, ValueError, AttributeError)) and "json_decoder" in frames and \
            ("_load_parameter" in frames or "_load_expression" in frames):
        # a members map was mistaken for a parameter ('kind' key: KeyError 'name' / invalid ParameterKind) or for an
        # expression ('cls' key: getattr(expressions, <object>))
        return ID_MEMBER_KEY
    return None


def lost_function_members(original: str, again: str, pointer: str | None) -> bool:
    """The first difference is the members map of a *function*: non-empty in the original dump, empty after the round trip."""
    if not pointer or not pointer.endswith("/members"):
        return False

    def at(doc, ptr):  # noqa: ANN001, ANN202
        for part in ptr.split("/")[1:]:
            doc = doc[int(part)] if isinstance(doc, list) else doc[part]
        return doc

    try:
        owner1, owner2 = at(json.loads(original), pointer[: -len("/members")]), at(json.loads(again), pointer[: -len("/members")])
    except (KeyError, IndexError, ValueError):
        return False
    return owner1.get("kind") == "function" and bool(owner1.get("members")) and not owner2.get("members")


def has_builtin_module(mod) -> bool:  # noqa: ANN001
    stack = [mod]
    while stack:
        o = stack.pop()
        if o.is_alias:
            continue
        if o.is_module and o._filepath is None:
            return True
        stack.extend(o.members.values())
    return False


def namespace_outside_cwd(mod) -> bool:  # noqa: ANN001
    """A module with a list-valued filepath none of whose directories lies under the current working directory."""
    from pathlib import Path

    cwd = Path.cwd()
    stack = [mod]
    while stack:
        o = stack.pop()
        if o.is_alias:
            continue
        if o.is_module:
            fp = o._filepath
            if isinstance(fp, list) and not any(p == cwd or cwd in p.parents for p in fp):
                return True
            stack.extend(o.members.values())
    return False


def module_files(mod) -> dict:  # noqa: ANN001
    """Observed file layout of a loaded tree: how many modules come from `.pyi` files, and how many regular modules of a regular
    package lie outside the directory the package itself was found in (its search path)."""
    from pathlib import Path

    out = {"pyi": 0, "outside": 0, "modules": 0}
    top = mod._filepath if mod.is_module else None
    base = None
    if isinstance(top, Path):
        base = top.parent.parent if top.stem == "__init__" else top.parent
    stack = [mod]
    while stack:
        o = stack.pop()
        if o.is_alias or not o.is_module:
            continue
        out["modules"] += 1
        fp = o._filepath
        if isinstance(fp, Path):
            if fp.suffix == ".pyi":
                out["pyi"] += 1
            if base is not None and base not in fp.parents:
                out["outside"] += 1
        stack.extend(o.members.values())
    return out


def judge(rec, case: dict, mod, tags: tuple = ()) -> None:  # noqa: ANN001, C901, PLR0912, PLR0915
    """All in-process oracles on one loaded tree."""
    from _griffe.exceptions import BuiltinModuleError
    from _griffe.models import Module

    problems: list[Problem] = []
    layout = module_files(mod)
    rec.count("pyi_modules_in_trees", layout["pyi"])
    rec.count("modules_outside_package_search_path", layout["outside"])
    # 1. serialising never fails
    dumps: dict[bool, str | None] = {}
    for full in (False, True):
        try:
            dumps[full] = mod.as_json(full=full)
            rec.count("serialised_full" if full else "serialised_minimal")
        except Exception as exc:  # noqa: BLE001
            dumps[full] = None
            finding = None
            if full and isinstance(exc, BuiltinModuleError) and has_builtin_module(mod):
                finding = ID_FULL_BUILTIN
            elif full and type(exc) is ValueError and namespace_outside_cwd(mod):
                finding = ID_FULL_NS_CWD
            elif full and type(exc) is ValueError and "is not in the subpath of" in str(exc) and layout["outside"] and dumps[False] is not None:
                finding = ID_FULL_OUTSIDE
            problems.append(Problem(f"as_json(full={full}) raised {type(exc).__name__} on a loaded tree", f"{type(exc).__name__}: {exc}"[:300],
                                    "a JSON string", finding))
    minimal = dumps[False]
    nontrivial = False
    if minimal is not None:
        stats = dump_stats(json.loads(minimal))
        nontrivial = len(stats["kinds"]) >= 3 and stats["aliases"] >= 1 and len(stats["classes"]) >= 3
        for k in stats["kinds"]:
            rec.add_to_set("object_kinds_serialised", k)
        for k in stats["classes"]:
            rec.add_to_set("expression_classes_serialised", k)
        for k in stats["labels"]:
            rec.add_to_set("labels_serialised", k)
        for k in stats["param_kinds"]:
            rec.add_to_set("parameter_kinds_serialised", k)
        rec.maximum("objects_in_one_tree", stats["objects"])
        if stats["no_lineno"]:
            rec.count("trees_with_objects_without_lineno")
        # 2. decoding the minimal form
        m2 = None
        try:
            m2 = Module.from_json(minimal)
            rec.count("decoded")
        except Exception as exc:  # noqa: BLE001
            problems.append(Problem(f"Module.from_json(minimal dump) raised {type(exc).__name__}", f"{type(exc).__name__}: {exc}"[:300],
                                    "a Module", classify_decode_error(exc, stats)))
        if m2 is not None:
            # 3. identical re-serialisation in both forms
            for full in (False, True):
                if dumps[full] is None:
                    continue
                try:
                    again = m2.as_json(full=full)
                except Exception as exc:  # noqa: BLE001
                    problems.append(Problem(f"as_json(full={full}) of the reloaded tree raised {type(exc).__name__}",
                                            f"{type(exc).__name__}: {exc}"[:300], "the original text"))
                    continue
                if again == dumps[full]:
                    rec.count("roundtrip_full_equal" if full else "roundtrip_minimal_equal")
                else:
                    d = first_difference(dumps[full], again)
                    problems.append(Problem(f"reloaded tree serialises differently (full={full})", d.get("other"),
                                            {"original": d.get("original"), "at": d.get("pointer", d.get("offset"))},
                                            ID_FUNC_MEMBERS if lost_function_members(dumps[full], again, d.get("pointer")) else None))
            # 4. parallel walk + name resolution
            census = {}
            for files in case.get("roots", ()):
                for path, entry in rebinding_census(files).items():
                    mine = census.setdefault(path, {"import_then_other": set(), "other": set(), "scopes": 0})
                    mine["import_then_other"] |= entry["import_then_other"]
                    mine["other"] |= entry["other"] - mine["import_then_other"]
                    mine["scopes"] += entry["scopes"]
            rec.count("scopes_import_then_rebound", sum(e["scopes"] for e in census.values()))
            w = Walker(rec, census)
            try:
                w.obj(mod, m2)
            except Exception as exc:  # noqa: BLE001
                problems.append(Problem(f"walking original and reloaded tree raised {type(exc).__name__}", str(exc)[:300]))
            rec.count("objects_walked", w.n_objects)
            rec.count("expressions_compared", w.n_exprs)
            rec.count("names_resolution_compared", w.n_names)
            rec.count("derived_paths_compared", w.n_derived)
            rec.count("names_compared_import_then_rebound", w.n_rebound_first)
            rec.count("names_compared_rebound_other_order", w.n_rebound_other)
            problems.extend(w.problems)
    _report(rec, case, problems, nontrivial, tags)


def _report(rec, case: dict, problems: list[Problem], nontrivial: bool, tags: tuple = ()) -> None:  # noqa: ANN001
    if not problems:
        rec.ok(case, nontrivial=nontrivial, tags=tags)
        return
    unexplained = [p for p in problems if p.finding is None]
    pick = unexplained[0] if unexplained else problems[0]
    for p in problems:
        if p.finding:
            rec.count("explained_by:" + p.finding)
    rec.fail(case, pick.what, observed=pick.observed, expected=pick.expected, finding=pick.finding, nontrivial=nontrivial,
             tags=tags, tried=ALL_IDS)
    if not unexplained:
        # one refutation is recorded per case; every *other* listed mechanism seen in the same case is added to the recorder's
        # known-finding histogram without counting as a further evaluation.  A mechanism that is not (or no longer) listed as
        # `known` is a refutation of its own.
        from vf.core.rec import jsonable, known_findings

        for fid in sorted({p.finding for p in problems if p.finding != pick.finding}):
            p = next(q for q in problems if q.finding == fid)
            entry = known_findings().get(fid)
            if entry is not None and entry.get("property") == PROP and entry.get("status") == "known":
                k = rec.known.setdefault(fid, {"count": 0, "first": None})
                k["count"] += 1
                if k["first"] is None:
                    k["first"] = {"input": jsonable(case), "what": p.what, "observed": jsonable(p.observed), "expected": jsonable(p.expected)}
            else:
                rec.fail({**case, "also": fid}, p.what, observed=p.observed, expected=p.expected, finding=fid, nontrivial=False,
                         tags=("secondary",), tried=ALL_IDS)


def run_tree(rec, case: dict) -> None:  # noqa: ANN001
    """Materialise, load and judge one tree case (kind 'files' or 'named')."""
    tags = (f"agent:{case.get('agent', 'static')}", "resolved" if case.get("resolve") else "unresolved", f"source:{case.get('source', '?')}")
    try:
        with case_watchdog(300), materialised(case) as roots:
            try:
                mod, _loader = load_tree(case, roots)
            except Exception as exc:  # noqa: BLE001
                rec.skip(f"loader refused the tree ({type(exc).__name__})")
                rec.count("load_failures:" + case.get("source", "?") + ":" + case.get("agent", "static"))
                return
            rec.count("trees_loaded")
            rec.count({"static": "static_trees", "dynamic": "dynamic_trees", "auto": "auto_agent_trees"}[case.get("agent", "static")])
            if case.get("resolve"):
                rec.count("resolved_trees")
            src = case.get("source")
            if src in ("namespace", "builtin", "stdlib", "own", "rebinding", "rebinding-importable"):  # noqa: SIM102
                rec.count({"namespace": "namespace_trees", "builtin": "builtin_trees", "stdlib": "stdlib_trees", "own": "own_package_trees",
                           "rebinding": "rebinding_trees", "rebinding-importable": "rebinding_trees"}[src])
            if src == "stubs":
                rec.count("stub_layout_trees")
                rec.add_to_set("stub_layouts_loaded", f"{case.get('layout', '?')}:{'find-stubs-package' if case.get('find_stubs') else 'plain'}")
            judge(rec, case, mod, tags)
    except Exception as exc:  # noqa: BLE001
        rec.fail_exc(case, f"{type(exc).__name__} escaped the harness around one tree", exc)


# -- CLI leg ----------------------------------------------------------------------------------------------------------
def run_cli(rec, case: dict) -> None:  # noqa: ANN001, C901, PLR0912
    from _griffe.encoders import JSONEncoder

    opts = case["cli"]
    tags = ("cli", f"agent:{case.get('agent', 'static')}")
    try:
        with case_watchdog(300), materialised(case) as roots:
            argv = [sys.executable, "-m", "griffe", "dump", case["package"]]
            for r in roots:
                argv += ["-s", r]
            if opts.get("full"):
                argv.append("-f")
            if case.get("resolve"):
                argv.append("-r")
                if case.get("implicit"):
                    argv.append("-I")
            if case.get("agent") == "dynamic":
                argv.append("-x")
            out_mode = opts.get("output", "file")
            out_path = os.path.join(os.getcwd(), "cli-out.json")
            if out_mode == "file":
                argv += ["-o", out_path]
            elif out_mode == "template":
                argv += ["-o", os.path.join(os.getcwd(), "cli-{package}.json")]
                out_path = os.path.join(os.getcwd(), f"cli-{case['package']}.json")
            env = {k: v for k, v in os.environ.items() if k not in ("PYTHONPATH", "GRIFFE_VERIF")}
            env["PYTHONPATH"] = os.path.join(os.path.realpath(os.environ.get("VERIF_REPO", "/repo")), "src")
            env["PYTHONDONTWRITEBYTECODE"] = "1"
            # the emitted text must not depend on the string-hash seed of the dumping process (set iteration order)
            env["PYTHONHASHSEED"] = str(1 + zlib.crc32(case["package"].encode()) % 4096)
            proc = subprocess.run(argv, env=env, cwd=os.getcwd(), stdout=subprocess.PIPE, stderr=subprocess.PIPE, timeout=240,
                                  check=False, stdin=subprocess.DEVNULL)
            if out_mode == "stdout":
                text = proc.stdout.decode("utf8", "replace")
            else:
                try:
                    with open(out_path, encoding="utf8") as fh:
                        text = fh.read()
                except OSError:
                    text = None
            # the same load, in this process
            try:
                incase = dict(case)
                incase["external"] = False
                mod, loader = load_tree(incase, roots, cli_like=True)
                members = loader.modules_collection.members
                if out_mode == "template":
                    expected = json.dumps(members[case["package"]], cls=JSONEncoder, indent=2, full=bool(opts.get("full")), sort_keys=True) + "\n"
                else:
                    expected = json.dumps(members, cls=JSONEncoder, indent=2, full=bool(opts.get("full")), sort_keys=True) + "\n"
            except Exception as exc:  # noqa: BLE001
                rec.skip(f"in-process load/serialisation for the CLI comparison failed ({type(exc).__name__})")
                return
            if proc.returncode != 0 or text is None:
                rec.fail(case, "griffe dump exited non-zero / wrote nothing while the in-process serialisation succeeds",
                         observed={"rc": proc.returncode, "stderr": proc.stderr.decode("utf8", "replace")[-600:]}, expected="exit 0", tags=tags)
                return
            rec.count("cli_dumps_compared")
            stats = dump_stats(json.loads(expected))
            nontrivial = len(stats["kinds"]) >= 3 and stats["aliases"] >= 1 and len(stats["classes"]) >= 3
            a, b = ADDR.sub("0xADDR", expected), ADDR.sub("0xADDR", text)
            # reprs of set / frozenset values of *inspected* attributes depend on the hash seed of the process that imported
            # the module (the CLI child deliberately runs under another PYTHONHASHSEED): compare them as sorted element lists
            a, b = SETREPR.sub(_sorted_set_repr, a), SETREPR.sub(_sorted_set_repr, b)
            if a != b:
                d = first_difference(a, b)
                rec.fail(case, "griffe dump output differs from json.dumps(collection.members, cls=JSONEncoder, indent=2, sort_keys=True)",
                         observed=d.get("other"), expected={"in_process": d.get("original"), "at": d.get("pointer", d.get("offset")),
                                                            "note": d.get("note")}, nontrivial=nontrivial, tags=tags)
            else:
                rec.ok(case, nontrivial=nontrivial, tags=tags)
    except subprocess.TimeoutExpired:
        rec.inconclusive(case, "griffe dump subprocess timed out")
    except Exception as exc:  # noqa: BLE001
        rec.fail_exc(case, f"{type(exc).__name__} escaped the harness around one CLI case", exc)


# -- workload ---------------------------------------------------------------------------------------------------------
def shards(tier: str, seed: int) -> list[dict]:
    quick = tier == "quick"
    out = []
    for i in range(16):
        out.append({
            "static_pkgs": 20 if quick else 400, "importable_pkgs": 8 if quick else 150, "namespaces": 3 if quick else 30,
            "builtins": [BUILTINS[i % len(BUILTINS)]],
            "stdlib": [STDLIB[(2 * i + k) % len(STDLIB)] for k in range(2)] if quick else [STDLIB[(3 * i + k) % len(STDLIB)] for k in range(3)],
            "own": (["griffe"] if i == 0 else ["_griffe"] if i == 1 else []),
            "cli": 6 if quick else 50, "depth": 2 if quick else 3, "index": i, "structural_pkgs": 12 if quick else 250,
            "rebinding_static": 4 if quick else 120, "rebinding_importable": 2 if quick else 40,
            "stub_layouts": 6 if quick else 150,
        })
    return out


def generated_cases(rng: random.Random, spec: dict, uid: str):  # noqa: ANN201
    """Yield the literal cases of one shard (generated part)."""
    depth = spec["depth"]
    for i in range(spec["static_pkgs"]):
        name = f"vs{uid}_{i}"
        files, feats = rich_modules.gen_package(rng, name, flavour="static", depth=rng.randint(1, depth))
        for resolve in (False, True):
            yield {"kind": "files", "source": "static-rich", "roots": [files], "package": name, "agent": "static", "resolve": resolve,
                   "implicit": rng.random() < 0.5}
    # structural modules of the C01 generator (duplicates, forwarded docstrings, wrappers, instance attributes, overloads,
    # property setters) as one-module packages
    from vf.gen.modules import Gen

    for i in range(spec.get("structural_pkgs", 0)):
        name = f"vm{uid}_{i}"
        src = Gen(rng, dup_prob=rng.choice([0.3, 0.5])).module()
        try:
            compile(src, "<c08>", "exec")
        except SyntaxError:
            continue
        yield {"kind": "files", "source": "static-structural", "roots": [{f"{name}/__init__.py": src}], "package": name,
               "agent": "static", "resolve": False, "implicit": False}
    for i in range(spec["importable_pkgs"]):
        name = f"vi{uid}_{i}"
        files, feats = rich_modules.gen_package(rng, name, flavour="importable", depth=rng.randint(1, depth))
        for agent in ("static", "dynamic"):
            for resolve in (False, True):
                yield {"kind": "files", "source": "importable", "roots": [files], "package": name, "agent": agent, "resolve": resolve,
                       "implicit": rng.random() < 0.5}
    for i in range(spec["namespaces"]):
        name = f"vn{uid}_{i}"
        roots, feats = rich_modules.gen_namespace(rng, name, depth=rng.randint(1, depth))
        for cwd in ("above", "unrelated"):
            yield {"kind": "files", "source": "namespace", "roots": roots, "package": name, "agent": "static", "resolve": rng.random() < 0.5,
                   "implicit": True, "cwd": cwd}


def rebinding_cases(spec: dict, uid: str):  # noqa: ANN201
    """Packages whose scopes bind names several times (own random stream derived from the seed: the other cases of a seed stay
    what they were)."""
    rng = random.Random(f"{spec['seed']}:rebinding")
    depth = spec["depth"]
    for i in range(spec.get("rebinding_static", 0)):
        name = f"vr{uid}_{i}"
        files, _ = rich_modules.gen_rebinding_package(rng, name, flavour="static", depth=rng.randint(1, depth))
        implicit = rng.random() < 0.5
        for resolve in (False, True):
            yield {"kind": "files", "source": "rebinding", "roots": [files], "package": name, "agent": "static", "resolve": resolve,
                   "implicit": implicit}
    for i in range(spec.get("rebinding_importable", 0)):
        name = f"vq{uid}_{i}"
        files, _ = rich_modules.gen_rebinding_package(rng, name, flavour="importable", depth=rng.randint(1, depth))
        for agent in ("static", "dynamic"):
            for resolve in (False, True):
                yield {"kind": "files", "source": "rebinding-importable", "roots": [files], "package": name, "agent": agent,
                       "resolve": resolve, "implicit": rng.random() < 0.5}


def stub_layout_cases(spec: dict, uid: str):  # noqa: ANN201
    """Packages that come with stubs: next to the sources, `__init__.pyi`, `<name>-stubs` packages in the same or in another search
    path, stub-only modules and sub-packages, stubs only; loaded with and without `find_stubs_package` (own random stream)."""
    rng = random.Random(f"{spec['seed']}:stubs")
    for i in range(spec.get("stub_layouts", 0)):
        name = f"vp{uid}_{i}"
        roots, options, _ = rich_modules.gen_stubs_layout(rng, name, depth=rng.randint(1, spec["depth"]))
        resolve = rng.random() < 0.5
        yield {"kind": "files", "source": "stubs", "roots": roots, "package": name, "agent": "static", "resolve": resolve,
               "implicit": rng.random() < 0.5, "find_stubs": options["find_stubs"], "layout": options["layout"],
               "cwd": rng.choice(["above", "unrelated"])}
        if options["layout"] != "stubs-only" and rng.random() < 0.5:
            yield {"kind": "files", "source": "stubs", "roots": roots, "package": name, "agent": "static", "resolve": not resolve,
                   "implicit": False, "find_stubs": not options["find_stubs"], "layout": options["layout"], "cwd": "above"}


def cli_cases(rng: random.Random, spec: dict, uid: str):  # noqa: ANN201
    for i in range(spec["cli"]):
        name = f"vc{uid}_{i}"
        k = rng.random()
        if k < 0.45:
            files, _ = rich_modules.gen_package(rng, name, flavour="static", depth=rng.randint(1, spec["depth"]))
            roots, agent, source = [files], "static", "static-rich"
        elif k < 0.85:
            files, _ = rich_modules.gen_package(rng, name, flavour="importable", depth=rng.randint(1, spec["depth"]))
            roots, agent, source = [files], rng.choice(["static", "dynamic"]), "importable"
        else:
            roots, _ = rich_modules.gen_namespace(rng, name, depth=1)
            agent, source = "static", "namespace"
        yield {"kind": "cli", "source": source, "roots": roots, "package": name, "agent": agent, "resolve": rng.random() < 0.5,
               "implicit": rng.random() < 0.5, "cli": {"full": rng.random() < 0.5, "output": rng.choice(["file", "file", "stdout", "template"])}}


def run_case(rec, case: dict) -> None:  # noqa: ANN001
    if case["kind"] == "cli":
        run_cli(rec, case)
    else:
        run_tree(rec, case)


def run_shard(spec: dict, rec) -> None:  # noqa: ANN001
    rng = random.Random(spec["seed"])
    uid = f"{spec['seed'] % 1000003}"
    for name in spec["own"]:
        for resolve in (False, True):
            run_case(rec, {"kind": "named", "source": "own", "package": name, "agent": "static", "resolve": resolve, "implicit": False})
    for name in spec["builtins"]:
        run_case(rec, {"kind": "named", "source": "builtin", "package": name, "agent": "auto", "resolve": False})
    for name in spec["stdlib"]:
        run_case(rec, {"kind": "named", "source": "stdlib", "package": name, "agent": "static", "resolve": rng.random() < 0.5, "implicit": False})
    for case in generated_cases(rng, spec, uid):
        run_case(rec, case)
    for case in rebinding_cases(spec, uid):
        run_case(rec, case)
    for case in stub_layout_cases(spec, uid):
        run_case(rec, case)
    for case in cli_cases(rng, spec, uid):
        run_case(rec, case)


def run_replay(inp: dict, rec) -> None:  # noqa: ANN001
    inp = {k: v for k, v in inp.items() if k != "also"}
    run_case(rec, inp)


def run_pinned(findings: list[dict], rec) -> dict:  # noqa: ANN001
    from vf.core.rec import Recorder, pinned_result

    out = {}
    for f in findings:
        sub = Recorder(PROP, {})
        run_case(sub, f["witness"])
        out[f["id"]] = pinned_result(sub, f)
    return out
