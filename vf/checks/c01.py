"""C01 — Static extraction is faithful to the source.

W-A: modules rendered by a structural generator (vf.gen.modules): every binding form, nesting,
wrappers, decorators, docstrings, duplicates.  Expected members, spans, labels, docstrings, flags,
imports and exports come from an *independent reference model* (written from the statement) that
walks CPython's own ``ast`` of the same text.  M-EXT records every extension event of the visit and
an offline trace checker verifies exactly-once / parent-first / members-after-last-member.
W-B (totality only): stdlib source files and randomly mutated/recombined real-world statements.
"""
from __future__ import annotations

import ast
import inspect
import os
import random
import sysconfig
import textwrap
from pathlib import Path

from vf.core.util import case_watchdog, visit_source
from vf.gen.modules import Gen

PROP = "C01"
LEVEL = "exploration"
ANCHORS = ["agents/visitor.py", "agents/nodes/assignments.py", "agents/nodes/docstrings.py", "agents/nodes/exports.py",
           "agents/nodes/ast.py"]
RULE = ("W-A: modules from a structural generator (functions/async/decorator catalogue/properties with setters/overloads, "
        "classes with bases/keywords/decorators nested <=3, assignments in 6 forms + attribute docstrings, 8 import forms, "
        "__all__ forms, wrappers if/else/TYPE_CHECKING/try/except/else/finally/for/while/with nested <=2, __init__ bodies "
        "with instance attributes, duplicate names with probability 0.3); W-B: stdlib files (totality) and generated "
        "hostile modules (tuple/attribute/subscript targets, `__all__ +=` first). distinct = digest of the text; "
        "non-trivial = >=2 scopes, >=1 duplicate name and >=1 wrapper block")
LEVEL_TEXT = ("Every generated module is visited by the real visitor under a passive recording extension; the member table of "
              "every scope (names, kinds, parents, surviving duplicate), spans (read from CPython's ast nodes), source "
              "slices, decorators, labels, docstrings and their spans, attribute docstrings, runtime flag, import map and "
              "exports are compared with an independent reference model; visibility predicates are compared with the "
              "documented decision table; the event trace is checked offline; any exception is a violation. Every derived "
              "read-only view of every object (Object.lines/.source/.lines_collection slices, Docstring.source/.lines for module, "
              "class, function, property and attribute docstrings incl. shared and forwarded ones, path/canonical_path, item access "
              "by dotted and tuple key, module/package/filepath/relative paths, is_*/is_kind, module-shape predicates, len, "
              "has_labels, filter_members, has_docstring(s), imports_future_annotations) is compared with CPython's view of the text "
              "and the object's place in the tree - with the caller's LinesCollection given to visit(), through the loader with "
              "store_source=True, and with nothing stored (empty, never text), in the model and the totality workloads alike.")
LEVEL_NOTE = ("trusted: CPython ast (spans, parse), the reference model (~200 lines, from the statement), the generator's "
              "renderer only through CPython's parse of its output; domain restrictions listed in DESIGN C01")
TECHNIQUE = "runtime monitoring: reference-model monitor over CPython ast + extension-event trace checker + totality monitor"
REQUIRED_COUNTERS = ["loader_sources_compared", "modules_visited", "scopes_compared", "members_compared", "spans_compared", "slices_reparsed", "labels_compared",
                     "docstrings_compared", "visibility_rows_compared", "traces_checked", "events_recorded",
                     "totality_files_visited", "conditional_reassignments_seen", "displaced_duplicates_seen",
                     "modules_loaded_through_loader",
                     # derived views (every public read-only view of a span / path / member table, three ways of keeping the source)
                     "object_lines_views_compared", "docstring_source_views_compared", "attribute_docstring_source_views_compared",
                     "forwarded_docstring_source_views", "unstored_object_views_compared", "unstored_docstring_views_compared",
                     "item_access_compared", "owner_views_compared", "kind_predicates_compared", "has_docstrings_compared"]
EXHAUSTIVE = {"quick": False, "thorough": False}
ASSUMPTIONS = ["else-branches of `if TYPE_CHECKING` and TYPE_CHECKING blocks nested in other blocks are not generated",
               "labels are compared exactly only for names bound once in their scope"]


# -- M-EXT -----------------------------------------------------------------------------------------
def make_recorder():  # noqa: ANN201
    import griffe

    class Trace(griffe.Extension):
        def __init__(self) -> None:
            self.events: list[tuple] = []

        def _rec(self, event: str, obj=None, node=None) -> None:  # noqa: ANN001
            self.events.append((event, id(obj) if obj is not None else None, obj, id(node) if node is not None else None))

        def on_node(self, *, node, agent, **kw):  # noqa: ANN001, ANN003, ARG002
            self._rec("node", None, node)

        def on_instance(self, *, node, obj, agent, **kw):  # noqa: ANN001, ANN003, ARG002
            self._rec("instance", obj, node)

        def on_members(self, *, node, obj, agent, **kw):  # noqa: ANN001, ANN003, ARG002
            self._rec("members", obj, node)

        def on_module_node(self, *, node, agent, **kw):  # noqa: ANN001, ANN003, ARG002
            self._rec("module_node", None, node)

        def on_module_instance(self, *, node, mod, agent, **kw):  # noqa: ANN001, ANN003, ARG002
            self._rec("module_instance", mod, node)

        def on_module_members(self, *, node, mod, agent, **kw):  # noqa: ANN001, ANN003, ARG002
            self._rec("module_members", mod, node)

        def on_class_node(self, *, node, agent, **kw):  # noqa: ANN001, ANN003, ARG002
            self._rec("class_node", None, node)

        def on_class_instance(self, *, node, cls, agent, **kw):  # noqa: ANN001, ANN003, ARG002
            self._rec("class_instance", cls, node)

        def on_class_members(self, *, node, cls, agent, **kw):  # noqa: ANN001, ANN003, ARG002
            self._rec("class_members", cls, node)

        def on_function_node(self, *, node, agent, **kw):  # noqa: ANN001, ANN003, ARG002
            self._rec("function_node", None, node)

        def on_function_instance(self, *, node, func, agent, **kw):  # noqa: ANN001, ANN003, ARG002
            self._rec("function_instance", func, node)

        def on_attribute_node(self, *, node, agent, **kw):  # noqa: ANN001, ANN003, ARG002
            self._rec("attribute_node", None, node)

        def on_attribute_instance(self, *, node, attr, agent, **kw):  # noqa: ANN001, ANN003, ARG002
            self._rec("attribute_instance", attr, node)

        def on_alias(self, *, node, alias, agent, **kw):  # noqa: ANN001, ANN003, ARG002
            self._rec("alias", alias, node)

    return Trace()


def check_trace(module, events: list[tuple]) -> str | None:  # noqa: ANN001, C901, PLR0911, PLR0912
    """Offline trace specification: exactly-once, parent-first, members-after-last-member, well-parenthesised."""
    inst: dict[int, list[int]] = {}
    kind_inst: dict[int, list[str]] = {}
    members_at: dict[int, list[int]] = {}
    kind_members: dict[int, list[str]] = {}
    alias_at: dict[int, list[int]] = {}
    for i, (ev, oid, _obj, _nid) in enumerate(events):
        if ev == "instance":
            inst.setdefault(oid, []).append(i)
        elif ev.endswith("_instance"):
            kind_inst.setdefault(oid, []).append(ev)
        elif ev == "members":
            members_at.setdefault(oid, []).append(i)
        elif ev.endswith("_members"):
            kind_members.setdefault(oid, []).append(ev)
        elif ev == "alias":
            alias_at.setdefault(oid, []).append(i)

    def walk(obj):  # noqa: ANN001, ANN202
        yield obj
        if not obj.is_alias:
            for m in obj.members.values():
                yield from walk(m)
            for extra in (getattr(obj, "setter", None), getattr(obj, "deleter", None)):
                if extra is not None:
                    pass

    for obj in walk(module):
        oid = id(obj)
        if obj.is_alias:
            if len(alias_at.get(oid, [])) != 1:
                return f"alias {obj.path}: on_alias fired {len(alias_at.get(oid, []))} times"
            continue
        if len(inst.get(oid, [])) != 1:
            return f"{obj.kind.value} {obj.path}: on_instance fired {len(inst.get(oid, []))} times"
        want = f"{obj.kind.value}_instance"
        if kind_inst.get(oid, []) != [want]:
            return f"{obj.kind.value} {obj.path}: kind-specific instance events {kind_inst.get(oid, [])}, expected [{want}]"
        parent = obj.parent
        if parent is not None and obj is not module:
            # instance attributes hang on the class but are announced while visiting __init__: parent-first still holds
            if id(parent) not in inst or inst[id(parent)][0] > inst[oid][0]:
                return f"{obj.path}: announced before its parent {parent.path}"
        if obj.is_module or obj.is_class:
            if len(members_at.get(oid, [])) != 1 or kind_members.get(oid, []) != [f"{obj.kind.value}_members"]:
                return f"{obj.path}: members-complete events {len(members_at.get(oid, []))}/{kind_members.get(oid, [])}"
            mpos = members_at[oid][0]
            for desc in walk(obj):
                if desc is obj:
                    continue
                pos = (alias_at if desc.is_alias else inst).get(id(desc), [None])[0]
                if pos is None or pos > mpos:
                    return f"{obj.path}: members-complete fired before descendant {desc.path} was announced"
                if not desc.is_alias and (desc.is_module or desc.is_class) and members_at.get(id(desc), [mpos + 1])[0] > mpos:
                    return f"{obj.path}: members-complete fired before that of its member {desc.path}"
    # on_node precedes on_instance for the same node
    first_node: dict[int, int] = {}
    for i, (ev, _oid, _obj, nid) in enumerate(events):
        if ev == "node":
            first_node.setdefault(nid, i)
        elif ev == "instance" and nid is not None and first_node.get(nid, i + 1) > i:
            return "on_instance fired before on_node for the same node"
    return None


# -- reference model -------------------------------------------------------------------------------
LABELS = {"property": {"property"}, "staticmethod": {"staticmethod"}, "classmethod": {"classmethod"},
          "abc.abstractmethod": {"abstractmethod"}, "functools.cache": {"cached"}, "functools.lru_cache": {"cached"},
          "lru_cache": {"cached"}, "cached_property": {"cached", "property"}, "functools.cached_property": {"cached", "property"},
          "dataclasses.dataclass": {"dataclass"}}
OVERLOAD = {"overload", "typing.overload"}


class RM:
    """Reference member."""

    def __init__(self, kind: str, name: str, node, scope: "RScope", **kw) -> None:  # noqa: ANN001, ANN003
        self.kind, self.name, self.node, self.scope = kind, name, node, scope
        self.lineno = kw.get("lineno")
        self.alt_lineno = kw.get("alt_lineno")
        self.endlineno = kw.get("endlineno")
        self.labels: set[str] | None = kw.get("labels")
        self.doc = kw.get("doc")          # (value, lineno, endlineno) | None
        self.runtime = kw.get("runtime", True)
        self.target = kw.get("target")
        self.ndecorators = kw.get("ndecorators", 0)
        self.inner: RScope | None = kw.get("inner")
        self.rebound = False
        self.overloads = 0
        self.setter = self.deleter = False
        self.nbases = kw.get("nbases")


class RScope:
    def __init__(self, kind: str, path: str) -> None:
        self.kind, self.path = kind, path
        self.members: dict[str, RM] = {}
        self.pending_overloads: dict[str, int] = {}
        self.imports: dict[str, str] = {}
        self.exports: list | None = None
        self.stats = {"conditional": 0, "displaced": 0}


def deco_name(d: ast.expr) -> str:
    if isinstance(d, ast.Call):
        d = d.func
    return ast.unparse(d)


def docstring_of(body: list[ast.stmt]):  # noqa: ANN201
    if body and isinstance(body[0], ast.Expr) and isinstance(body[0].value, ast.Constant) and isinstance(body[0].value.value, str):
        c = body[0].value
        return (inspect.cleandoc(c.value.rstrip()), c.lineno, c.end_lineno)
    return None


def next_string(siblings: list[ast.stmt], idx: int):  # noqa: ANN201
    if idx + 1 < len(siblings):
        nxt = siblings[idx + 1]
        if isinstance(nxt, ast.Expr) and isinstance(nxt.value, ast.Constant) and isinstance(nxt.value.value, str):
            c = nxt.value
            return (inspect.cleandoc(c.value.rstrip()), c.lineno, c.end_lineno)
    return None


def bind(scope: RScope, m: RM) -> None:
    if m.name in scope.members:
        m.rebound = True
        scope.stats["displaced"] += 1
    scope.members[m.name] = m


def ref_body(stmts: list[ast.stmt], scope: RScope, guarded: bool, parent: ast.AST, modname: str) -> None:  # noqa: C901, PLR0912, PLR0915
    for idx, st in enumerate(stmts):
        if isinstance(st, (ast.FunctionDef, ast.AsyncFunctionDef)):
            names = [deco_name(d) for d in st.decorator_list]
            labels: set[str] = set()
            for n in names:
                labels |= LABELS.get(n, set())
            if isinstance(st, ast.AsyncFunctionDef):
                labels.add("async")
            first = st.decorator_list[0].lineno if st.decorator_list else st.lineno
            if "property" in labels:
                m = RM("attribute", st.name, st, scope, lineno=st.lineno, alt_lineno=first, endlineno=st.end_lineno, labels=labels,
                       doc=docstring_of(st.body), runtime=not guarded, ndecorators=len(names))
                bind(scope, m)
                continue
            if any(n in OVERLOAD for n in names):
                scope.pending_overloads[st.name] = scope.pending_overloads.get(st.name, 0) + 1
                continue
            accessor = next((n.rsplit(".", 1)[1] for n in names if "." in n and n.rsplit(".", 1)[1] in ("setter", "deleter")
                             and n.rsplit(".", 1)[0] == st.name), None)
            cur = scope.members.get(st.name)
            if accessor and cur is not None and cur.kind == "attribute" and cur.labels is not None and "property" in cur.labels:
                if accessor == "setter":
                    cur.setter = True
                else:
                    cur.deleter = True
                continue
            m = RM("function", st.name, st, scope, lineno=first, endlineno=st.end_lineno, labels=labels, doc=docstring_of(st.body),
                   runtime=not guarded, ndecorators=len(names))
            m.overloads = scope.pending_overloads.pop(st.name, 0)
            bind(scope, m)
            if scope.kind == "class" and st.name == "__init__":
                ref_init(st.body, scope, st, guarded)
        elif isinstance(st, ast.ClassDef):
            names = [deco_name(d) for d in st.decorator_list]
            labels = set()
            for n in names:
                labels |= LABELS.get(n, set())
            first = st.decorator_list[0].lineno if st.decorator_list else st.lineno
            inner = RScope("class", f"{scope.path}.{st.name}")
            m = RM("class", st.name, st, scope, lineno=first, endlineno=st.end_lineno, labels=labels, doc=docstring_of(st.body),
                   runtime=not guarded, ndecorators=len(names), inner=inner, nbases=len(st.bases))
            bind(scope, m)
            ref_body(st.body, inner, guarded, st, modname)  # members of a class defined under TYPE_CHECKING are not runtime either
        elif isinstance(st, (ast.Assign, ast.AnnAssign)):
            targets = st.targets if isinstance(st, ast.Assign) else [st.target]
            if not all(isinstance(t, (ast.Name, ast.Attribute)) for t in targets):
                continue  # unsupported targets (tuples, subscripts): the whole statement is ignored
            names = [t.id for t in targets if isinstance(t, ast.Name)]
            doc = next_string(stmts, idx)
            for n in names:
                if n in scope.members and isinstance(parent, (ast.If, ast.ExceptHandler)):
                    scope.stats["conditional"] += 1
                    continue
                labels = set()
                if scope.kind == "module":
                    labels.add("module-attribute")
                else:
                    ann = ast.unparse(st.annotation) if isinstance(st, ast.AnnAssign) else ""
                    if ann.startswith(("ClassVar", "typing.ClassVar")):
                        labels.add("class-attribute")
                    elif st.value is not None:
                        labels |= {"class-attribute", "instance-attribute"}
                    else:
                        labels.add("instance-attribute")
                m = RM("attribute", n, st, scope, lineno=st.lineno, endlineno=st.end_lineno, labels=labels, doc=doc, runtime=not guarded)
                bind(scope, m)
                if n == "__all__" and scope.kind == "module":
                    scope.exports = all_names(st.value)
        elif isinstance(st, ast.AugAssign):
            if isinstance(st.target, ast.Name) and st.target.id == "__all__" and scope.kind == "module" and isinstance(st.op, ast.Add):
                if scope.exports is not None:
                    more = all_names(st.value)
                    if more is not None:
                        scope.exports = scope.exports + more
        elif isinstance(st, ast.Import):
            for a in st.names:
                path = a.name if a.asname else a.name.split(".", 1)[0]
                name = a.asname or path.split(".", 1)[0]
                scope.imports[name] = path
                bind(scope, RM("alias", name, st, scope, lineno=st.lineno, endlineno=st.end_lineno, target=path, runtime=not guarded))
        elif isinstance(st, ast.ImportFrom):
            for a in st.names:
                if st.level:
                    continue  # relative imports are not generated for single modules
                path = f"{st.module}.{a.name}"
                if a.name == "*":
                    name, path = path.replace(".", "/"), st.module
                else:
                    name = a.asname or a.name
                    scope.imports[name] = path
                if path != f"{scope.path}.{name}":
                    bind(scope, RM("alias", name, st, scope, lineno=st.lineno, endlineno=st.end_lineno, target=path, runtime=not guarded))
        elif isinstance(st, ast.If):
            is_guard = isinstance(parent, (ast.Module, ast.ClassDef)) and ast.unparse(st.test) in ("TYPE_CHECKING", "typing.TYPE_CHECKING")
            ref_body(st.body, scope, guarded or is_guard, st, modname)
            ref_body(st.orelse, scope, guarded, st, modname)
        elif isinstance(st, ast.Try):
            ref_body(st.body, scope, guarded, st, modname)
            for h in st.handlers:
                ref_body(h.body, scope, guarded, h, modname)
            ref_body(st.orelse, scope, guarded, st, modname)
            ref_body(st.finalbody, scope, guarded, st, modname)
        elif isinstance(st, (ast.For, ast.While)):
            ref_body(st.body, scope, guarded, st, modname)
            ref_body(st.orelse, scope, guarded, st, modname)
        elif isinstance(st, ast.With):
            ref_body(st.body, scope, guarded, st, modname)


def ref_init(stmts: list[ast.stmt], cls: RScope, parent: ast.AST, guarded: bool = False) -> None:
    """Instance attributes: `self.x = v` / `self.x: T = v` anywhere in the body of __init__."""
    for idx, st in enumerate(stmts):
        if isinstance(st, (ast.Assign, ast.AnnAssign)):
            targets = st.targets if isinstance(st, ast.Assign) else [st.target]
            if not all(isinstance(t, (ast.Name, ast.Attribute)) for t in targets):
                continue
            doc = next_string(stmts, idx)
            for t in targets:
                if isinstance(t, ast.Attribute) and isinstance(t.value, ast.Name) and t.value.id == "self":
                    n = t.attr
                    if n in cls.members and isinstance(parent, (ast.If, ast.ExceptHandler)):
                        cls.stats["conditional"] += 1
                        continue
                    bind(cls, RM("attribute", n, st, cls, lineno=st.lineno, endlineno=st.end_lineno, labels={"instance-attribute"}, doc=doc,
                             runtime=not guarded))
        elif isinstance(st, ast.If):
            ref_init(st.body, cls, st, guarded)
            ref_init(st.orelse, cls, st, guarded)


def all_names(node: ast.expr | None) -> list | None:
    if isinstance(node, (ast.List, ast.Tuple, ast.Set)):
        out = []
        for e in node.elts:
            if isinstance(e, ast.Constant):
                out.append(e.value)
            else:
                return None
        return out
    if isinstance(node, ast.BinOp) and isinstance(node.op, ast.Add):
        a, b = all_names(node.left), all_names(node.right)
        return None if a is None or b is None else a + b
    return None


# -- comparison ------------------------------------------------------------------------------------
def expected_public(name: str, gm, scope: RScope, rm: RM) -> bool:  # noqa: ANN001
    """Independent implementation of the documented decision table of `is_public`."""
    if scope.kind == "module" and scope.exports:
        return name in scope.exports
    if name.startswith("_") and not (name.startswith("__") and name.endswith("__")):
        return False
    if name in scope.imports:
        return False
    return True


def compare_scope(rec, gscope, rscope: RScope, lines: list[str], src: str) -> tuple | None:  # noqa: ANN001, C901, PLR0911, PLR0912
    rec.count("scopes_compared")
    gnames, rnames = list(gscope.members), list(rscope.members)
    if set(gnames) != set(rnames):
        return (f"member names of {rscope.path} differ", {"griffe_only": sorted(set(gnames) - set(rnames)),
                                                             "reference_only": sorted(set(rnames) - set(gnames))}, None)
    for name, rm in rscope.members.items():
        gm = gscope.members[name]
        rec.count("members_compared")
        gkind = "alias" if gm.is_alias else gm.kind.value
        if gkind != rm.kind:
            return (f"{rscope.path}.{name}: kind", gkind, rm.kind)
        if gm.parent is not gscope:
            return (f"{rscope.path}.{name}: parent is not its container", repr(gm.parent), rscope.path)
        glin, gend = (gm.alias_lineno, gm.alias_endlineno) if gm.is_alias else (gm.lineno, gm.endlineno)
        rec.count("spans_compared")
        if glin not in (rm.lineno, rm.alt_lineno) or gend != rm.endlineno:
            return (f"{rscope.path}.{name}: line span", (glin, gend), (rm.lineno, rm.endlineno))
        if rm.runtime is not None and gm.runtime != rm.runtime and not gm.is_alias or (gm.is_alias and gm.runtime != rm.runtime):
            return (f"{rscope.path}.{name}: runtime flag", gm.runtime, rm.runtime)
        if gm.is_alias:
            if gm.target_path != rm.target:
                return (f"{rscope.path}.{name}: alias target path", gm.target_path, rm.target)
            continue
        # slicing the source by the reported span returns that very definition
        rec.count("slices_reparsed")
        chunk = textwrap.dedent("\n".join(lines[glin - 1:gend]))
        try:
            parsed = ast.parse(chunk).body
        except SyntaxError as exc:
            return (f"{rscope.path}.{name}: source slice does not parse", f"{exc}", chunk[:200])
        if len(parsed) != 1 or type(parsed[0]) is not type(rm.node) or ast.dump(parsed[0]) != ast.dump(ast.parse(textwrap.dedent(
                "\n".join(lines[rm.node.lineno - 1 if glin == rm.node.lineno else glin - 1:rm.node.end_lineno]))).body[0]):
            return (f"{rscope.path}.{name}: source slice is not that definition", chunk[:200], ast.unparse(rm.node)[:200])
        if gm.source != textwrap.dedent("\n".join(lines[glin - 1:gend])):
            return (f"{rscope.path}.{name}: .source differs from the span slice", gm.source[:120], "\n".join(lines[glin - 1:gend])[:120])
        # docstring
        rec.count("docstrings_compared")
        gdoc = (gm.docstring.value, gm.docstring.lineno, gm.docstring.endlineno) if gm.docstring else None
        if not rm.rebound and gdoc != rm.doc:
            return (f"{rscope.path}.{name}: docstring (value, lineno, endlineno)", gdoc, rm.doc)
        if rm.rebound and rm.doc is not None and gdoc != rm.doc:
            return (f"{rscope.path}.{name}: docstring of the surviving definition", gdoc, rm.doc)
        # labels, decorators
        if rm.kind in ("function", "class"):
            if len(gm.decorators) != rm.ndecorators:
                return (f"{rscope.path}.{name}: number of decorators", len(gm.decorators), rm.ndecorators)
            for d, dn in zip(gm.decorators, rm.node.decorator_list):
                if (d.lineno, d.endlineno) != (dn.lineno, dn.end_lineno) or ast.dump(ast.parse(str(d.value), mode="eval").body) != ast.dump(ast.parse(ast.unparse(dn), mode="eval").body):
                    return (f"{rscope.path}.{name}: decorator", (str(d.value), d.lineno, d.endlineno), (ast.unparse(dn), dn.lineno, dn.end_lineno))
        if not rm.rebound:
            rec.count("labels_compared")
            want = set(rm.labels or set())
            if rm.setter:
                want.add("writable")
            if rm.deleter:
                want.add("deletable")
            if set(gm.labels) != want:
                return (f"{rscope.path}.{name}: labels", sorted(gm.labels), sorted(want))
        if rm.kind == "function":
            if len(gm.overloads or []) != rm.overloads:
                return (f"{rscope.path}.{name}: attached overloads", len(gm.overloads or []), rm.overloads)
        if rm.kind == "attribute" and rm.labels and "property" in rm.labels and not rm.rebound:
            if (gm.setter is not None) != rm.setter or (gm.deleter is not None) != rm.deleter:
                return (f"{rscope.path}.{name}: property setter/deleter attachment", (gm.setter is not None, gm.deleter is not None), (rm.setter, rm.deleter))
        if rm.kind == "class":
            if len(gm.bases) != rm.nbases:
                return (f"{rscope.path}.{name}: number of bases", len(gm.bases), rm.nbases)
            res = compare_scope(rec, gm, rm.inner, lines, src)
            if res:
                return res
    # visibility decision table
    for name, rm in rscope.members.items():
        gm = gscope.members[name]
        rec.count("visibility_rows_compared")
        special = name.startswith("__") and name.endswith("__")
        rows = {
            "is_special": special,
            "is_private": name.startswith("_") and not special,
            "is_class_private": bool(rscope.kind == "class" and name.startswith("__") and not name.endswith("__")),
            "is_imported": name in rscope.imports,
            "is_exported": bool(rscope.kind == "module" and rscope.exports and name in rscope.exports),
        }
        if not (rscope.kind == "module" and rscope.exports is not None and not rscope.exports):
            rows["is_public"] = expected_public(name, gm, rscope, rm)
        for pred, want in rows.items():
            got = bool(getattr(gm, pred))
            if got != want:
                return (f"{rscope.path}.{name}: {pred}", got, want)
    # imports / exports of the scope
    if dict(gscope.imports) != rscope.imports:
        return (f"imports map of {rscope.path}", dict(gscope.imports), rscope.imports)
    if rscope.kind == "module":
        fut = rscope.members.get("annotations")
        want_fut = fut is not None and fut.kind == "alias" and fut.target == "__future__.annotations"
        rec.count("future_annotations_compared")
        if bool(gscope.imports_future_annotations) != want_fut:
            return (f"{rscope.path}: imports_future_annotations", gscope.imports_future_annotations, want_fut)
        gexp = None if gscope.exports is None else [e if isinstance(e, str) else e.name for e in gscope.exports]
        if gexp != rscope.exports:
            return (f"exports of {rscope.path}", gexp, rscope.exports)
    for nm, cnt in rscope.pending_overloads.items():
        if len(gscope.overloads.get(nm, [])) != cnt:
            return (f"{rscope.path}: dangling overloads of {nm}", len(gscope.overloads.get(nm, [])), cnt)
    return None


def classify(src: str, what: str, rscope: RScope | None) -> tuple[str | None, list[str]]:
    tried = ["C01-nested-if-resets-type-guard"]
    if "runtime flag" in what:
        # predicate: the member sits in a TYPE_CHECKING block after (or inside the tail following) a nested `if`
        tree = ast.parse(src)
        name = what.split(":")[0].rsplit(".", 1)[1]
        for node in ast.walk(tree):
            if isinstance(node, ast.If) and ast.unparse(node.test) in ("TYPE_CHECKING", "typing.TYPE_CHECKING"):
                seen_nested_if = False
                for st in node.body:
                    binds = {n.id for n in ast.walk(st) if isinstance(n, ast.Name) and isinstance(n.ctx, ast.Store)} | {
                        n.name for n in ast.walk(st) if isinstance(n, (ast.FunctionDef, ast.AsyncFunctionDef, ast.ClassDef))} | {
                        (a.asname or a.name.split(".")[0]) for n in ast.walk(st) if isinstance(n, (ast.Import, ast.ImportFrom)) for a in n.names} | {
                        f"{n.module}.{a.name}".replace(".", "/") for n in ast.walk(st) if isinstance(n, ast.ImportFrom) for a in n.names if a.name == "*"}
                    if seen_nested_if and name in binds:
                        return "C01-nested-if-resets-type-guard", tried
                    if any(isinstance(n, ast.If) for n in ast.walk(st)):
                        seen_nested_if = True
    return None, tried


# -- derived views ---------------------------------------------------------------------------------
# Every public read-only view the models compute from a span, the file path, the parent chain or the member table must
# agree with CPython's own view of the same text (its line numbering, its string-statement nodes) and with the place the
# object occupies in the tree.  Nothing here reads griffe's answer as the expectation: lines come from ``src.split("\n")``,
# docstring spans and values from ``ast`` nodes, paths / owners from the walk itself, file paths from what the harness
# passed in.
KIND_OF_CLASS = {"Module": "module", "Class": "class", "Function": "function", "Attribute": "attribute"}
ALL_KINDS = ("module", "class", "function", "attribute", "alias")


def python_lines(src: str) -> list[str]:
    """The lines of a file as Python numbers them: only "\\n" ends a line; a final newline opens no further line."""
    lines = src.split("\n")
    if not lines[-1]:
        lines.pop()
    return lines


def string_statements(tree: ast.AST) -> dict[tuple[int, int], list[str]]:
    """CPython's view of every bare string statement: (first line, last line) -> values."""
    out: dict[tuple[int, int], list[str]] = {}
    for n in ast.walk(tree):
        if isinstance(n, ast.Expr) and isinstance(n.value, ast.Constant) and isinstance(n.value.value, str):
            out.setdefault((n.value.lineno, n.value.end_lineno), []).append(n.value.value)
    return out


def walk_tree(obj, chain: tuple[str, ...] = ()):  # noqa: ANN001, ANN201
    yield obj, chain
    if not obj.is_alias:
        for name, m in obj.members.items():
            yield from walk_tree(m, (*chain, name))


def expected_has_docstrings(obj, memo: dict):  # noqa: ANN001, ANN201
    """True / False / None (undetermined) from the primary fields only: own docstring, member table, imports map, exports."""
    if obj.docstring is not None:
        return True
    undetermined = False
    exports = [e if isinstance(e, str) else e.name for e in (obj.exports or [])] if obj.kind.value == "module" else []
    for name, m in obj.members.items():
        imported = name in obj.imports
        if m.is_alias:
            # an imported alias counts only when public, i.e. listed in a non-empty __all__ (then its target decides: not judged)
            if not imported or name in exports:
                undetermined = True
            continue
        if imported:
            public = (name in exports) if exports else not (name.startswith("_") and not (name.startswith("__") and name.endswith("__")))
            if exports == [] and obj.kind.value == "module" and obj.exports is not None:
                undetermined = True  # empty __all__: ambiguous corner (DESIGN C01)
                continue
            if exports:
                if not public:
                    continue
            else:
                continue  # imported and no __all__: never public
        sub = memo[id(m)]
        if sub:
            return True
        if sub is None:
            undetermined = True
    return None if undetermined else False


def lines_and_docstring_views(rec, obj, root, where: str, chain: tuple, tag: str, pylines: list[str], strs: dict, stored: bool,  # noqa: ANN001, C901, PLR0911, PLR0912, PLR0913
                              collection, has_docs: dict, attempt) -> tuple | None:  # noqa: ANN001
    kind = KIND_OF_CLASS.get(type(obj).__name__)
    # -- lines of the object
    if collection is not None and obj.lines_collection is not collection:
        return (tag + f"{where}: lines_collection is not the collection given to visit()", repr(obj.lines_collection), repr(collection))
    if obj is root:
        want_lines = pylines
    elif obj.lineno is None or obj.endlineno is None:
        want_lines = []
    else:
        want_lines = pylines[obj.lineno - 1:obj.endlineno]
    if not stored:
        want_lines = []
    got_lines, err = attempt(f"{where}: lines", lambda: obj.lines)  # noqa: B023
    if err or got_lines != want_lines:
        return err or (tag + f"{where}: .lines is not the text of lines {obj.lineno}-{obj.endlineno} of the file" + (
            "" if stored else " (source not stored: expected empty)"), got_lines[:6], want_lines[:6])
    got_src, err = attempt(f"{where}: source", lambda: obj.source)  # noqa: B023
    if err or got_src != textwrap.dedent("\n".join(want_lines)):
        return err or (tag + f"{where}: .source is not the dedented text of lines {obj.lineno}-{obj.endlineno}",
                       got_src[:300], textwrap.dedent("\n".join(want_lines))[:300])
    if stored and obj is not root and obj.lineno is not None and obj.endlineno is not None:
        got, err = attempt(f"{where}: lines_collection[filepath]", lambda: obj.lines_collection[obj.filepath][obj.lineno - 1:obj.endlineno])  # noqa: B023
        if err or got != want_lines:
            return err or (tag + f"{where}: lines_collection[filepath] sliced by the span", got[:6], want_lines[:6])
    rec.count("object_lines_views_compared" if stored else "unstored_object_views_compared")
    # -- docstring views
    doc = obj.docstring
    if bool(obj.has_docstring) != (doc is not None):
        return (tag + f"{where}: has_docstring", obj.has_docstring, doc is not None)
    want_has = has_docs[id(obj)]
    if want_has is not None:
        got, err = attempt(f"{where}: has_docstrings", lambda: obj.has_docstrings)  # noqa: B023
        if err or bool(got) != want_has:
            return err or (tag + f"{where}: has_docstrings", got, want_has)
        rec.count("has_docstrings_compared")
    if doc is None:
        return None
    owner = doc.parent
    if owner is None or owner.docstring is not doc or owner.parent is not obj.parent:
        return (tag + f"{where}: docstring.parent is neither the object nor a name bound by the same statement", repr(owner), repr(obj))
    if doc.lineno is None or doc.endlineno is None:
        return (tag + f"{where}: docstring without line numbers", (doc.lineno, doc.endlineno), "the span of a string statement")
    values = strs.get((doc.lineno, doc.endlineno))
    if not values:
        return (tag + f"{where}: the docstring span is not that of a string statement of the source", (doc.lineno, doc.endlineno), None)
    cleaned = [inspect.cleandoc(v.rstrip()) for v in values]
    if doc.value not in cleaned:
        return (tag + f"{where}: docstring value is not the string statement at its span", doc.value[:200], cleaned[0][:200])
    if doc.lines != doc.value.split("\n") or doc.lines != cleaned[cleaned.index(doc.value)].split("\n"):
        return (tag + f"{where}: Docstring.lines", doc.lines[:6], doc.value.split("\n")[:6])
    attr_doc = kind == "attribute" and not (obj.lineno is not None and obj.lineno <= doc.lineno and doc.endlineno <= (obj.endlineno or 0))
    if stored:
        want_text = "\n".join(pylines[doc.lineno - 1:doc.endlineno])
        got, err = attempt(f"{where}: Docstring.source", lambda: doc.source)  # noqa: B023
        if err or got != want_text:
            return err or (tag + f"{where}: Docstring.source is not the text of lines {doc.lineno}-{doc.endlineno} of the file",
                           got[:300], want_text[:300])
        rec.count("docstring_source_views_compared")
        if attr_doc:
            rec.count("attribute_docstring_source_views_compared")
            if len(chain) > 1:
                rec.count("nested_attribute_docstring_source_views")
            if doc.endlineno < (obj.lineno or 0):
                rec.count("forwarded_docstring_source_views")
    else:
        # nothing stored: whether that is an error or an empty text is not said anywhere (Object.lines is empty,
        # Docstring.source raises) - but it can never be some text
        try:
            got = doc.source
        except (KeyError, ValueError):
            got = ""
        if got != "":
            return (tag + f"{where}: Docstring.source returns text although no source is stored", got[:300], "")
        rec.count("unstored_docstring_views_compared")
    return None


def sweep_views(rec, root, src: str, tree: ast.AST, *, stored: bool, how: str, filepath, rel_pkg: str,  # noqa: ANN001, C901, PLR0911, PLR0912, PLR0915
                collection=None, init_module: bool = False, pylines: list[str] | None = None, light: bool = False) -> tuple | None:
    """Compare every derived view of every object under ``root`` with Python's view of ``src``; return (what, observed, expected)."""
    pylines = python_lines(src) if pylines is None else pylines
    strs = string_statements(tree)
    cwd = Path.cwd()
    want_rel = filepath.relative_to(cwd) if filepath.is_relative_to(cwd) else filepath
    tag = f"[{how}] "

    def attempt(what: str, fn):  # noqa: ANN001, ANN202
        try:
            return fn(), None
        except Exception as exc:  # noqa: BLE001
            return None, (tag + what + " raised", f"{type(exc).__name__}: {exc}"[:300], "a value")

    # post-order tables (one pass): documented size of every object, expected has_docstrings
    size: dict[int, int] = {}
    has_docs: dict[int, bool | None] = {}

    def measure(o) -> int:  # noqa: ANN001
        # documented: "the number of members in this object, recursively" and "the length of an alias is always 1"
        if o.is_alias:
            return 1
        n = sum(1 + measure(m) for m in o.members.values())
        size[id(o)] = n
        has_docs[id(o)] = expected_has_docstrings(o, has_docs)
        return n

    measure(root)
    for index, (obj, chain) in enumerate(walk_tree(root)):
        where = ".".join((root.name, *chain))
        rec.count("derived_view_objects")
        if light:  # the same tree shape as the full sweep of the stored variant: only the views that read the source
            problem = None if obj.is_alias else lines_and_docstring_views(rec, obj, root, where, chain, tag, pylines, strs, stored,
                                                                          collection, has_docs, attempt)
            if problem:
                return problem
            continue
        # -- place in the tree: paths, item access by dotted / tuple key, owner module / package / file
        got, err = attempt(f"{where}: path", lambda: obj.path)  # noqa: B023
        if err or got != where:
            return err or (tag + f"{where}: path", got, where)
        if chain:
            for key in (chain, ".".join(chain)):
                for api in ("__getitem__", "get_member"):
                    got, err = attempt(f"{where}: {api}({key!r}) from the module", lambda: getattr(root, api)(key))  # noqa: B023
                    if err or got is not obj:
                        return err or (tag + f"{where}: {api}({key!r}) from the module is not the member itself", repr(got), repr(obj))
            rec.count("item_access_compared")
            direct = obj.parent
            if direct is None or direct.members.get(chain[-1]) is not obj:
                return (tag + f"{where}: parent is not its container", repr(direct), ".".join((root.name, *chain[:-1])))
        if obj.is_alias:
            continue  # (the views of an alias are those of its target: alias resolution is not this property's subject)
        kind = KIND_OF_CLASS.get(type(obj).__name__)
        preds = {k: bool(getattr(obj, f"is_{k}")) for k in ("module", "class", "function", "attribute")}
        preds["alias"] = bool(obj.is_alias)
        want_preds = {k: k == kind for k in preds}
        is_kind = {k: obj.is_kind(k) for k in ALL_KINDS}
        if preds != want_preds or obj.kind.value != kind or is_kind != {k: k == kind for k in ALL_KINDS} or not obj.is_kind(
                {kind, "alias"}) or obj.is_kind({k for k in ALL_KINDS if k != kind}):
            return (tag + f"{where}: kind predicates (is_*, is_kind)", {"is": preds, "is_kind": is_kind, "kind": obj.kind.value}, kind)
        rec.count("kind_predicates_compared")
        for view, want in (("module", root), ("package", root)):
            got, err = attempt(f"{where}: {view}", lambda: getattr(obj, view))  # noqa: B023
            if err or got is not want:
                return err or (tag + f"{where}: .{view} is not the module it was extracted from", repr(got), repr(want))
        for view, want in (("filepath", filepath), ("relative_filepath", want_rel), ("relative_package_filepath", Path(rel_pkg)))[
                :3 if index % 5 == 0 else 1]:
            got, err = attempt(f"{where}: {view}", lambda: getattr(obj, view))  # noqa: B023
            if err or got != want:
                return err or (tag + f"{where}: .{view}", str(got), str(want))
        flags = {f: bool(getattr(obj, f)) for f in ("is_init_module", "is_package", "is_subpackage", "is_namespace_package",
                                                     "is_namespace_subpackage")}
        want_flags = dict.fromkeys(flags, False)
        if obj is root:
            want_flags["is_init_module"] = want_flags["is_package"] = init_module
        if flags != want_flags:
            return (tag + f"{where}: module-shape predicates", flags, want_flags)
        rec.count("owner_views_compared")
        # -- size / truthiness / label and member filters
        nmembers = size[id(obj)]
        if len(obj) != nmembers or not obj:
            return (tag + f"{where}: len() / truthiness", (len(obj), bool(obj)), (nmembers, True))
        if not obj.has_labels(*obj.labels) or obj.has_labels(*obj.labels, "no-such-label") or (
                obj.labels and not all(obj.has_labels(lb) for lb in obj.labels)):
            return (tag + f"{where}: has_labels", sorted(obj.labels), "all own labels, not a foreign one")
        if list(obj.filter_members(lambda m: True)) != list(obj.members) or obj.filter_members(lambda m: False) or list(  # noqa: ARG005
                obj.filter_members(lambda m: m.is_alias, lambda m: True)) != [n for n, m in obj.members.items() if m.is_alias]:  # noqa: ARG005
            return (tag + f"{where}: filter_members", None, list(obj.members))
        problem = lines_and_docstring_views(rec, obj, root, where, chain, tag, pylines, strs, stored, collection, has_docs, attempt)
        if problem:
            return problem
    return None


def judge_module(rec, src: str, nontrivial_hint: bool | None = None, model: bool = True) -> None:  # noqa: ANN001
    import griffe

    case = {"source": src} if model else {"source": src, "mode": "totality"}
    tree = ast.parse(src)
    nontrivial = bool(nontrivial_hint)
    try:
        with case_watchdog(60):
            trace = make_recorder()
            mine = griffe.LinesCollection()  # the caller's own collection: every object must read its lines from this very one
            mod = visit_source(src, "m", extensions=griffe.load_extensions(trace), lines=mine)
            rec.count("modules_visited")
            rec.count("events_recorded", len(trace.events))
            problem = check_trace(mod, trace.events)
            rec.count("traces_checked")
            if problem:
                rec.fail(case, "event trace: " + problem, nontrivial=nontrivial)
                return
            # every derived view of every object (lines, source, docstring source, paths, item access, owner, predicates)
            vpath = Path("/nonexistent-vf/m.py")
            problem = sweep_views(rec, mod, src, tree, stored=True, how="visit() with the caller's LinesCollection", filepath=vpath,
                                  rel_pkg="m.py", collection=mine,
                                  pylines=src.split("\n")[:-1] if src.endswith("\n") else src.split("\n"))  # what visit_source stored
            if not problem and len(src) % 2 == 0:
                bare = griffe.visit("m", filepath=vpath, code=src)
                rec.count("modules_visited_without_stored_source")
                problem = sweep_views(rec, bare, src, tree, stored=False, how="visit() without stored source", filepath=vpath, rel_pkg="m.py",
                                      light=True)
            if problem:
                rec.fail(case, "derived view: " + problem[0], observed=problem[1], expected=problem[2], nontrivial=nontrivial)
                return
            # the same module through the real loader (built-in extensions run on_package_loaded there): never raising
            if len(src) % 3 == 0 or not model:
                from vf.core.util import load_files

                lmod, _ = load_files({"m/__init__.py": src}, "m")
                rec.count("modules_loaded_through_loader")
                lpath = lmod.filepath
                if not (isinstance(lpath, Path) and lpath.parts[-2:] == ("m", "__init__.py")):
                    rec.fail(case, "file path of a package loaded from m/__init__.py", observed=str(lpath), expected=".../m/__init__.py",
                             nontrivial=nontrivial)
                    return
                problem = sweep_views(rec, lmod, src, tree, stored=True, how="load(store_source=True)", filepath=lpath,
                                      rel_pkg="m/__init__.py", init_module=True)
                if not problem and len(src) % 2 == 0:
                    umod, _ = load_files({"m/__init__.py": src}, "m", store_source=False)
                    rec.count("modules_loaded_without_stored_source")
                    problem = sweep_views(rec, umod, src, tree, stored=False, how="load(store_source=False)", filepath=umod.filepath,
                                          rel_pkg="m/__init__.py", init_module=True, light=True)
                if problem:
                    rec.fail(case, "derived view: " + problem[0], observed=problem[1], expected=problem[2], nontrivial=nontrivial)
                    return
                if set(lmod.members) != set(mod.members):
                    rec.fail(case, "member names differ between visit() and a load() of the same source",
                             observed=sorted(set(lmod.members) ^ set(mod.members)), nontrivial=nontrivial)
                    return
                # slicing the source by the reported span, the way a user does it (`obj.source` reads the loader's lines
                # collection): Python's lines end at "\n" only (the file is read with universal newlines), whatever other
                # characters str.splitlines() treats as boundaries (form feed, U+2028, ...) the text holds
                pylines = src.split("\n")
                todo = list(lmod.members.values())
                while todo:
                    o = todo.pop()
                    if o.is_alias or o.lineno is None or o.endlineno is None:
                        continue
                    rec.count("loader_sources_compared")
                    want = pylines[o.lineno - 1:o.endlineno]
                    if o.lines != want or o.source != textwrap.dedent("\n".join(want)):
                        rec.fail(case, f"{o.path}: obj.lines / obj.source is not the text of lines {o.lineno}-{o.endlineno} of the file",
                                 observed=o.source[:300], expected="\n".join(want)[:300], nontrivial=nontrivial)
                        return
                    if o.is_class or o.is_module:
                        todo.extend(o.members.values())
            if not model:
                mod.as_json()
                rec.ok(case, nontrivial=nontrivial, tags=("totality",))
                return
            rscope = RScope("module", "m")
            ref_body(tree.body, rscope, False, tree, "m")
            stats = {"conditional": 0, "displaced": 0, "scopes": 0}

            def collect(sc: RScope) -> None:
                stats["scopes"] += 1
                stats["conditional"] += sc.stats["conditional"]
                stats["displaced"] += sc.stats["displaced"]
                for m in sc.members.values():
                    if m.inner:
                        collect(m.inner)

            collect(rscope)
            rec.count("conditional_reassignments_seen", stats["conditional"])
            rec.count("displaced_duplicates_seen", stats["displaced"])
            nontrivial = stats["scopes"] >= 2 and stats["displaced"] >= 1 and any(
                isinstance(n, (ast.If, ast.Try, ast.For, ast.While, ast.With)) for n in ast.walk(tree))
            mdoc = docstring_of(tree.body)
            gdoc = (mod.docstring.value, mod.docstring.lineno, mod.docstring.endlineno) if mod.docstring else None
            res = ("module docstring", gdoc, mdoc) if gdoc != mdoc else compare_scope(rec, mod, rscope, src.split("\n"), src)
    except Exception as exc:  # noqa: BLE001
        rec.fail_exc(case, f"{type(exc).__name__} while visiting a valid module", exc, nontrivial=nontrivial)
        return
    if res:
        fid, tried = classify(src, res[0], rscope)
        rec.fail(case, res[0], observed=res[1], expected=res[2], finding=fid, tried=tried, nontrivial=nontrivial)
    else:
        rec.ok(case, nontrivial=nontrivial)


# -- shards ----------------------------------------------------------------------------------------
def stdlib_files() -> list[str]:
    root = sysconfig.get_paths()["stdlib"]
    out = []
    for dirpath, dirnames, filenames in os.walk(root):
        dirnames[:] = sorted(d for d in dirnames if d not in ("site-packages", "__pycache__"))
        for fn in sorted(filenames):
            if fn.endswith(".py"):
                out.append(os.path.join(dirpath, fn))
    return out


def shards(tier: str, seed: int) -> list[dict]:
    n = 150 if tier == "quick" else 2500
    nfiles = 70 if tier == "quick" else 10**6
    out = [{"kind": "model", "count": n} for _ in range(12)]
    out += [{"kind": "stdlib", "part": p, "parts": 4, "max": nfiles} for p in range(4)]
    out += [{"kind": "hostile", "count": 120 if tier == "quick" else 2500} for _ in range(2)]
    out += [{"kind": "exprs", "count": 250 if tier == "quick" else 6000} for _ in range(2)]
    return out


def run_shard(spec: dict, rec) -> None:  # noqa: ANN001
    rng = random.Random(spec["seed"])
    if spec["kind"] == "model":
        for _ in range(spec["count"]):
            src = Gen(rng, dup_prob=rng.choice([0.15, 0.3, 0.5])).module()
            try:
                compile(src, "<c01>", "exec")
            except SyntaxError as exc:
                rec.inconclusive({"source": src}, f"generator produced invalid Python: {exc}")
                continue
            judge_module(rec, src)
    elif spec["kind"] == "hostile":
        for _ in range(spec["count"]):
            src = Gen(rng, dup_prob=0.5, hostile=True).module()
            try:
                compile(src, "<c01>", "exec")
            except SyntaxError:
                continue
            judge_module(rec, src, model=False)
            rec.count("totality_files_visited")
    elif spec["kind"] == "exprs":
        from vf.gen.exprs import ExprGen

        for _ in range(spec["count"]):
            g = ExprGen(rng, clean=False)
            parts = ["import typing\nfrom typing import TYPE_CHECKING\n"]
            for i in range(rng.randint(2, 6)):
                try:
                    e = ast.unparse(g.top(rng.randint(1, 3)))
                except Exception:  # noqa: BLE001
                    continue
                form = rng.randrange(7)  # (an arbitrary expression assigned to __all__ is not generated: what it would export is undefined)
                parts.append([f"@{e}\ndef f{i}(): ...\n", f"@{e}\nclass D{i}: ...\n", f"class B{i}({e}): ...\n", f"v{i} = {e}\n",
                              f"a{i}: {e} = 1\n", f"def g{i}(p: {e} = {e}) -> {e}: ...\n",
                              f"class K{i}:\n    c: {e} = {e}\n    @{e}\n    def m(self, q={e}): ...\n",
                              f"__all__ = {e}\n"][form])
            src = "".join(parts)
            try:
                compile(src, "<c01e>", "exec")
            except (SyntaxError, ValueError, RecursionError):
                # keep the statements that compile on their own
                kept = [parts[0]]
                for p in parts[1:]:
                    try:
                        compile(p, "<c01e>", "exec")
                        kept.append(p)
                    except (SyntaxError, ValueError, RecursionError):
                        pass
                src = "".join(kept)
            judge_module(rec, src, model=False)
            rec.count("totality_files_visited")
            rec.count("expression_hostile_modules")
    else:
        files = stdlib_files()
        mine = [f for i, f in enumerate(files) if i % spec["parts"] == spec["part"]]
        rng.shuffle(mine)
        for path in mine[: spec["max"]]:
            try:
                with open(path, encoding="utf8") as fh:
                    src = fh.read()
                compile(src, path, "exec", dont_inherit=True)
            except (SyntaxError, UnicodeDecodeError, ValueError):
                rec.skip("not-valid-python-for-this-interpreter")
                continue
            rec.count("totality_files_visited")
            rec.add_to_set("ast_node_classes_in_corpus", "")
            judge_module(rec, src, model=False)


def run_replay(inp: dict, rec) -> None:  # noqa: ANN001
    judge_module(rec, inp["source"], model=inp.get("mode") != "totality")


def run_pinned(findings: list[dict], rec) -> dict:  # noqa: ANN001
    from vf.core.rec import Recorder, pinned_result

    out = {}
    for f in findings:
        sub = Recorder(PROP, {})
        judge_module(sub, f["witness"]["source"], model=f["witness"].get("mode") != "totality")
        out[f["id"]] = pinned_result(sub, f)
    return out
