"""C09 — Full JSON dumps conform to the published schema.

Workload: the trees of C08 that come from files on disk — generated rich packages (static flavour: every expression class
in every slot; importable flavour: loaded by the visitor and by the inspector), namespace packages over two search paths,
a slice of the standard library, Griffe's own packages — with and without alias resolution, and with the docstring parser
off / google / numpy / sphinx (the ``parsed`` member of a docstring is part of the full dump and of the schema).

Oracle: ``jsonschema.Draft7Validator(docs/schema.json).iter_errors(json.loads(pkg.as_json(full=True)))``.  To name the
exact place of a mismatch every object of the dump is additionally validated on its own (members emptied): JSON pointer in
the dump + path in the schema are reported.  ``D_clean`` = statically loaded regular packages with the parser off: any
error there is a VIOLATION; elsewhere an error must match a listed mechanism predicate.
"""
from __future__ import annotations

import json
import os
import random

from vf.checks import c08
from vf.core.util import case_watchdog
from vf.gen import rich_modules

PROP = "C09"
LEVEL = "exploration"
ANCHORS = ["encoders.py", "docstrings/models.py"]
RULE = ("documents = full dumps of: generated rich packages (see C08; static flavour by the visitor, importable flavour by "
        "visitor and inspector), namespace packages over two search paths, stdlib modules/packages, griffe/_griffe; x aliases "
        "{unresolved, resolved} x docstring parser {none, google, numpy, sphinx}. distinct = digest of (files, package, "
        "options); non-trivial = the dump has >=3 object kinds, >=1 alias and >=3 expression classes")
LEVEL_TEXT = ("Every document is validated as a whole with jsonschema (Draft 7) against the schema file of the checked tree, "
              "and object by object to locate mismatches; the evidence lists which schema branches the documents exercised "
              "(object kinds, optional keys present and absent, value shapes of every annotation slot, docstring section "
              "kinds, expression classes).")
LEVEL_NOTE = ("trusted: the jsonschema package (Draft7Validator); per-object validation (members emptied) is equivalent to "
              "whole-document validation because `members` is the only recursive position of the schema — both are run and "
              "a disagreement makes the case inconclusive")
TECHNIQUE = "runtime monitoring: schema-validation oracle (jsonschema) over really produced dumps, with schema-branch coverage evidence"
REQUIRED_COUNTERS = ["documents_validated", "objects_validated", "static_documents", "dynamic_documents", "resolved_documents",
                     "parsed_docstring_documents", "namespace_documents", "stdlib_documents", "own_package_documents",
                     "clean_domain_documents_valid"]
EXHAUSTIVE = {"quick": False, "thorough": False}
ASSUMPTIONS = ["a full dump that cannot be produced at all (as_json raises) is C08's business and is skipped here, counted",
               "packages are dumped from a working directory above their search paths"]
SHARD_TIMEOUT = {"quick": 900, "thorough": 7200}

ID_INSPECTED_LINENO = "C09-inspected-lineno-null-or-missing"
ID_NAMESPACE = "C09-namespace-filepath-list"
ID_SECTION_KIND = "C09-schema-lacks-docstring-section-kinds"
ID_SECTION_VALUE = "C09-schema-section-value-object"
ALL_IDS = [ID_INSPECTED_LINENO, ID_NAMESPACE, ID_SECTION_KIND, ID_SECTION_VALUE]
PARSERS = [None, None, "google", "numpy", "sphinx"]
_SCHEMA = None


def validator():  # noqa: ANN201
    global _SCHEMA
    if _SCHEMA is None:
        import jsonschema

        path = os.path.join(os.path.realpath(os.environ.get("VERIF_REPO", "/repo")), "docs", "schema.json")
        with open(path) as fh:
            schema = json.load(fh)
        jsonschema.Draft7Validator.check_schema(schema)
        _SCHEMA = jsonschema.Draft7Validator(schema)
    return _SCHEMA


# -- locating errors --------------------------------------------------------------------------------------------------
def pointer(parts) -> str:  # noqa: ANN001
    return "".join("/" + str(p).replace("~", "~0").replace("/", "~1") for p in parts)


def leaf_errors(err, instance):  # noqa: ANN001, ANN201
    """Descend through oneOf errors along the branch the instance is meant for; yield the errors that say something."""
    if err.validator == "oneOf" and err.context:
        inst = err.instance
        if isinstance(inst, dict) and "kind" in inst and "name" in inst:
            want = 0 if inst.get("kind") == "alias" else 1
        elif inst is None:
            want = 0
        elif isinstance(inst, str):
            want = 1
        else:
            want = 2
        picked = [e for e in err.context if e.relative_schema_path and e.relative_schema_path[0] == want]
        if not picked:
            yield err
            return
        for sub in picked:
            yield from leaf_errors(sub, instance)
    else:
        yield err


def objects(doc: dict, path: tuple = ()):  # noqa: ANN201
    """Every Griffe object of a dump with its JSON pointer parts."""
    yield path, doc
    members = doc.get("members")
    if isinstance(members, dict):
        for name, m in members.items():
            if isinstance(m, dict):
                yield from objects(m, (*path, "members", name))
    elif isinstance(members, list):
        for i, m in enumerate(members):
            if isinstance(m, dict):
                yield from objects(m, (*path, "members", i))


def shape(v) -> str:  # noqa: ANN001
    if v is None:
        return "null"
    if isinstance(v, str):
        return "string"
    if isinstance(v, dict):
        return "expression:" + str(v.get("cls")) if "cls" in v else "object"
    if isinstance(v, list):
        return "array"
    return type(v).__name__


def record_branches(rec, obj: dict) -> None:  # noqa: ANN001, C901
    """Which branches / optional keys of the schema this object exercises."""
    kind = str(obj.get("kind"))
    add = lambda item: rec.add_to_set("schema_branches", item)  # noqa: E731
    add(f"kind={kind}")
    optional = ["lineno", "endlineno"] if kind == "alias" else ["lineno", "endlineno", "docstring"]
    if kind == "attribute":
        optional += ["value", "annotation"]
    for key in optional:
        add(f"{kind}.{key}:" + ("present" if key in obj else "absent"))
    if kind != "alias":
        add(f"{kind}.labels:" + ("non-empty" if obj.get("labels") else "empty"))
        add(f"{kind}.members:" + ("non-empty" if obj.get("members") else "empty"))
        add(f"{kind}.filepath:" + shape(obj.get("filepath")))
    ds = obj.get("docstring")
    if isinstance(ds, dict):
        add("docstring.lineno:" + shape(ds.get("lineno")))
        add("docstring.endlineno:" + shape(ds.get("endlineno")))
        add("docstring.parsed:" + ("present" if "parsed" in ds else "absent"))
        for sec in ds.get("parsed") or []:
            if isinstance(sec, dict):
                add(f"section.kind={sec.get('kind')}")
                add("section.value:" + shape(sec.get("value")))
                add("section.title:" + ("present" if "title" in sec else "absent"))
    if kind == "class":
        add("class.bases:" + ("non-empty" if obj.get("bases") else "empty"))
        for b in obj.get("bases") or []:
            add("base:" + shape(b).split(":")[0])
    if kind in ("class", "function"):
        add(f"{kind}.decorators:" + ("non-empty" if obj.get("decorators") else "empty"))
        for d in obj.get("decorators") or []:
            add("decorator.value:" + shape(d.get("value")).split(":")[0])
            add("decorator.lineno:" + shape(d.get("lineno")))
            add("decorator.endlineno:" + shape(d.get("endlineno")))
    if kind == "function":
        add("function.returns:" + shape(obj.get("returns")).split(":")[0])
        add("function.parameters:" + ("non-empty" if obj.get("parameters") else "empty"))
        for p in obj.get("parameters") or []:
            add(f"parameter.kind={p.get('kind')}")
            add("parameter.annotation:" + shape(p.get("annotation")).split(":")[0])
            add("parameter.default:" + shape(p.get("default")).split(":")[0])
            add("parameter.docstring:" + ("present" if "docstring" in p else "absent"))
    if kind == "attribute":
        for key in ("value", "annotation"):
            if key in obj:
                add(f"attribute.{key}:" + shape(obj[key]).split(":")[0])


def classify(case: dict, obj: dict, err) -> str | None:  # noqa: ANN001
    """Mechanism predicate over (load options, offending object, leaf error)."""
    rel = list(err.absolute_path)      # relative to the (shallow) object that was validated
    inst = err.instance
    if err.validator == "type" and rel[:1] == ["filepath"] and isinstance(inst, list) and obj.get("kind") == "module":
        return ID_NAMESPACE
    if case.get("agent") == "dynamic":
        if err.validator == "type" and rel == ["docstring", "lineno"] and inst is None:
            return ID_INSPECTED_LINENO
        if err.validator == "required" and obj.get("kind") == "alias" and "lineno" not in obj and "'lineno' is a required property" in err.message:
            return ID_INSPECTED_LINENO
    if len(rel) == 4 and rel[0] == "docstring" and rel[1] == "parsed":
        if rel[3] == "kind" and err.validator == "enum" and inst in ("functions", "classes", "modules"):
            return ID_SECTION_KIND
        if rel[3] == "value" and err.validator == "type" and isinstance(inst, dict):
            return ID_SECTION_VALUE
    return None


def judge(rec, case: dict, mod, tags: tuple = ()) -> None:  # noqa: ANN001, C901, PLR0912
    try:
        text = mod.as_json(full=True)
    except Exception as exc:  # noqa: BLE001
        rec.skip(f"full dump could not be produced ({type(exc).__name__}): C08's business")
        rec.count("full_dump_failures")
        return
    doc = json.loads(text)
    stats = c08.dump_stats(doc)
    nontrivial = len(stats["kinds"]) >= 3 and stats["aliases"] >= 1 and len(stats["classes"]) >= 3
    for k in stats["classes"]:
        rec.add_to_set("expression_classes_validated", k)
    v = validator()
    whole_first = next(iter(v.iter_errors(doc)), None)
    rec.count("documents_validated")
    problems: list[c08.Problem] = []
    n_obj = 0
    for path, obj in objects(doc):
        n_obj += 1
        record_branches(rec, obj)
        shallow = {**obj, "members": {}} if "members" in obj else obj
        for err in v.iter_errors(shallow):
            for leaf in leaf_errors(err, shallow):
                ptr = pointer((*path, *leaf.absolute_path))
                problems.append(c08.Problem(
                    f"schema mismatch at {ptr}: {leaf.message[:160]}",
                    {"pointer": ptr, "instance": json.dumps(leaf.instance, default=str)[:200], "object_path": obj.get("path"),
                     "object_kind": obj.get("kind")},
                    {"schema_path": pointer(leaf.absolute_schema_path), "validator": leaf.validator,
                     "validator_value": json.dumps(leaf.validator_value, default=str)[:200]},
                    classify(case, obj, leaf)))
                if len(problems) > 400:
                    break
    rec.count("objects_validated", n_obj)
    rec.maximum("objects_in_one_document", n_obj)
    if (whole_first is None) != (not problems):
        if whole_first is not None:
            import jsonschema

            best = jsonschema.exceptions.best_match(v.iter_errors(doc))
            problems.append(c08.Problem(f"whole-document validation fails at {pointer(best.absolute_path)}: {best.message[:160]}",
                                        {"pointer": pointer(best.absolute_path)}, {"schema_path": pointer(best.absolute_schema_path)}))
        else:
            rec.inconclusive(case, "per-object validation reports errors the whole-document validation does not")
            return
    clean = case.get("agent") == "static" and not case.get("parser") and case.get("source") != "namespace"
    if not problems and clean:
        rec.count("clean_domain_documents_valid")
    _report(rec, case, problems, nontrivial, tags)


def _report(rec, case: dict, problems: list, nontrivial: bool, tags: tuple) -> None:  # noqa: ANN001
    if not problems:
        rec.ok(case, nontrivial=nontrivial, tags=tags)
        return
    unexplained = [p for p in problems if p.finding is None]
    pick = unexplained[0] if unexplained else problems[0]
    for p in problems:
        if p.finding:
            rec.count("explained_by:" + p.finding)
    rec.fail(case, pick.what, observed=pick.observed, expected=pick.expected, finding=pick.finding, nontrivial=nontrivial, tags=tags,
             tried=ALL_IDS)
    if not unexplained:
        from vf.core.rec import jsonable, known_findings

        for fid in sorted({p.finding for p in problems if p.finding != pick.finding}):
            p = next(q for q in problems if q.finding == fid)
            entry = known_findings().get(fid)
            if entry is not None and entry.get("property") == PROP and entry.get("status") == "known":
                k = rec.known.setdefault(fid, {"count": 0, "first": None})
                k["count"] += 1
                if k["first"] is None:
                    k["first"] = {"input": jsonable(case), "what": p.what, "observed": jsonable(p.observed), "expected": jsonable(p.expected)}
            else:
                rec.fail({**case, "also": fid}, p.what, observed=p.observed, expected=p.expected, finding=fid, nontrivial=False,
                         tags=("secondary",), tried=ALL_IDS)


def run_case(rec, case: dict) -> None:  # noqa: ANN001
    tags = (f"agent:{case.get('agent', 'static')}", "resolved" if case.get("resolve") else "unresolved", f"source:{case.get('source', '?')}",
            f"parser:{case.get('parser')}")
    try:
        with case_watchdog(300), c08.materialised(case) as roots:
            try:
                mod, _loader = c08.load_tree(case, roots)
            except Exception as exc:  # noqa: BLE001
                rec.skip(f"loader refused the tree ({type(exc).__name__})")
                rec.count("load_failures:" + case.get("source", "?") + ":" + case.get("agent", "static"))
                return
            rec.count({"static": "static_documents", "dynamic": "dynamic_documents"}[case.get("agent", "static")])
            if case.get("resolve"):
                rec.count("resolved_documents")
            if case.get("parser"):
                rec.count("parsed_docstring_documents")
            src = case.get("source")
            if src in ("namespace", "stdlib", "own"):
                rec.count({"namespace": "namespace_documents", "stdlib": "stdlib_documents", "own": "own_package_documents"}[src])
            judge(rec, case, mod, tags)
    except Exception as exc:  # noqa: BLE001
        rec.fail_exc(case, f"{type(exc).__name__} escaped the harness around one document", exc)


# -- workload ---------------------------------------------------------------------------------------------------------
def shards(tier: str, seed: int) -> list[dict]:
    quick = tier == "quick"
    out = []
    for i in range(16):
        out.append({
            "static_pkgs": 14 if quick else 450, "importable_pkgs": 5 if quick else 160, "namespaces": 2 if quick else 40,
            "stdlib": [c08.STDLIB[(2 * i + k) % len(c08.STDLIB)] for k in range(2)] if quick else
                      [c08.STDLIB[(3 * i + k) % len(c08.STDLIB)] for k in range(3)],
            "own": (["griffe"] if i == 0 else ["_griffe"] if i == 1 else []), "depth": 2 if quick else 3,
            "structural_pkgs": 12 if quick else 300,
        })
    return out


def generated_cases(rng: random.Random, spec: dict, uid: str):  # noqa: ANN201
    depth = spec["depth"]
    for i in range(spec["static_pkgs"]):
        name = f"ws{uid}_{i}"
        files, _ = rich_modules.gen_package(rng, name, flavour="static", depth=rng.randint(1, depth))
        resolve = rng.random() < 0.5
        yield {"kind": "files", "source": "static-rich", "roots": [files], "package": name, "agent": "static", "resolve": resolve,
               "implicit": rng.random() < 0.5, "parser": rng.choice(PARSERS)}
        if rng.random() < 0.3:
            yield {"kind": "files", "source": "static-rich", "roots": [files], "package": name, "agent": "static", "resolve": not resolve,
                   "implicit": rng.random() < 0.5, "parser": None}
    # structural modules of the C01 generator: duplicates, re-assigned documented attributes (forwarded docstrings),
    # wrappers, instance attributes, overloads, properties with setters - as one-module packages
    from vf.gen.modules import Gen

    for i in range(spec.get("structural_pkgs", 0)):
        name = f"wm{uid}_{i}"
        src = Gen(rng, dup_prob=rng.choice([0.3, 0.5])).module()
        try:
            compile(src, "<c09>", "exec")
        except SyntaxError:
            continue
        yield {"kind": "files", "source": "static-structural", "roots": [{f"{name}/__init__.py": src}], "package": name,
               "agent": "static", "resolve": False, "implicit": False, "parser": rng.choice([None, "google"])}
    for i in range(spec["importable_pkgs"]):
        name = f"wi{uid}_{i}"
        files, _ = rich_modules.gen_package(rng, name, flavour="importable", depth=rng.randint(1, depth))
        for agent in ("static", "dynamic"):
            yield {"kind": "files", "source": "importable", "roots": [files], "package": name, "agent": agent, "resolve": rng.random() < 0.5,
                   "implicit": rng.random() < 0.5, "parser": rng.choice(PARSERS)}
    for i in range(spec["namespaces"]):
        name = f"wn{uid}_{i}"
        roots, _ = rich_modules.gen_namespace(rng, name, depth=rng.randint(1, depth))
        yield {"kind": "files", "source": "namespace", "roots": roots, "package": name, "agent": "static", "resolve": rng.random() < 0.5,
               "implicit": True, "cwd": "above", "parser": rng.choice(PARSERS)}


def run_shard(spec: dict, rec) -> None:  # noqa: ANN001
    rng = random.Random(spec["seed"])
    uid = f"{spec['seed'] % 1000003}"
    validator()
    for name in spec["own"]:
        for resolve, parser in ((False, None), (True, "google")):
            run_case(rec, {"kind": "named", "source": "own", "package": name, "agent": "static", "resolve": resolve, "implicit": False,
                           "parser": parser})
    for name in spec["stdlib"]:
        run_case(rec, {"kind": "named", "source": "stdlib", "package": name, "agent": "static", "resolve": rng.random() < 0.5,
                       "implicit": False, "parser": rng.choice([None, None, "google", "numpy", "sphinx"])})
    for case in generated_cases(rng, spec, uid):
        run_case(rec, case)


def run_replay(inp: dict, rec) -> None:  # noqa: ANN001
    run_case(rec, {k: v for k, v in inp.items() if k != "also"})


def run_pinned(findings: list[dict], rec) -> dict:  # noqa: ANN001
    from vf.core.rec import Recorder, pinned_result

    out = {}
    for f in findings:
        sub = Recorder(PROP, {})
        run_case(sub, f["witness"])
        out[f["id"]] = pinned_result(sub, f)
    return out
