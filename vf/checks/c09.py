"""C09 — Full JSON dumps conform to the published schema.

Workload: the trees of C08 that come from files on disk — generated rich packages (static flavour: every expression class
in every slot; importable flavour: loaded by the visitor and by the inspector), namespace packages over two search paths,
a slice of the standard library, Griffe's own packages — with and without alias resolution, and with the docstring parser
off / google / numpy / sphinx (the ``parsed`` member of a docstring is part of the full dump and of the schema).

Oracle: ``jsonschema.Draft7Validator(docs/schema.json).iter_errors(json.loads(pkg.as_json(full=True)))``.  To name the
exact place of a mismatch every object of the dump is additionally validated on its own (members emptied): JSON pointer in
the dump + path in the schema are reported.  ``D_clean`` = statically loaded regular packages with the parser off: any
error there is a VIOLATION; elsewhere an error must match a listed mechanism predicate.

Working directories (round 6): a full dump carries location-dependent members (``relative_filepath`` is relative to the
process' *current working directory*, ``relative_package_filepath`` to the package's search path), so "the full dump of any
package loaded from files on disk" quantifies over where the process stands as well.  Every generated tree is written into
a generated directory layout ``<base>/<ancestor>/<parent>/<search path>/<package>``, loaded from one working directory with
one spelling of the search path (absolute, relative, with redundant components, through a symbolic link, trailing slash)
and then dumped from several working directories chosen *relative to where the package lies*: the search path, another
search path, its parent, an ancestor, the file-system root, inside the package, inside a sub-package, a non-package child,
an unrelated directory, symbolic links to the search path / its parent, and siblings whose NAME is a proper prefix or an
extension of the name of the search path, of its parent, of the package or of a module file's stem (directories that share a
character-wise prefix with the files without containing them).  Oracles, all independent of Griffe: (1) every dump exists -
``as_json(full=True)`` never raises; (2) the first one is validated object by object, one more as a whole document and must be
exactly as (in)valid; (3) every dump equals the first one once ``relative_filepath`` is removed - nothing else may depend on
the working directory; (4) reference model over ``os.path`` for the location members of every object: ``filepath`` is
absolute and names a file the harness wrote, ``relative_filepath`` = ``relpath(filepath, getcwd())`` when the file lies
below the working directory *component-wise* (``os.path.commonpath``), the absolute path otherwise (first portion below
the working directory for a namespace package), ``relative_package_filepath`` = path relative to the search path the harness
put the file in.  Library packages (stdlib, griffe) are dumped from existing directories only (search path, parent, root,
inside, unrelated).

Synthesised and derived objects (round 8): a dump also contains objects nobody wrote as such.  `gen_derived_package` writes
packages of them in their boundary shapes - dataclass hierarchies of depth 0-3 (decorator spellings and options, every
`field(...)` form, KW_ONLY / kw_only / InitVar / ClassVar, fields declared again in a derived class with and without default and
attribute docstring, undecorated classes in between, hand-written `__init__`, nested dataclasses, bases reached through each
import form from `__init__.py`), properties that absorbed a setter and / or deleter, overload groups with and without
implementation, a module merged with its stub - and the dataclass hierarchies of the C18 generator are loaded with attribute
docstrings below about half of their fields.  The oracle is unchanged (every object of the dump, the synthesised `__init__`
and each of its parameters included, validated on its own); CPython's `ast` over the written sources says which classes must
have a synthesised `__init__` and which fields override an inherited one, and the evidence counts those found in the validated
documents.  Findings of C18 (content of the synthesised constructor) explain nothing here.

Docstring parser and its options (round 9): ``parsed`` is a member of every docstring of a full dump, so the parser and the options it
is run with are part of the case of *every* tree (generated, library, namespace, derived): every member of ``griffe.Parser`` - ``auto``
included - or none, handed over as enumeration member or as string; option sets drawn from the documented options of each parser
(docs/reference/docstrings.md: the boolean switches of google / numpy / sphinx; for ``auto``: ``method``, ``style_order``, ``default`` in all
their presence combinations - absent, ``None`` / empty, styles as strings or members - plus switches of any style, which the documentation says
are passed down to the detected parser); through ``GriffeLoader(docstring_parser=, docstring_options=)``, through ``griffe.load(...)`` and
- as cases of their own - through the command line (``griffe.main(["dump", "-f", "-d", STYLE, "-D", JSON, "-s", PATH, "-o", FILE, ...])``, the
document is read back from the output file).  The generated sources carry docstrings of every style and of no recognisable style.  The
oracle is unchanged: the schema, and "a dump that cannot be produced is a failure" (a command that exits non-zero, writes no / unparsable
JSON or no entry for the package is such a failure).
"""
from __future__ import annotations

import json
import os
import random
import sys
import tempfile
from contextlib import contextmanager

from vf.checks import c08
from vf.core.util import case_watchdog
from vf.gen import rich_modules

PROP = "C09"
LEVEL = "exploration"
ANCHORS = ["encoders.py", "docstrings/models.py"]
RULE = ("documents = full dumps of: generated rich packages (see C08; static flavour by the visitor, importable flavour by "
        "visitor and inspector), namespace packages over two search paths, stdlib modules/packages, griffe/_griffe; x aliases "
        "{unresolved, resolved} x docstring parser {none, google, numpy, sphinx, auto} (member or string) x documented option sets "
        "of the parser (auto: method / style_order / default absent, empty or set, plus switches passed down) x entry point "
        "{GriffeLoader, griffe.load, command line `dump -f -d -D -s -o`}. distinct = digest of (files, package, "
        "options); non-trivial = the dump has >=3 object kinds, >=1 alias and >=3 expression classes. Every tree lies in a "
        "generated directory layout and is dumped from 7 (library packages: 3-4 existing ones) working directories placed relative to the "
        "package (at / above / inside / beside it, name-prefix and name-extension siblings, symlinks, root, unrelated), "
        "after being loaded from one of them with one of 5 spellings of the search path; plus packages of synthesised / "
        "derived objects (dataclass hierarchies with re-declared, documented, kw-only, InitVar, ClassVar fields; properties "
        "with setters / deleters; overload groups; stub-merged modules; bases behind aliases) and C18's dataclass hierarchies "
        "with field docstrings")
LEVEL_TEXT = ("Every document is validated as a whole with jsonschema (Draft 7) against the schema file of the checked tree, "
              "and object by object to locate mismatches; the evidence lists which schema branches the documents exercised "
              "(object kinds, optional keys present and absent, value shapes of every annotation slot, docstring section "
              "kinds, expression classes).  The location members of every object of every dump are compared with an "
              "os.path reference model, and dumps of one tree from different working directories must agree on everything "
              "but `relative_filepath`.")
LEVEL_NOTE = ("trusted: the jsonschema package (Draft7Validator); per-object validation (members emptied) is equivalent to "
              "whole-document validation because `members` is the only recursive position of the schema — both are run and "
              "a disagreement makes the case inconclusive")
TECHNIQUE = "runtime monitoring: schema-validation oracle (jsonschema) over really produced dumps, with schema-branch coverage evidence"
REQUIRED_COUNTERS = ["documents_validated", "objects_validated", "static_documents", "dynamic_documents", "resolved_documents",
                     "parsed_docstring_documents", "namespace_documents", "stdlib_documents", "own_package_documents",
                     "clean_domain_documents_valid", "location_dumps_compared", "location_dumps_from_name_prefix_sibling",
                     "location_dumps_from_name_extension_sibling", "location_dumps_from_inside_the_package",
                     "location_dumps_through_symlink", "trees_loaded_with_respelled_search_path", "location_members_checked_against_model",
                     "location_dumps_validated", "top_level_file_module_documents", "synthesised_inits_validated",
                     "synthesised_parameters_validated", "documented_synthesised_parameters_validated", "derived_dataclass_inits_validated",
                     "overridden_dataclass_fields_validated", "properties_with_setter_or_deleter_validated",
                     "overload_groups_in_validated_sources", "documents_with_merged_stubs", "parsed_docstrings_validated",
                     "auto_parser_documents", "auto_parser_documents_without_style_hint", "auto_parser_documents_with_style_hint",
                     "docstrings_parsed_by_auto_without_style_hint", "documents_with_docstring_options",
                     "documents_loaded_through_griffe_load", "command_line_documents_validated",
                     "command_line_documents_with_docstyle_and_docopts", "parser_given_as_string_documents"]
EXHAUSTIVE = {"quick": False, "thorough": False}
ASSUMPTIONS = ["the working directory exists while dumping (a removed working directory is outside the domain)",
               "directories used as working directories inside a search path or a package are created after loading, so that "
               "they cannot change what the finder sees",
               "findings listed under C08 about full dumps that cannot be produced (same observation: as_json(full=True) raises) "
               "explain the same mechanism here when their status is known"]
SHARD_TIMEOUT = {"quick": 900, "thorough": 7200}

ID_INSPECTED_LINENO = "C09-inspected-lineno-null-or-missing"
ID_NAMESPACE = "C09-namespace-filepath-list"
ID_SECTION_KIND = "C09-schema-lacks-docstring-section-kinds"
ID_SECTION_VALUE = "C09-schema-section-value-object"
ID_TOP_MODULE = "C09-relative-package-filepath-of-top-level-file-module"
ALL_IDS = [ID_INSPECTED_LINENO, ID_NAMESPACE, ID_SECTION_KIND, ID_SECTION_VALUE, ID_TOP_MODULE, c08.ID_FULL_NS_CWD, c08.ID_FULL_BUILTIN]
PARSERS = [None, None, "google", "numpy", "sphinx"]
STYLES = ("google", "numpy", "sphinx")
# the documented options of each parser (docs/reference/docstrings.md, "Parser options"; sphinx: its one keyword) - all boolean switches
STYLE_OPTIONS = {
    "google": ("ignore_init_summary", "trim_doctest_flags", "returns_multiple_items", "returns_named_value", "returns_type_in_property_summary",
               "receives_multiple_items", "receives_named_value", "warn_unknown_params"),
    "numpy": ("ignore_init_summary", "trim_doctest_flags", "warn_unknown_params"),
    "sphinx": ("warn_unknown_params",),
}
ALL_SWITCHES = tuple(dict.fromkeys(o for names in STYLE_OPTIONS.values() for o in names))
AUTO_METHODS = ("heuristics", "max_sections")
_SCHEMA = None


def validator():  # noqa: ANN201
    global _SCHEMA
    if _SCHEMA is None:
        import jsonschema

        path = os.path.join(os.path.realpath(os.environ.get("VERIF_REPO", "/repo")), "docs", "schema.json")
        with open(path) as fh:
            schema = json.load(fh)
        jsonschema.Draft7Validator.check_schema(schema)
        _SCHEMA = jsonschema.Draft7Validator(schema)
    return _SCHEMA


# -- locating errors --------------------------------------------------------------------------------------------------
def pointer(parts) -> str:  # noqa: ANN001
    return "".join("/" + str(p).replace("~", "~0").replace("/", "~1") for p in parts)


def leaf_errors(err, instance):  # noqa: ANN001, ANN201
    """Descend through oneOf errors along the branch the instance is meant for; yield the errors that say something."""
    if err.validator == "oneOf" and err.context:
        inst = err.instance
        if isinstance(inst, dict) and "kind" in inst and "name" in inst:
            want = 0 if inst.get("kind") == "alias" else 1
        elif inst is None:
            want = 0
        elif isinstance(inst, str):
            want = 1
        else:
            want = 2
        picked = [e for e in err.context if e.relative_schema_path and e.relative_schema_path[0] == want]
        if not picked:
            yield err
            return
        for sub in picked:
            yield from leaf_errors(sub, instance)
    else:
        yield err


def objects(doc: dict, path: tuple = ()):  # noqa: ANN201
    """Every Griffe object of a dump with its JSON pointer parts."""
    yield path, doc
    members = doc.get("members")
    if isinstance(members, dict):
        for name, m in members.items():
            if isinstance(m, dict):
                yield from objects(m, (*path, "members", name))
    elif isinstance(members, list):
        for i, m in enumerate(members):
            if isinstance(m, dict):
                yield from objects(m, (*path, "members", i))


def shape(v) -> str:  # noqa: ANN001
    if v is None:
        return "null"
    if isinstance(v, str):
        return "string"
    if isinstance(v, dict):
        return "expression:" + str(v.get("cls")) if "cls" in v else "object"
    if isinstance(v, list):
        return "array"
    return type(v).__name__


def record_branches(rec, obj: dict) -> None:  # noqa: ANN001, C901
    """Which branches / optional keys of the schema this object exercises."""
    kind = str(obj.get("kind"))
    add = lambda item: rec.add_to_set("schema_branches", item)  # noqa: E731
    add(f"kind={kind}")
    optional = ["lineno", "endlineno"] if kind == "alias" else ["lineno", "endlineno", "docstring"]
    if kind == "attribute":
        optional += ["value", "annotation"]
    for key in optional:
        add(f"{kind}.{key}:" + ("present" if key in obj else "absent"))
    if kind != "alias":
        for label in obj.get("labels") or []:
            rec.add_to_set("labels_validated", str(label))
        if kind in ("attribute", "function") and "property" in (obj.get("labels") or []) and {"writable", "deletable"} & set(obj["labels"]):
            rec.count("properties_with_setter_or_deleter_validated")
        add(f"{kind}.labels:" + ("non-empty" if obj.get("labels") else "empty"))
        add(f"{kind}.members:" + ("non-empty" if obj.get("members") else "empty"))
        add(f"{kind}.filepath:" + shape(obj.get("filepath")))
    ds = obj.get("docstring")
    if isinstance(ds, dict):
        add("docstring.lineno:" + shape(ds.get("lineno")))
        add("docstring.endlineno:" + shape(ds.get("endlineno")))
        add("docstring.parsed:" + ("present" if "parsed" in ds else "absent"))
        for sec in ds.get("parsed") or []:
            if isinstance(sec, dict):
                add(f"section.kind={sec.get('kind')}")
                add("section.value:" + shape(sec.get("value")))
                add("section.title:" + ("present" if "title" in sec else "absent"))
    if kind == "class":
        add("class.bases:" + ("non-empty" if obj.get("bases") else "empty"))
        for b in obj.get("bases") or []:
            add("base:" + shape(b).split(":")[0])
    if kind in ("class", "function"):
        add(f"{kind}.decorators:" + ("non-empty" if obj.get("decorators") else "empty"))
        for d in obj.get("decorators") or []:
            add("decorator.value:" + shape(d.get("value")).split(":")[0])
            add("decorator.lineno:" + shape(d.get("lineno")))
            add("decorator.endlineno:" + shape(d.get("endlineno")))
    if kind == "function":
        add("function.returns:" + shape(obj.get("returns")).split(":")[0])
        add("function.parameters:" + ("non-empty" if obj.get("parameters") else "empty"))
        for p in obj.get("parameters") or []:
            add(f"parameter.kind={p.get('kind')}")
            add("parameter.annotation:" + shape(p.get("annotation")).split(":")[0])
            add("parameter.default:" + shape(p.get("default")).split(":")[0])
            add("parameter.docstring:" + ("present" if "docstring" in p else "absent"))
    if kind == "attribute":
        for key in ("value", "annotation"):
            if key in obj:
                add(f"attribute.{key}:" + shape(obj[key]).split(":")[0])


def classify(case: dict, obj: dict, err) -> str | None:  # noqa: ANN001
    """Mechanism predicate over (load options, offending object, leaf error)."""
    rel = list(err.absolute_path)      # relative to the (shallow) object that was validated
    inst = err.instance
    if err.validator == "type" and rel[:1] == ["filepath"] and isinstance(inst, list) and obj.get("kind") == "module":
        return ID_NAMESPACE
    if case.get("agent") == "dynamic":
        if err.validator == "type" and rel == ["docstring", "lineno"] and inst is None:
            return ID_INSPECTED_LINENO
        if err.validator == "required" and obj.get("kind") == "alias" and "lineno" not in obj and "'lineno' is a required property" in err.message:
            return ID_INSPECTED_LINENO
    if len(rel) == 4 and rel[0] == "docstring" and rel[1] == "parsed":
        if rel[3] == "kind" and err.validator == "enum" and inst in ("functions", "classes", "modules"):
            return ID_SECTION_KIND
        if rel[3] == "value" and err.validator == "type" and isinstance(inst, dict):
            return ID_SECTION_VALUE
    return None


def classify_dump_failure(exc: BaseException, mod) -> str | None:  # noqa: ANN001
    """Mechanism predicate over (exception of as_json(full=True), loaded tree, working directory)."""
    from _griffe.exceptions import BuiltinModuleError

    if type(exc) is ValueError and str(exc).startswith("No directory in") and c08.namespace_outside_cwd(mod):
        return c08.ID_FULL_NS_CWD
    if isinstance(exc, BuiltinModuleError) and c08.has_builtin_module(mod):
        return c08.ID_FULL_BUILTIN
    return None


def dump_failure(exc: BaseException, mod, where: str = "") -> c08.Problem:  # noqa: ANN001
    return c08.Problem(f"no full dump at all: as_json(full=True) raised {type(exc).__name__}{where}",
                       {"exception": f"{type(exc).__name__}: {exc}"[:300], "cwd": os.getcwd()}, "a JSON document that validates against the schema",
                       classify_dump_failure(exc, mod))


def validate(rec, case: dict, doc: dict) -> tuple[list, bool, str | None, bool]:  # noqa: ANN001
    """Object-by-object + whole-document validation of one dump: (problems, non-trivial, inconclusive reason, whole document valid)."""
    stats = c08.dump_stats(doc)
    nontrivial = len(stats["kinds"]) >= 3 and stats["aliases"] >= 1 and len(stats["classes"]) >= 3
    for k in stats["classes"]:
        rec.add_to_set("expression_classes_validated", k)
    v = validator()
    whole_first = next(iter(v.iter_errors(doc)), None)
    rec.count("documents_validated")
    problems: list[c08.Problem] = []
    n_obj = n_parsed = 0
    for path, obj in objects(doc):
        n_obj += 1
        record_branches(rec, obj)
        if isinstance(obj.get("docstring"), dict) and "parsed" in obj["docstring"]:
            n_parsed += 1
        shallow = {**obj, "members": {}} if "members" in obj else obj
        for err in v.iter_errors(shallow):
            for leaf in leaf_errors(err, shallow):
                ptr = pointer((*path, *leaf.absolute_path))
                problems.append(c08.Problem(
                    f"schema mismatch at {ptr}: {leaf.message[:160]}",
                    {"pointer": ptr, "instance": json.dumps(leaf.instance, default=str)[:200], "object_path": obj.get("path"),
                     "object_kind": obj.get("kind")},
                    {"schema_path": pointer(leaf.absolute_schema_path), "validator": leaf.validator,
                     "validator_value": json.dumps(leaf.validator_value, default=str)[:200]},
                    classify(case, obj, leaf)))
                if len(problems) > 400:
                    break
    rec.count("objects_validated", n_obj)
    rec.maximum("objects_in_one_document", n_obj)
    rec.count("parsed_docstrings_validated", n_parsed)
    if case.get("parser") == "auto" and not has_style_hint(case):
        rec.count("docstrings_parsed_by_auto_without_style_hint", n_parsed)
    if case.get("kind") == "files":
        record_derived(rec, case, doc)
    if (whole_first is None) != (not problems):
        if whole_first is not None:
            import jsonschema

            best = jsonschema.exceptions.best_match(v.iter_errors(doc))
            problems.append(c08.Problem(f"whole-document validation fails at {pointer(best.absolute_path)}: {best.message[:160]}",
                                        {"pointer": pointer(best.absolute_path)}, {"schema_path": pointer(best.absolute_schema_path)}))
        else:
            return problems, nontrivial, "per-object validation reports errors the whole-document validation does not", False
    return problems, nontrivial, None, whole_first is None


def is_clean(case: dict) -> bool:
    return case.get("agent") == "static" and not case.get("parser") and case.get("source") != "namespace"


def judge(rec, case: dict, mod, tags: tuple = ()) -> None:  # noqa: ANN001
    """One tree, one dump, from the working directory the process is in (cases without a directory layout)."""
    try:
        text = mod.as_json(full=True)
    except Exception as exc:  # noqa: BLE001
        rec.count("full_dump_failures")
        _report(rec, case, [dump_failure(exc, mod)], False, tags)
        return
    problems, nontrivial, inc, _valid = validate(rec, case, json.loads(text))
    if inc:
        rec.inconclusive(case, inc)
        return
    if not problems and is_clean(case):
        rec.count("clean_domain_documents_valid")
    _report(rec, case, problems, nontrivial, tags)


FOREIGN_IDS = (c08.ID_FULL_NS_CWD, c08.ID_FULL_BUILTIN)   # listed under C08, same observation (no full dump at all)


def _listed_known(fid: str | None) -> bool:
    from vf.core.rec import known_findings

    entry = known_findings().get(fid) if fid else None
    if entry is None or entry.get("status") != "known":
        return False
    return entry.get("property") == PROP or (fid in FOREIGN_IDS and entry.get("property") == "C08")


def _histogram(rec, fid: str, case: dict, p) -> None:  # noqa: ANN001
    from vf.core.rec import jsonable

    k = rec.known.setdefault(fid, {"count": 0, "first": None})
    k["count"] += 1
    if k["first"] is None:
        k["first"] = {"input": jsonable(case), "what": p.what, "observed": jsonable(p.observed), "expected": jsonable(p.expected)}


def _report(rec, case: dict, problems: list, nontrivial: bool, tags: tuple) -> None:  # noqa: ANN001
    if not problems:
        rec.ok(case, nontrivial=nontrivial, tags=tags)
        return
    unexplained = [p for p in problems if p.finding is None]
    pick = unexplained[0] if unexplained else problems[0]
    for p in problems:
        if p.finding:
            rec.count("explained_by:" + p.finding)
    if pick.finding in FOREIGN_IDS and _listed_known(pick.finding):
        # the recorder only accepts findings listed under this property; these are listed (status known) under C08
        rec.ok(case, nontrivial=nontrivial, tags=tags)
        _histogram(rec, pick.finding, case, pick)
    else:
        rec.fail(case, pick.what, observed=pick.observed, expected=pick.expected, finding=pick.finding, nontrivial=nontrivial, tags=tags,
                 tried=ALL_IDS)
    if not unexplained:
        for fid in sorted({p.finding for p in problems if p.finding != pick.finding}):
            p = next(q for q in problems if q.finding == fid)
            if _listed_known(fid):
                _histogram(rec, fid, case, p)
            else:
                rec.fail({**case, "also": fid}, p.what, observed=p.observed, expected=p.expected, finding=fid, nontrivial=False,
                         tags=("secondary",), tried=ALL_IDS)


# -- docstring parser, its options, the entry point ---------------------------------------------------------------------
def gen_switches(rng: random.Random, names: tuple, k: int | None = None) -> dict:
    picked = rng.sample(names, min(len(names), k if k is not None else rng.randint(1, len(names))))
    return {n: rng.random() < 0.5 for n in picked}


def gen_docstring_config(rng: random.Random) -> dict:
    """The parser dimension of a case (JSON-able): which parser, handed over how, with which documented options, through which entry point."""
    parser = rng.choice((None, None, None, "google", "numpy", "sphinx", "auto", "auto", "auto", "auto"))
    cfg: dict = {"parser": parser, "entry": rng.choice(("loader", "loader", "load"))}
    if parser is None:
        if rng.random() < 0.25:        # options without a parser: there is nothing to parse with, `parsed` stays out of the dump
            cfg["parser_options"] = rng.choice(({}, gen_switches(rng, ALL_SWITCHES, 2)))
        return cfg
    cfg["parser_as"] = rng.choice(("member", "string"))
    if parser != "auto":
        r = rng.random()
        if r < 0.55:
            cfg["parser_options"] = gen_switches(rng, STYLE_OPTIONS[parser])
        elif r < 0.65:
            cfg["parser_options"] = {}
        return cfg
    opts: dict = {}
    hint = rng.choice(("absent", "absent", "absent", "empty", "default", "style_order", "both"))
    if hint == "empty":                 # the hint options are there and say nothing
        which = rng.choice(("default", "style_order", "both"))
        if which != "style_order":
            opts["default"] = None
        if which != "default":
            opts["style_order"] = rng.choice(([], None))
    if hint in ("default", "both"):
        opts["default"] = rng.choice(STYLES)
        if hint == "default" and rng.random() < 0.3:
            opts["style_order"] = rng.choice(([], None))
    if hint in ("style_order", "both"):
        opts["style_order"] = rng.sample(STYLES, rng.randint(1, 3))
        if hint == "style_order" and rng.random() < 0.3:
            opts["default"] = None
    if rng.random() < 0.5:
        opts["method"] = rng.choice(AUTO_METHODS)
    if rng.random() < 0.4:              # "any other option is passed down to the detected parser, if any"
        opts.update(gen_switches(rng, ALL_SWITCHES, rng.randint(1, 3)))
    cfg["options_as"] = rng.choice(("strings", "members"))
    if opts or rng.random() < 0.5:
        cfg["parser_options"] = opts
    return cfg


def has_style_hint(case: dict) -> bool:
    opts = case.get("parser_options") or {}
    return bool(opts.get("default")) or bool(opts.get("style_order"))


def parser_arguments(case: dict) -> dict:
    """`docstring_parser=` / `docstring_options=` as the case spells them (API entry points)."""
    import griffe

    kw: dict = {}
    parser = case.get("parser")
    if parser:
        kw["docstring_parser"] = parser if case.get("parser_as") == "string" else griffe.Parser(parser)
    if case.get("parser_options") is not None:
        opts = dict(case["parser_options"])
        if case.get("options_as") == "members":
            if opts.get("default"):
                opts["default"] = griffe.Parser(opts["default"])
            if opts.get("style_order"):
                opts["style_order"] = [griffe.Parser(x) for x in opts["style_order"]]
        kw["docstring_options"] = opts
    return kw


def load_tree(case: dict, roots: list[str]):  # noqa: ANN201
    """Load the tree a case describes through `GriffeLoader` or `griffe.load` (options as in C08, plus the parser dimension)."""
    import griffe

    agent = case.get("agent", "static")
    kw = parser_arguments(case)
    if roots:
        kw["search_paths"] = roots
    if agent == "dynamic":
        kw.update(allow_inspection=True, force_inspection=True)
    elif agent == "static":
        kw.update(allow_inspection=False)
    else:
        kw.update(allow_inspection=True)
    if case.get("find_stubs"):
        kw["find_stubs_package"] = True
    if case.get("entry") == "load":
        return griffe.load(case["package"], resolve_aliases=bool(case.get("resolve")), resolve_implicit=bool(case.get("implicit")),
                           resolve_external=case.get("external", False), **kw)
    extra = {"find_stubs_package": kw.pop("find_stubs_package")} if "find_stubs_package" in kw else {}
    loader = griffe.GriffeLoader(**kw)
    mod = loader.load(case["package"], **extra)
    if case.get("resolve"):
        loader.resolve_aliases(implicit=bool(case.get("implicit")), external=case.get("external", False))
    return mod


def command_line(case: dict, roots: list[str], out: str) -> list[str]:
    """The `griffe dump` command of a case: full dump into a file, same loading options as the API entry points."""
    long = case.get("flags") == "long"
    argv = ["dump", case["package"], "--full" if long else "-f", "--output" if long else "-o", out, "-L", "CRITICAL"]
    for root in roots:
        argv += ["--search" if long else "-s", root]
    if case.get("parser"):
        argv += ["--docstyle" if long else "-d", case["parser"]]
    if case.get("parser_options") is not None:
        argv += ["--docopts" if long else "-D", json.dumps(case["parser_options"])]
    agent = case.get("agent", "static")
    if agent == "static":
        argv.append("--no-inspection" if long else "-X")
    elif agent == "dynamic":
        argv.append("--force-inspection" if long else "-x")
    if case.get("find_stubs"):
        argv.append("--find-stubs-packages" if long else "-B")
    if case.get("resolve"):
        argv.append("--resolve-aliases" if long else "-r")
        if case.get("implicit"):
            argv.append("--resolve-implicit" if long else "-I")
        argv.append("--resolve-external" if case.get("external", False) else "--no-resolve-external")
    return argv


def dump_by_command_line(rec, case: dict, mod, roots: list[str], tags: tuple) -> None:  # noqa: ANN001
    """Run the command of the case in this process, read the document back from the output file and judge it.
    `mod` (the same tree loaded through the API just before: the loader accepts it) only serves to classify a crash."""
    import logging

    import griffe

    fd, out = tempfile.mkstemp(prefix="vfc09-cli-", suffix=".json")
    os.close(fd)
    os.unlink(out)
    argv = command_line(case, roots, out)
    root_logger = logging.getLogger()
    saved = (root_logger.handlers[:], root_logger.level)
    problems: list = []
    doc = None
    try:
        try:
            code = griffe.main(argv)
        except SystemExit as exc:
            problems.append(c08.Problem("no full dump at all: the command line was refused", {"argv": argv, "exit": repr(exc.code)},
                                        "a JSON document that validates against the schema"))
        except Exception as exc:  # noqa: BLE001
            rec.count("full_dump_failures")
            problem = dump_failure(exc, mod, " in `griffe dump`")
            problem.observed["argv"] = argv
            problems.append(problem)
        else:
            try:
                with open(out, encoding="utf8") as fh:
                    data = json.load(fh)
            except (OSError, ValueError) as exc:
                data = None
                problems.append(c08.Problem(f"no full dump at all: `griffe dump -o FILE` left no readable JSON ({type(exc).__name__})",
                                            {"argv": argv, "exit": code}, "a JSON document that validates against the schema"))
            if data is not None:
                doc = data.get(case["package"]) if isinstance(data, dict) else None
                if code != 0 or not isinstance(doc, dict):
                    problems.append(c08.Problem("no full dump of the package: `griffe dump` exits non-zero or its output has no entry for it",
                                                {"argv": argv, "exit": code, "keys": sorted(data)[:5] if isinstance(data, dict) else str(type(data))},
                                                "exit code 0 and {package: document}"))
                    doc = doc if isinstance(doc, dict) else None
    finally:
        root_logger.handlers[:] = saved[0]
        root_logger.setLevel(saved[1])
        if os.path.exists(out):
            os.unlink(out)
    nontrivial = False
    if doc is not None:
        found, nontrivial, inc, _valid = validate(rec, case, doc)
        if inc:
            rec.inconclusive(case, inc)
            return
        rec.count("command_line_documents_validated")
        if case.get("parser") and case.get("parser_options") is not None:
            rec.count("command_line_documents_with_docstyle_and_docopts")
        problems.extend(found)
    _report(rec, case, problems, nontrivial, tags)


# -- working directories ----------------------------------------------------------------------------------------------
PREFIX_POSITIONS = ("search-path-name-prefix", "parent-name-prefix", "package-name-prefix", "module-stem-dir")
EXTENSION_POSITIONS = ("search-path-name-extension", "parent-name-extension", "package-name-extension")
INSIDE_POSITIONS = ("inside-package", "inside-subpackage", "non-package-child")
SYMLINK_POSITIONS = ("symlink-to-search-path", "symlink-to-parent")
OTHER_POSITIONS = ("search-path", "other-search-path", "parent", "ancestor", "fs-root", "unrelated")
POSITIONS = OTHER_POSITIONS + INSIDE_POSITIONS + SYMLINK_POSITIONS + PREFIX_POSITIONS + EXTENSION_POSITIONS
LOAD_POSITIONS = ("search-path", "parent", "ancestor", "fs-root", "unrelated", "inside-package", "symlink-to-search-path",
                  "search-path-name-prefix", "parent-name-prefix", "search-path-name-extension", "parent-name-extension")
NAMED_POSITIONS = ("search-path", "parent", "fs-root", "inside-package", "unrelated")
SPELLINGS = ("absolute", "relative", "redundant", "symlink", "trailing-slash")
DIR_STEMS = ("lib", "site", "src", "work", "venv.d", "my libs", "b\u00fcro", "a+b", "x[1]", "site-packages", "py", "r0")
DIR_EXTENSIONS = ("-libs", "2", ".d", "_", " ", "x", ".py", "-stubs")


def gen_layout(rng: random.Random, n_roots: int) -> dict:
    """Names of the directories a tree is placed in: <base>/<ancestor>/<parent>/<root i>; how sibling names are derived."""
    stems = rng.sample(DIR_STEMS, 3)
    roots = [stems[0]]
    for i in range(1, n_roots):
        # a further search path whose name extends the first one's (the first search path is then itself a name-prefix sibling
        # of the others), or an unrelated name
        roots.append(stems[0] + rng.choice(("-b", "2", ".more")) + str(i) if rng.random() < 0.5 else f"{rng.choice(DIR_STEMS)}.{i}")
    return {"chain": [stems[1], stems[2]], "roots": roots, "cut": rng.random(), "extension": rng.choice(DIR_EXTENSIONS),
            "package_extension": rng.choice(DIR_EXTENSIONS), "stem_of": rng.random()}


def located_case(rng: random.Random, case: dict, others: int = 4) -> dict:
    """Add a directory layout, the place and spelling the tree is loaded from/with and the working directories it is dumped from."""
    lay = gen_layout(rng, len(case["roots"]))
    picks = [rng.choice(PREFIX_POSITIONS), rng.choice(EXTENSION_POSITIONS), rng.choice(INSIDE_POSITIONS + SYMLINK_POSITIONS)]
    rest = [p for p in POSITIONS if p not in picks]
    picks += rng.sample(rest, others)
    rng.shuffle(picks)
    return {**case, "layout": lay, "load_from": rng.choice(LOAD_POSITIONS), "spelling": rng.choice(SPELLINGS), "cwds": picks}


def _cut(name: str, fraction: float) -> str | None:
    """A proper, non-empty prefix of a name."""
    if len(name) < 2:
        return None
    return name[:1 + int(fraction * (len(name) - 1)) % (len(name) - 1)]


class Place:
    """Where a tree lies: base directory, search paths, package top (directory or file), files written."""

    def __init__(self, base: str | None, parent: str, roots: list[str], package: str, files: set[str], layout: dict) -> None:
        self.base, self.parent, self.roots, self.package, self.files, self.layout = base, parent, roots, package, files, layout
        top_dir = os.path.join(roots[0], package)
        self.top_dir = top_dir if os.path.isdir(top_dir) else None

    def directory(self, position: str) -> str | None:  # noqa: C901, PLR0911, PLR0912
        """The directory a position names (None when the layout has no such place)."""
        lay, root, parent = self.layout, self.roots[0], self.parent
        if position == "search-path":
            return root
        if position == "other-search-path":
            return self.roots[-1] if len(self.roots) > 1 else None
        if position == "parent":
            return parent
        if position == "fs-root":
            return os.path.abspath(os.sep)
        if position == "inside-package":
            return self.top_dir
        if self.base is None:            # a library package: existing directories only
            return tempfile.gettempdir() if position == "unrelated" else None
        if position == "ancestor":
            return os.path.dirname(parent)
        if position == "unrelated":
            return os.path.join(self.base, "elsewhere")
        if position == "inside-subpackage":
            subs = sorted({os.path.dirname(f) for f in self.files if self.top_dir and f.startswith(self.top_dir + os.sep)} - {self.top_dir})
            return subs[-1] if subs else None
        if position == "non-package-child":
            return os.path.join(self.top_dir, "_wd") if self.top_dir else None
        if position == "symlink-to-search-path":
            return os.path.join(self.base, "ln-sp")
        if position == "symlink-to-parent":
            return os.path.join(self.base, "ln-parent")
        if position in ("search-path-name-prefix", "search-path-name-extension"):
            name = os.path.basename(root)
            other = _cut(name, lay["cut"]) if position.endswith("prefix") else name + lay["extension"]
            taken = {os.path.basename(r) for r in self.roots}
            return os.path.join(parent, other) if other and other not in taken else None
        if position in ("parent-name-prefix", "parent-name-extension"):
            name = os.path.basename(parent)
            other = _cut(name, lay["cut"]) if position.endswith("prefix") else name + lay["extension"]
            return os.path.join(os.path.dirname(parent), other) if other else None
        if position in ("package-name-prefix", "package-name-extension"):
            other = _cut(self.package, lay["cut"]) if position.endswith("prefix") else self.package + lay["package_extension"]
            return os.path.join(root, other) if other else None
        if position == "module-stem-dir":
            # a directory named like a module file without its suffix, next to that file (top-level module `m.py` -> `m/`)
            mods = sorted(f for f in self.files if os.path.basename(f).split(".")[0] != "__init__" and f.startswith(root + os.sep))
            mods = [f for f in mods if not os.path.exists(f.rsplit(".", 1)[0])]
            return mods[int(lay["stem_of"] * len(mods)) % len(mods)].rsplit(".", 1)[0] if mods else None
        raise ValueError(position)

    def enter(self, position: str) -> str | None:
        """chdir to a position (creating the directory when the layout does not have it yet); the directory entered, or None."""
        target = self.directory(position)
        if target is None:
            return None
        if position.startswith("symlink-to-") and not os.path.lexists(target):
            os.symlink(self.roots[0] if position.endswith("search-path") else self.parent, target)
        if os.path.lexists(target) and not os.path.isdir(target):
            return None                     # the name is taken by a file (`m.py` is a module, not a place to stand in)
        os.makedirs(target, exist_ok=True)
        os.chdir(target)
        return target

    def spelled_roots(self, spelling: str) -> list[str]:
        """The search paths as handed to the loader, relative spellings taken from the current working directory."""
        out = []
        for i, root in enumerate(self.roots):
            if spelling == "relative":
                out.append(os.path.relpath(root))
            elif spelling == "redundant":
                out.append(os.path.join(os.path.relpath(self.parent), os.pardir, os.path.basename(self.parent), os.curdir, os.path.basename(root)))
            elif spelling == "symlink" and i == 0 and self.base is not None:
                link = os.path.join(self.base, "ln-sp")
                if not os.path.lexists(link):
                    os.symlink(root, link)
                out.append(link)
            elif spelling == "trailing-slash":
                out.append(root + os.sep)
            else:
                out.append(root)
        return out


@contextmanager
def located(case: dict):
    """Write the roots of a case into its directory layout; restore the working directory and purge imported modules afterwards."""
    import importlib
    import shutil

    base = os.path.realpath(tempfile.mkdtemp(prefix="vfc09-"))
    old_cwd = os.getcwd()
    lay = case["layout"]
    try:
        parent = os.path.join(base, *lay["chain"])
        roots, written = [], set()
        for name, files in zip(lay["roots"], case["roots"]):
            root = os.path.join(parent, name)
            os.makedirs(root)
            for rel, content in files.items():
                p = os.path.join(root, rel)
                os.makedirs(os.path.dirname(p), exist_ok=True)
                with open(p, "w", encoding="utf8", errors="surrogatepass") as fh:
                    fh.write(content)
                written.add(p)
            roots.append(root)
        yield Place(base, parent, roots, case["package"], written, lay)
    finally:
        os.chdir(old_cwd)
        pkg = case.get("package", "")
        for k in [k for k in sys.modules if k == pkg or k.startswith(pkg + ".")]:
            del sys.modules[k]
        importlib.invalidate_caches()
        shutil.rmtree(base, ignore_errors=True)


def library_place(mod, package: str) -> Place | None:  # noqa: ANN001
    """The place of a package that was found on sys.path (used to choose working directories, never to judge)."""
    fp = getattr(mod, "_filepath", None)
    if fp is None or isinstance(fp, list):
        return None
    fp = str(fp)
    root = os.path.dirname(os.path.dirname(fp)) if os.path.basename(fp).split(".")[0] == "__init__" else os.path.dirname(fp)
    return Place(None, os.path.dirname(root), [root], package, set(), {})


def _below(path: str, directory: str) -> bool:
    """Component-wise containment (or equality) of absolute, normalised paths."""
    try:
        return os.path.commonpath([path, directory]) == directory
    except ValueError:
        return False


def expected_relative_filepath(filepath, cwd: str):  # noqa: ANN001, ANN201
    """Reference model of `relative_filepath`: (expected value,) or () when the documented answer is an exception."""
    if isinstance(filepath, list):
        for portion in filepath:
            if _below(portion, cwd):
                return (os.path.relpath(portion, cwd),)
        return ()
    return (os.path.relpath(filepath, cwd),) if _below(filepath, cwd) else (filepath,)


def check_location_members(rec, doc: dict, cwd: str, place: Place, position: str) -> list:  # noqa: ANN001, C901
    """Reference model over os.path for filepath / relative_filepath / relative_package_filepath of every object of a dump."""
    problems = []
    n = 0
    seen: set = set()
    top = doc.get("filepath")

    def bad(what: str, ptr: str, observed, expected, finding: str | None = None) -> None:  # noqa: ANN001
        if len(problems) < 5:
            problems.append(c08.Problem(f"{what} (object {ptr or '/'}, dumped from working directory '{position}')",
                                        {"observed": observed, "cwd": cwd, "position": position}, expected, finding))

    for path, obj in objects(doc):
        if obj.get("kind") == "alias" or "filepath" not in obj:
            continue
        n += 1
        fp, rel, pkgrel = obj.get("filepath"), obj.get("relative_filepath"), obj.get("relative_package_filepath")
        key = (tuple(fp) if isinstance(fp, list) else fp, rel, pkgrel)
        if key in seen:              # the objects of one module share their location members: judge each combination once
            continue
        seen.add(key)
        ptr = pointer(path)
        portions = fp if isinstance(fp, list) else [fp]
        if not portions or not all(isinstance(x, str) and os.path.isabs(x) for x in portions):
            bad("filepath is not an absolute path", ptr, fp, "absolute path(s) of the defining file")
            continue
        if isinstance(fp, list):
            ok = all(os.path.isdir(x) and any(_below(x, r) for r in place.roots) for x in portions)
        else:
            ok = fp in place.files if place.base is not None else os.path.isfile(fp)
        if not ok:
            bad("filepath does not name a file of the package", ptr, fp, "one of the files the package was loaded from")
            continue
        want = expected_relative_filepath(fp, cwd)
        if want and rel != want[0]:
            bad("relative_filepath is not the file path relative to the working directory (absolute when the file is not below it)", ptr,
                rel, want[0])
        if not want:
            bad("relative_filepath was computed although no portion of the namespace package lies below the working directory", ptr, rel,
                "ValueError")
        home = next((r for r in place.roots if _below(portions[0], r)), None)
        want_pkg = os.path.relpath(portions[0], home) if home else None
        if want_pkg is None or pkgrel != want_pkg:
            finding = None
            if (isinstance(fp, str) and fp == top and os.path.basename(fp).split(".")[0] != "__init__" and want_pkg == os.path.basename(fp)
                    and pkgrel == os.path.join(os.path.basename(os.path.dirname(fp)), os.path.basename(fp))):
                finding = ID_TOP_MODULE
            bad("relative_package_filepath is not the file path relative to the search path of the package", ptr, pkgrel,
                want_pkg or "a path relative to the search path the package was found in", finding)
    rec.count("location_members_checked_against_model", n)
    return problems


def strip_relative(doc: dict) -> None:
    """Remove the one member that is allowed to depend on the working directory, in place."""
    for _path, obj in objects(doc):
        obj.pop("relative_filepath", None)


def dump_everywhere(rec, case: dict, mod, place: Place, tags: tuple) -> None:  # noqa: ANN001, C901, PLR0912, PLR0915
    """Dump one loaded tree from every working directory of the case; judge each dump and their agreement."""
    problems: list = []
    reference = None            # (position, stripped document, valid as a whole)
    nontrivial = False
    done = 0
    for position in (*case["cwds"], "parent"):
        if position == "parent" and position not in case["cwds"] and (done or problems):
            break                      # the directory above the search path always exists: stand there when no chosen place applies
        entered = place.enter(position)
        if entered is None:
            rec.count("working_directories_not_applicable")
            continue
        cwd = os.getcwd()
        where = f" when the working directory is '{position}'"
        try:
            text = mod.as_json(full=True)
        except Exception as exc:  # noqa: BLE001
            rec.count("full_dump_failures")
            problem = dump_failure(exc, mod, where)
            problem.observed["position"] = position
            problems.append(problem)
            continue
        doc = json.loads(text)
        done += 1
        rec.count("location_dumps")
        rec.count("location_dumps_from:" + position)
        for group, name in ((PREFIX_POSITIONS, "name_prefix_sibling"), (EXTENSION_POSITIONS, "name_extension_sibling"),
                            (INSIDE_POSITIONS, "inside_the_package"), (SYMLINK_POSITIONS, "through_symlink")):  # noqa: E501
            if position in group:
                rec.count(("location_dumps_" if name.startswith("through") else "location_dumps_from_") + name)
        if reference is None:
            found, nontrivial, inc, valid = validate(rec, case, doc)
            if inc:
                rec.inconclusive(case, inc)
                return
            problems.extend(found)
            if not found and is_clean(case):
                rec.count("clean_domain_documents_valid")
        elif done == 2:
            valid = next(iter(validator().iter_errors(doc)), None) is None
            rec.count("location_dumps_validated")
            if valid != reference[2]:
                problems.append(c08.Problem(f"the dump taken{where} is {'valid' if valid else 'not valid'} against the schema, the one taken from "
                                            f"'{reference[0]}' is {'valid' if reference[2] else 'not valid'}", {"position": position, "cwd": cwd}))
        problems.extend(check_location_members(rec, doc, cwd, place, position))
        strip_relative(doc)
        if reference is None:
            reference = (position, json.dumps(doc), valid)
        else:
            rec.count("location_dumps_compared")
            b = json.dumps(doc)
            if b != reference[1]:
                d = c08.first_difference(reference[1], b)
                problems.append(c08.Problem(f"apart from relative_filepath, the dump taken{where} differs from the one taken from '{reference[0]}'",
                                            {"position": position, "here": d.get("other"), "at": d.get("pointer", d.get("offset"))},
                                            {"there": d.get("original")}))
    if reference is None and not problems:
        rec.inconclusive(case, "no working directory of the case was applicable")
        return
    _report(rec, case, problems, nontrivial, tags)


def run_case(rec, case: dict) -> None:  # noqa: ANN001, C901
    tags = (f"agent:{case.get('agent', 'static')}", "resolved" if case.get("resolve") else "unresolved", f"source:{case.get('source', '?')}",
            f"parser:{case.get('parser')}", f"entry:{case.get('entry', 'loader')}")

    def loaded() -> None:
        parser = case.get("parser")
        rec.count(f"documents_with_parser:{parser}")
        if parser == "auto":
            rec.count("auto_parser_documents")
            rec.count("auto_parser_documents_with_style_hint" if has_style_hint(case) else "auto_parser_documents_without_style_hint")
            rec.add_to_set("auto_option_shapes", ",".join(f"{k}={'set' if case['parser_options'][k] else 'empty'}" for k in ("method", "style_order", "default")
                                                         if k in (case.get("parser_options") or {})) or "none")
        if parser and case.get("parser_as") == "string":
            rec.count("parser_given_as_string_documents")
        if case.get("parser_options"):
            rec.count("documents_with_docstring_options")
            for k in case["parser_options"]:
                rec.add_to_set("docstring_options_used", f"{parser}:{k}")
        if case.get("entry") == "load":
            rec.count("documents_loaded_through_griffe_load")
        rec.count({"static": "static_documents", "dynamic": "dynamic_documents"}[case.get("agent", "static")])
        if case.get("resolve"):
            rec.count("resolved_documents")
        if case.get("parser"):
            rec.count("parsed_docstring_documents")
        src = case.get("source")
        if src in ("namespace", "stdlib", "own"):
            rec.count({"namespace": "namespace_documents", "stdlib": "stdlib_documents", "own": "own_package_documents"}[src])

    def refused(exc: BaseException) -> None:
        rec.skip(f"loader refused the tree ({type(exc).__name__})")
        rec.count("load_failures:" + case.get("source", "?") + ":" + case.get("agent", "static"))

    old_cwd = os.getcwd()
    try:
        if "layout" in case:
            with case_watchdog(300), located(case) as place:
                if place.enter(case.get("load_from", "parent")) is None:
                    place.enter("parent")
                spelled = place.spelled_roots(case.get("spelling", "absolute"))
                try:
                    mod = load_tree({**case, "entry": "loader"} if case.get("entry") == "cli" else case, spelled)
                except Exception as exc:  # noqa: BLE001
                    refused(exc)
                    return
                loaded()
                if case.get("spelling", "absolute") != "absolute":
                    rec.count("trees_loaded_with_respelled_search_path")
                rec.count("trees_loaded_from:" + case.get("load_from", "parent"))
                if place.top_dir is None:
                    rec.count("top_level_file_module_documents")
                if case.get("entry") == "cli":
                    dump_by_command_line(rec, case, mod, spelled, tags)
                else:
                    dump_everywhere(rec, case, mod, place, tags)
            return
        with case_watchdog(300), c08.materialised(case) as roots:
            try:
                mod = load_tree({**case, "entry": "loader"} if case.get("entry") == "cli" else case, roots)
            except Exception as exc:  # noqa: BLE001
                refused(exc)
                return
            loaded()
            place = library_place(mod, case["package"]) if case.get("cwds") else None
            if case.get("entry") == "cli":
                dump_by_command_line(rec, case, mod, roots, tags)
            elif place is not None:
                dump_everywhere(rec, case, mod, place, tags)
            else:
                judge(rec, case, mod, tags)
    except Exception as exc:  # noqa: BLE001
        rec.fail_exc(case, f"{type(exc).__name__} escaped the harness around one document", exc)
    finally:
        os.chdir(old_cwd)


# -- what Griffe synthesises or derives -------------------------------------------------------------------------------
# Packages whose dump contains objects that are not written in the source as such: the `__init__` the dataclasses extension
# builds (parameters copied / re-ordered / de-duplicated over a hierarchy), properties that absorbed a setter / deleter,
# overload groups, modules merged with their stubs, classes whose bases are reached through aliases, labels added on the way.
DC_HEADER = ("import abc\nimport dataclasses\nimport dataclasses as d\nimport functools\nimport typing\n"
             "from dataclasses import KW_ONLY, InitVar, dataclass, field\nfrom dataclasses import dataclass as dc\n"
             "from typing import ClassVar, overload\n\n")
DC_DECORATORS = ("@dataclass", "@dataclass", "@dataclass", "@dataclass()", "@dataclasses.dataclass", "@dc", "@d.dataclass(kw_only=True)",
                 "@dataclass(init=False)", "@dataclass(frozen=True, slots=True)", "@dataclass(kw_only=False, eq=False)",
                 "@dataclasses.dataclass(order=True, kw_only=True)")
DC_ANNOTATIONS = ("int", "str", "list[int]", "int | None", "typing.Optional[str]", "dict[str, typing.Any]", "'Forward'", "tuple[int, ...]")
DC_LITERALS = ("0", "1", "None", "'s'", "(1, 2)", "-1.5", "b'x'")
DC_FIELD_FORMS = ("bare", "bare", "default", "default", "field", "field-default", "field-factory", "field-lambda", "field-init-false",
                  "field-kw-only", "field-kw-only-default", "field-kw-only-false", "field-meta", "field-qualified", "initvar",
                  "initvar-default", "classvar", "classvar-bare", "unannotated")
DC_PLAIN_FORMS = ("bare", "default", "default", "classvar", "unannotated")
DC_NEW_NAMES = ("a", "b", "c", "e", "g", "h", "size", "name_")
DC_DOCS = ('"""Doc of {n} in {c}."""', '"""Doc of {n} in {c}.\n\n    More about it.\n    """',
           '"""Summary of {n}.\n\n    Note:\n        Declared in {c}.\n    """', "'single quoted doc of {n}'")


def gen_field_line(rng: random.Random, name: str, form: str) -> str:  # noqa: C901, PLR0911
    ann, lit = rng.choice(DC_ANNOTATIONS), rng.choice(DC_LITERALS)
    if form == "bare":
        return f"{name}: {ann}"
    if form == "default":
        return f"{name}: {ann} = {lit}"
    if form == "field":
        return f"{name}: {ann} = field()"
    if form == "field-default":
        return f"{name}: {ann} = field(default={lit})"
    if form == "field-factory":
        return f"{name}: {ann} = field(default_factory={rng.choice(['list', 'dict', 'set'])})"
    if form == "field-lambda":
        return f"{name}: {ann} = field(default_factory=lambda: [{lit}, *range(3)])"
    if form == "field-init-false":
        return f"{name}: {ann} = field(init=False{rng.choice(['', ', default=0'])})"
    if form == "field-kw-only":
        return f"{name}: {ann} = field(kw_only=True)"
    if form == "field-kw-only-default":
        return f"{name}: {ann} = field({rng.choice(['kw_only=True, default=2', 'default=2, kw_only=True', 'kw_only=True, default_factory=list'])})"
    if form == "field-kw-only-false":
        return f"{name}: {ann} = field(kw_only=False, default={lit})"
    if form == "field-meta":
        return f"{name}: {ann} = field(default={lit}, repr=False, compare=False, hash=None, metadata={{'unit': 'm', 1: [2]}})"
    if form == "field-qualified":
        return f"{name}: {ann} = {rng.choice(['dataclasses.field', 'd.field'])}(default={lit})"
    if form == "initvar":
        return f"{name}: {rng.choice(['InitVar[int]', 'dataclasses.InitVar[str]', 'InitVar'])}"
    if form == "initvar-default":
        return f"{name}: {rng.choice(['InitVar[int]', 'dataclasses.InitVar[str]'])} = 7"
    if form == "classvar":
        return f"{name}: {rng.choice(['ClassVar[int]', 'typing.ClassVar[int]', 'ClassVar'])} = 9"
    if form == "classvar-bare":
        return f"{name}: ClassVar[{ann}]"
    return f"{name} = {lit}"


def gen_property_block(rng: random.Random, name: str) -> str:
    """A property in one of its shapes: alone, with setter, with deleter, with both (any order), documented anywhere."""
    doc = lambda who: f'\n    """{who} of {name}."""' if rng.random() < 0.5 else ""  # noqa: E731
    kind = rng.choice(["property", "property", "functools.cached_property", "abc.abstractmethod-property"])
    if kind == "abc.abstractmethod-property":
        out = [f"@property\n@abc.abstractmethod\ndef {name}(self) -> int:{doc('Getter')}\n    return 1"]
    else:
        out = [f"@{kind}\ndef {name}(self){rng.choice([' -> int', ' -> typing.Optional[str]', ''])}:{doc('Getter')}\n    return 1"]
    if kind != "functools.cached_property":
        parts = []
        if rng.random() < 0.6:
            parts.append(f"@{name}.setter\ndef {name}(self, value{rng.choice([': int', '', ': str = 0'])}){rng.choice([' -> None', ''])}:{doc('Setter')}\n    ...")
        if rng.random() < 0.4:
            parts.append(f"@{name}.deleter\ndef {name}(self):{doc('Deleter')}\n    ...")
        rng.shuffle(parts)
        out += parts
    return "\n".join(out)


def gen_overload_block(rng: random.Random, name: str, method: bool) -> str:
    """An overload group: 1-3 signatures, with or without implementation, decorated spellings, a docstring on any of them."""
    me = "self, " if method else ""
    sigs = [f"({me}x: int) -> int", f"({me}x: str, /, *rest: bytes, flag: bool = ...) -> str", f"({me}x: None = ..., **kw: typing.Any) -> None"]
    out = []
    for sig in sigs[:rng.randint(1, 3)]:
        deco = rng.choice(["@overload", "@typing.overload"])
        if method and rng.random() < 0.2:
            deco += "\n@staticmethod"
            sig = sig.replace("self, ", "")  # noqa: PLW2901
        body = ' """One signature."""' if rng.random() < 0.3 else " ..."
        out.append(f"{deco}\ndef {name}{sig}:{body}")
    if rng.random() < 0.75:
        out.append(f"def {name}({me}x=None, *rest, flag=False, **kw):\n    \"\"\"Implementation of {name}.\"\"\"\n    return x")
    return "\n".join(out)


def gen_dc_class(rng: random.Random, cname: str, bases: list[str], inherited: list[str], decorated: bool) -> tuple[list[str], list[str]]:  # noqa: C901
    """One class of a dataclass hierarchy; returns (lines, names of the fields it declares)."""
    lines = []
    if decorated:
        lines.append(rng.choice(DC_DECORATORS))
    lines.append(f"class {cname}" + (f"({', '.join(bases)})" if bases else "") + ":")
    body: list[str] = []
    if rng.random() < 0.5:
        body.append(f'"""Class {cname}."""')
    fresh = rng.sample(DC_NEW_NAMES, rng.choice([0, 1, 2, 2, 3] if inherited else [1, 2, 2, 3, 4]))
    fresh = [n for n in fresh if n not in inherited]
    over = rng.sample(inherited, min(len(inherited), rng.choice([0, 1, 1, 2, 2, 3])))      # fields declared again
    names = fresh + over
    rng.shuffle(names)
    marker_at = rng.randrange(len(names) + 1) if decorated and rng.random() < 0.3 else None
    for i, name in enumerate(names):
        if marker_at == i:
            body.append(rng.choice(["_: KW_ONLY", "_: dataclasses.KW_ONLY"]))
        forms = DC_FIELD_FORMS if decorated else DC_PLAIN_FORMS
        body.append(gen_field_line(rng, name, rng.choice(forms[:-1] if name in over and rng.random() < 0.8 else forms)))
        if rng.random() < 0.5:
            body[-1] += "\n" + rng.choice(DC_DOCS).format(n=name, c=cname)      # one block: nothing is inserted between the two
    if marker_at == len(names):
        body.append("_: KW_ONLY")
    extras = []
    if rng.random() < 0.1:
        extras.append(rng.choice(["def __init__(self, p, /, q=1, *r, s, **t): ...", "def __init__(self) -> None:\n    self.made_here: int = 1\n    \"\"\"Doc.\"\"\""]))
    if rng.random() < 0.2:
        extras.append("def __post_init__(self, *args): ...")
    if rng.random() < 0.4:
        extras.append(gen_property_block(rng, rng.choice(["prop", "view", *(names[:1] if rng.random() < 0.3 else [])])))
    if rng.random() < 0.25:
        extras.append(gen_overload_block(rng, "conv", method=True))
    if rng.random() < 0.12:
        inner, _ = gen_dc_class(rng, "Inner", [], [], decorated=True)
        extras.append("\n".join(inner))
    rng.shuffle(extras)
    for extra in extras:
        body.insert(rng.randrange(len(body) + 1) if rng.random() < 0.3 else len(body), extra)
    if not body:
        body = [rng.choice(["pass", "...", '"""Only a docstring."""'])]
    lines.extend("    " + ln for block in body for ln in block.split("\n"))
    return lines, [n for n in names if n != "_"]


def gen_derived_package(rng: random.Random, name: str) -> dict:  # noqa: C901, PLR0912, PLR0915
    """Files of a package made of things Griffe has to synthesise / derive before it can dump them."""
    n = rng.randint(3, 7)
    depth: list[int] = []
    fields_of: list[list[str]] = []
    shapes = DC_HEADER
    top_classes: list[str] = []            # classes of the hierarchy that live in __init__.py (bases reached through imports)
    top_src = ""
    reach = rng.choice(["from-import", "from-import-as", "module", "relative", "wildcard"])
    for i in range(n):
        cands = [j for j in range(i) if depth[j] < 3]
        k = 0 if not cands else rng.choice([0, 1, 1, 1, 1, 1, 2])
        bases_idx = sorted(rng.sample(cands, min(k, len(cands))), reverse=True)
        depth.append(1 + max((depth[j] for j in bases_idx), default=-1))
        inherited = list(dict.fromkeys(nm for j in bases_idx for nm in fields_of[j]))
        decorated = rng.random() < (0.8 if bases_idx else 0.9)
        # a class lives in __init__.py by choice, or because one of its bases does (its bases in shapes.py are then reached through imports)
        in_top = (i >= 1 and rng.random() < 0.3) or any(f"K{j}" in top_classes for j in bases_idx)
        base_texts = []
        for j in bases_idx:
            if in_top and f"K{j}" not in top_classes:
                base_texts.append({"from-import": f"K{j}", "from-import-as": f"Base{j}", "module": f"{name}.shapes.K{j}", "relative": f"shapes.K{j}",
                                   "wildcard": f"K{j}"}[reach])
            else:
                base_texts.append(f"K{j}")
        lines, own = gen_dc_class(rng, f"K{i}", base_texts, inherited, decorated)
        fields_of.append(list(dict.fromkeys(inherited + own)))
        if in_top:
            top_classes.append(f"K{i}")
            top_src += "\n".join(lines) + "\n\n\n"
        else:
            shapes += "\n".join(lines) + "\n\n\n"
    in_shapes = [f"K{i}" for i in range(n) if f"K{i}" not in top_classes]
    init = f'"""Package {name}."""\n' + DC_HEADER
    init += {"from-import": f"from {name}.shapes import {', '.join(in_shapes)}\n",
             "from-import-as": f"from {name}.shapes import {', '.join(f'{c} as Base{c[1:]}' for c in in_shapes)}\n",
             "module": f"import {name}.shapes\n", "relative": "from . import shapes\n", "wildcard": f"from {name}.shapes import *\n"}[reach]
    init += f"from {name} import props as props_module\nfrom .stubbed import api, Stubbed as StubbedAlias\n\n"
    init += top_src
    if rng.random() < 0.5:
        init += "__all__ = [" + ", ".join(repr(x) for x in [*top_classes, "api", "StubbedAlias"]) + "]\n"
    # properties / overloads / decorated callables outside dataclasses
    props = '"""Properties and overloads."""\n' + DC_HEADER
    for i in range(rng.randint(1, 3)):
        body = [gen_property_block(rng, f"p{k}") for k in range(rng.randint(1, 3))]
        if rng.random() < 0.6:
            body.append(gen_overload_block(rng, "pick", method=True))
        if rng.random() < 0.4:
            body.append(rng.choice(["@classmethod\ndef make(cls, *a, **k) -> 'typing.Self': ...", "@staticmethod\ndef helper(x, /, y=2, *, z): ...",
                                    "@functools.cache\ndef cached(self) -> int:\n    return 1"]))
        rng.shuffle(body)
        base = f"(P{i - 1})" if i and rng.random() < 0.5 else rng.choice(["", "(abc.ABC)"])
        props += f"class P{i}{base}:\n" + "\n".join("    " + ln for block in body for ln in block.split("\n")) + "\n\n\n"
    for k in range(rng.randint(1, 2)):
        props += gen_overload_block(rng, f"over{k}", method=False) + "\n\n\n"
    # a module and its stub: overloads / annotations / members that exist on one side only
    stub_fields = [gen_field_line(rng, nm, rng.choice(("bare", "default", "field-default", "field-kw-only", "classvar"))) for nm in ("x", "y", "z")]
    stubbed = ('"""Implementation."""\n' + DC_HEADER + "def api(a, b=1, *args, **kwargs):\n    \"\"\"Doc of api.\"\"\"\n    return a\n\n\n"
               "class Stubbed:\n    \"\"\"Doc of Stubbed.\"\"\"\n    attr = 1\n    \"\"\"Doc of attr.\"\"\"\n    def meth(self, x, y=None):\n"
               "        \"\"\"Doc of meth.\"\"\"\n" + "\n".join("    " + ln for ln in gen_property_block(rng, "both").split("\n")) + "\n\n\n"
               f"{rng.choice(DC_DECORATORS)}\nclass StubbedData:\n" + "\n".join("    " + ln for ln in stub_fields[:rng.randint(1, 3)]) + "\n")
    pyi = DC_HEADER
    pyi += (gen_overload_block(rng, "api", method=False).replace(' """One signature."""', " ...") if rng.random() < 0.6
            else "def api(a: int, b: int = ..., *args: str, **kwargs: bytes) -> int: ...") + "\n\n"
    pyi += ("class Stubbed:\n    attr: int\n    def meth(self, x: int, y: str | None = ...) -> str: ...\n"
            + rng.choice(["", "    @property\n    def only_in_stub(self) -> int: ...\n", "    extra: typing.ClassVar[str]\n"])
            + rng.choice(["", "    @property\n    def both(self) -> int: ...\n    @both.setter\n    def both(self, value: int) -> None: ...\n"]) + "\n")
    if rng.random() < 0.7:
        pyi += f"{rng.choice(DC_DECORATORS)}\nclass StubbedData:\n" + "\n".join(
            "    " + (ln.split(" = ")[0] + (" = ..." if " = " in ln else "")) for ln in stub_fields[:rng.randint(1, 3)]) + "\n"
    files = {f"{name}/__init__.py": init, f"{name}/shapes.py": shapes, f"{name}/props.py": props, f"{name}/stubbed.py": stubbed}
    if rng.random() < 0.8:
        files[f"{name}/stubbed.pyi"] = pyi
    return files


FIELD_LINE = None


def inject_field_docstrings(rng: random.Random, source: str) -> str:
    """Put an attribute docstring below about half of the annotated class-level declarations of a module text."""
    import re

    global FIELD_LINE
    if FIELD_LINE is None:
        FIELD_LINE = re.compile(r"^( +)([A-Za-z]\w*): \S.*$")
    out = []
    for line in source.split("\n"):
        out.append(line)
        m = FIELD_LINE.match(line)
        if m and not line.rstrip().endswith(":") and rng.random() < 0.5:
            out.append(f'{m.group(1)}"""Doc of {m.group(2)}."""')
    return "\n".join(out)


def derived_census(files_of_roots: list[dict]) -> dict:  # noqa: C901
    """CPython's ast on the written sources (independent of Griffe): dataclass-decorated classes, whether they define `__init__`,
    their annotated fields (documented? default?), their bases by name; overload groups; properties with setter / deleter."""
    import ast

    classes: dict[tuple, dict] = {}
    out = {"classes": classes, "overload_groups": 0, "accessor_properties": 0, "stub_pairs": 0}

    def last_name(node) -> str | None:  # noqa: ANN001
        if isinstance(node, ast.Call):
            node = node.func
        if isinstance(node, ast.Attribute):
            return node.attr
        return node.id if isinstance(node, ast.Name) else None

    def scan(body: list, module: tuple, qual: tuple) -> None:
        overloaded, accessors = set(), set()
        for k, stmt in enumerate(body):
            if isinstance(stmt, (ast.FunctionDef, ast.AsyncFunctionDef)):
                names = [last_name(d) for d in stmt.decorator_list]
                if "overload" in names:
                    overloaded.add(stmt.name)
                if any(x in ("setter", "deleter") for x in names):
                    accessors.add(stmt.name)
            elif isinstance(stmt, ast.ClassDef):
                fields = {}
                for j, sub in enumerate(stmt.body):
                    if isinstance(sub, ast.AnnAssign) and isinstance(sub.target, ast.Name):
                        nxt = stmt.body[j + 1] if j + 1 < len(stmt.body) else None
                        doc = isinstance(nxt, ast.Expr) and isinstance(nxt.value, ast.Constant) and isinstance(nxt.value.value, str)
                        fields[sub.target.id] = (bool(doc), sub.value is not None)    # the last declaration of a name wins
                classes[(module, (*qual, stmt.name))] = {
                    "decorated": any(last_name(d) in ("dataclass", "dc") for d in stmt.decorator_list),
                    "has_init": any(isinstance(sub, (ast.FunctionDef, ast.AsyncFunctionDef)) and sub.name == "__init__" for sub in stmt.body),
                    "fields": fields, "bases": [last_name(b) for b in stmt.bases], "name": stmt.name, "order": (module, stmt.lineno, k)}
                scan(stmt.body, module, (*qual, stmt.name))
        out["overload_groups"] += len(overloaded)
        out["accessor_properties"] += len(accessors)

    for files in files_of_roots:
        for rel, text in files.items():
            if rel.endswith(".pyi") and rel[:-1] in files:
                out["stub_pairs"] += 1
            if not rel.endswith(".py"):
                continue
            try:
                tree = ast.parse(text)
            except (SyntaxError, ValueError):
                continue
            parts = rel[:-3].split("/")
            scan(tree.body, tuple(parts[:-1] if parts[-1] == "__init__" else parts), ())
    return out


def record_derived(rec, case: dict, doc: dict) -> None:  # noqa: ANN001, C901
    """Evidence: which synthesised / derived objects the validated document really contains (looked up where the sources say)."""
    census = derived_census(case.get("roots", []))
    rec.count("overload_groups_in_validated_sources", census["overload_groups"])
    rec.count("accessor_properties_in_validated_sources", census["accessor_properties"])
    if census["stub_pairs"]:
        rec.count("documents_with_merged_stubs")
    by_name: dict[str, list] = {}
    for info in census["classes"].values():
        by_name.setdefault(info["name"], []).append(info)

    def ancestors(info: dict, seen: set, level: int = 1):  # noqa: ANN202
        for base in info["bases"]:
            for cand in by_name.get(base or "", []):
                if id(cand) not in seen:
                    seen.add(id(cand))
                    yield level, cand
                    yield from ancestors(cand, seen, level + 1)

    for (module, qual), info in census["classes"].items():
        if not info["decorated"] or info["has_init"] or not module or module[0] != doc.get("name"):
            continue
        node = doc
        for part in (*module[1:], *qual):
            members = node.get("members") if isinstance(node, dict) else None
            node = members.get(part) if isinstance(members, dict) else None
            if node is None:
                break
        init = (node or {}).get("members", {}).get("__init__") if isinstance(node, dict) and node.get("kind") == "class" else None
        if not isinstance(init, dict) or init.get("kind") != "function":
            continue
        rec.count("synthesised_inits_validated")
        params = init.get("parameters") or []
        rec.count("synthesised_parameters_validated", len(params))
        rec.maximum("parameters_of_one_synthesised_init", len(params))
        rec.count("documented_synthesised_parameters_validated", sum(1 for p in params if isinstance(p, dict) and "docstring" in p))
        chain = [(lv, a) for lv, a in ancestors(info, {id(info)}) if a["decorated"]]
        if chain:
            rec.count("derived_dataclass_inits_validated")
            rec.maximum("dataclass_hierarchy_depth", max(lv for lv, _a in chain))
        for fname, (own_doc, own_default) in info["fields"].items():
            over = next((a["fields"][fname] for _lv, a in chain if fname in a["fields"]), None)
            if over is not None:
                rec.count("overridden_dataclass_fields_validated")
                rec.add_to_set("dataclass_override_shapes",
                               f"base:{'doc' if over[0] else 'nodoc'},{'default' if over[1] else 'nodefault'} "
                               f"own:{'doc' if own_doc else 'nodoc'},{'default' if own_default else 'nodefault'}")


# -- workload ---------------------------------------------------------------------------------------------------------
def shards(tier: str, seed: int) -> list[dict]:
    quick = tier == "quick"
    out = []
    for i in range(16):
        out.append({
            "static_pkgs": 14 if quick else 450, "importable_pkgs": 5 if quick else 160, "namespaces": 2 if quick else 40,
            "stdlib": [c08.STDLIB[(2 * i + k) % len(c08.STDLIB)] for k in range(2)] if quick else
                      [c08.STDLIB[(3 * i + k) % len(c08.STDLIB)] for k in range(3)],
            "own": (["griffe"] if i == 0 else ["_griffe"] if i == 1 else []), "depth": 2 if quick else 3,
            "structural_pkgs": 12 if quick else 300, "derived_pkgs": 9 if quick else 220, "dataclass_pkgs": 7 if quick else 180,
        })
    return out


def generated_cases(rng: random.Random, spec: dict, uid: str):  # noqa: ANN201
    depth = spec["depth"]
    for i in range(spec["static_pkgs"]):
        name = f"ws{uid}_{i}"
        files, _ = rich_modules.gen_package(rng, name, flavour="static", depth=rng.randint(1, depth))
        resolve = rng.random() < 0.5
        yield {"kind": "files", "source": "static-rich", "roots": [files], "package": name, "agent": "static", "resolve": resolve,
               "implicit": rng.random() < 0.5, "parser": rng.choice(PARSERS)}
        if rng.random() < 0.3:
            yield {"kind": "files", "source": "static-rich", "roots": [files], "package": name, "agent": "static", "resolve": not resolve,
                   "implicit": rng.random() < 0.5, "parser": None}
    # structural modules of the C01 generator: duplicates, re-assigned documented attributes (forwarded docstrings),
    # wrappers, instance attributes, overloads, properties with setters - as one-module packages and as top-level file modules
    from vf.gen.modules import Gen

    for i in range(spec.get("structural_pkgs", 0)):
        name = f"wm{uid}_{i}"
        src = Gen(rng, dup_prob=rng.choice([0.3, 0.5])).module()
        try:
            compile(src, "<c09>", "exec")
        except SyntaxError:
            continue
        yield {"kind": "files", "source": "static-structural", "roots": [{(f"{name}/__init__.py" if i % 2 else f"{name}.py"): src}],
               "package": name, "agent": "static", "resolve": False, "implicit": False, "parser": rng.choice([None, "google"])}
    for i in range(spec["importable_pkgs"]):
        name = f"wi{uid}_{i}"
        files, _ = rich_modules.gen_package(rng, name, flavour="importable", depth=rng.randint(1, depth))
        for agent in ("static", "dynamic"):
            yield {"kind": "files", "source": "importable", "roots": [files], "package": name, "agent": agent, "resolve": rng.random() < 0.5,
                   "implicit": rng.random() < 0.5, "parser": rng.choice(PARSERS)}
    for i in range(spec["namespaces"]):
        name = f"wn{uid}_{i}"
        roots, _ = rich_modules.gen_namespace(rng, name, depth=rng.randint(1, depth))
        yield {"kind": "files", "source": "namespace", "roots": roots, "package": name, "agent": "static", "resolve": rng.random() < 0.5,
               "implicit": True, "parser": rng.choice(PARSERS)}


def derived_cases(rng: random.Random, spec: dict, uid: str):  # noqa: ANN201
    """Packages of synthesised / derived things (own generator), and the dataclass hierarchies of the C18 generator with attribute
    docstrings put below about half of their fields - statically loaded, any parser, aliases resolved or not."""
    from vf.gen import c18_dataclasses

    for i in range(spec.get("derived_pkgs", 0)):
        name = f"wd{uid}_{i}"
        files = gen_derived_package(rng, name)
        for rel, text in files.items():
            compile(text, rel, "exec")         # a generator slip must be loud, not a silently empty module
        resolve = rng.random() < 0.5
        yield {"kind": "files", "source": "derived", "roots": [files], "package": name, "agent": "static", "resolve": resolve,
               "implicit": rng.random() < 0.5, "parser": rng.choice(PARSERS)}
        if rng.random() < 0.25:
            yield {"kind": "files", "source": "derived", "roots": [files], "package": name, "agent": "static", "resolve": not resolve,
                   "implicit": rng.random() < 0.5, "parser": None}
    done = 0
    while done < spec.get("dataclass_pkgs", 0):
        gen = c18_dataclasses.gen_case(rng)
        if "load" in gen:                      # several separately loaded packages: one document per package is C09's unit
            continue
        done += 1
        files = {rel: inject_field_docstrings(rng, text) for rel, text in gen["files"].items()}
        yield {"kind": "files", "source": "dataclasses", "roots": [files], "package": gen["package"], "agent": "static",
               "resolve": rng.random() < 0.5, "implicit": False, "parser": rng.choice([None, None, "google"])}


def run_shard(spec: dict, rec) -> None:  # noqa: ANN001
    rng = random.Random(spec["seed"])
    where = random.Random(spec["seed"] * 7919 + 17)      # directory layouts and working directories: a stream of their own
    how = random.Random(spec["seed"] * 15485863 + 29)    # docstring parser, its options, the entry point: a stream of their own
    uid = f"{spec['seed'] % 1000003}"
    validator()

    def both(case: dict, share: float) -> None:
        """The case through its API entry point and, for a share of the cases, the same tree and options through the command line."""
        case = {**case, **gen_docstring_config(how)}
        run_case(rec, case)
        if how.random() < share:
            run_case(rec, {**case, "entry": "cli", "flags": how.choice(("short", "long"))})

    cli_share = spec.get("cli_share", 0.2)
    for name in spec["own"]:
        for resolve in (False, True):
            both({"kind": "named", "source": "own", "package": name, "agent": "static", "resolve": resolve, "implicit": False,
                  "cwds": where.sample(NAMED_POSITIONS, 3)}, 0.5)
    for name in spec["stdlib"]:
        both({"kind": "named", "source": "stdlib", "package": name, "agent": "static", "resolve": rng.random() < 0.5,
              "implicit": False, "cwds": where.sample(NAMED_POSITIONS, 4)}, cli_share)
    for case in generated_cases(rng, spec, uid):
        both(located_case(where, case), cli_share)
    for case in derived_cases(random.Random(spec["seed"] * 104729 + 5), spec, uid):     # a stream of its own as well
        both(located_case(where, case, others=0), cli_share)      # these are about content: three working directories each


def run_replay(inp: dict, rec) -> None:  # noqa: ANN001
    run_case(rec, {k: v for k, v in inp.items() if k != "also"})


def run_pinned(findings: list[dict], rec) -> dict:  # noqa: ANN001
    from vf.core.rec import Recorder, pinned_result

    out = {}
    for f in findings:
        sub = Recorder(PROP, {})
        run_case(sub, f["witness"])
        out[f["id"]] = pinned_result(sub, f)
    return out
