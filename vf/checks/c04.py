"""C04 — Names in expressions resolve to the object Python scoping binds them to.

Workload: generated acyclic packages (vf.gen.packages) whose modules get, appended at their end,
*reference sites* under ``if TYPE_CHECKING:`` (never executed, still visited by Griffe): annotations,
values, bases, decorators, parameter annotations/defaults/returns at module level, in a class body
(with members that deliberately shadow module globals and imports) and in a nested class.  Names
are drawn from everything bound in the module (definitions, plain/aliased/dotted/relative imports,
wildcard-imported names), dotted attribute chains, builtins and unknown names.  Identifiers spelled
like a scope around the site are part of the space: module-level bindings, class members and
class-level import aliases named like the containing module, an ancestor package, another module or
the class itself (bound and unbound); class and nested-class sites take every site form (method
decorators and bases of nested classes included).  Class statements whose *body* binds the root
name used in their own base / decorator / decorator argument, and decorator arguments in general,
are site forms of all three scopes.  Every site is judged twice with the same oracle: on the
freshly loaded tree and on the tree dumped with as_json() and loaded back with Module.from_json
(minimal dump mostly, full dump and two round trips sometimes).
Oracle (M-REF, identity): a CPython child really imports the package, evaluates each reference with
Python's scoping rule for that site (``eval(expr, module globals, vars(class))``) and walks the
path Griffe answered (import the longest module prefix, then getattr): both must be the *same
object*; unbound names and builtins must come back unchanged.
"""
from __future__ import annotations

import builtins
import random

from vf.core.util import case_watchdog, tmp_tree
from vf.gen import packages
from vf.ref.pyref import RefServer

PROP = "C04"
LEVEL = "exploration"
ANCHORS = ["agents/nodes/imports.py", "expressions.py"]
RULE = ("generated acyclic packages (3-8 modules) + appended reference sites: per module ~6 module-level sites, ~5 "
        "class-level sites in a class whose members shadow globals/imports, ~3 sites in a nested class; site kinds (all "
        "three scopes): annotation, value, base class, function/class decorator, decorator argument, parameter annotation, "
        "parameter default, return annotation, and class statements whose body binds the root name of their own base / decorator / "
        "decorator argument; each site judged on the loaded tree and on the tree reloaded from its JSON dump; reference "
        "expressions: bound names, dotted chains through module aliases/classes, builtins, unknown names, names spelled like "
        "the containing module / a package / another module / the enclosing class (bound at module level, as class member, "
        "as class-level import alias, or unbound). distinct = "
        "digest of files; non-trivial = package with >=1 relative import, >=1 aliased import and >=1 shadowed name")
LEVEL_TEXT = ("Every reference site of every generated package is resolved by Griffe (canonical_path of the stored "
              "expression's name/attribute chain) and by CPython (eval in the site's real scope after really importing the "
              "package); the object reached by walking Griffe's path must be identical to the object CPython binds, "
              "unbound/builtin names must be returned unchanged, and resolution must never raise.")
LEVEL_NOTE = ("trusted: CPython eval/getattr in a child; sites sit at the end of their scope so 'at that point' equals the "
              "final binding; class scopes do not nest (Python rule) - Griffe's enclosing-class lookup is a listed finding")
TECHNIQUE = "runtime monitoring: identity oracle against really imported objects + contract on Object.resolve"
REQUIRED_COUNTERS = ["packages_compared", "sites_compared", "bound_names_identical", "unbound_or_builtin_unchanged",
                     "resolve_contract_evals", "dotted_chains_compared", "class_scope_sites", "nested_class_sites",
                     "module_named_bound_roots_in_class_scope", "module_named_bound_roots_in_module_scope",
                     "other_module_or_package_named_roots_bound", "class_named_bound_roots_in_class_scope",
                     "decorator_or_base_sites_in_class_scope", "reloaded_tree_sites_compared",
                     "class_body_binds_root_of_own_base_or_decorator", "class_body_binds_root_of_own_base_or_decorator_reloaded",
                     "decorator_argument_sites"]
EXHAUSTIVE = {"quick": False, "thorough": False}
ASSUMPTIONS = ["reference sites are never executed (if TYPE_CHECKING) and are judged against the final bindings of their scope"]
_SERVER: RefServer | None = None
BUILTINS = ["int", "len", "str", "ValueError", "print"]
UNKNOWN = ["zz_unknown", "Undefined9"]

EVAL_SERVER_EXT = r'''
def resolve_sites(req):
    import builtins
    root, tops = req["root"], req["tops"]
    sys.path.insert(0, root)
    importlib.invalidate_caches()
    out = {"errors": {}, "sites": []}
    try:
        for n in req["modules"]:
            try:
                importlib.import_module(n)
            except BaseException as e:
                out["errors"][n] = type(e).__name__ + ": " + str(e)[:300]
        if out["errors"]:
            return out
        out["shadowing"] = False
        for mname, m in list(sys.modules.items()):
            if any(mname == t or mname.startswith(t + ".") for t in tops) and m is not None:
                for n, v in list(vars(m).items()):
                    sub = sys.modules.get(mname + "." + n)
                    if sub is not None and sub is not v:
                        out["shadowing"] = True
        def walk(path):
            parts = path.split(".")
            for i in range(len(parts), 0, -1):
                m = sys.modules.get(".".join(parts[:i]))
                if m is not None:
                    obj = m
                    for p in parts[i:]:
                        obj = getattr(obj, p)
                    return obj
            raise LookupError("no module prefix of " + path)
        for s in req["sites"]:
            mod = sys.modules[s["module"]]
            glob = vars(mod)
            loc = {}
            obj = mod
            for c in s["classes"]:
                obj = vars(obj)[c] if obj is mod else vars(obj)[c]
                loc = dict(vars(obj))
            r = {}
            try:
                o1 = eval(s["expr"], dict(glob), loc)
                r["cpy"] = ident(o1)
                root_name = s["expr"].split(".")[0]
                r["builtin"] = (root_name not in loc and root_name not in glob and hasattr(builtins, root_name))
                r["bound"] = True
            except (NameError, AttributeError) as e:
                r["cpy"] = {"k": "unbound", "id": type(e).__name__}
                r["bound"] = False
                r["builtin"] = False
                o1 = None
            if r["bound"] and not r["builtin"]:
                try:
                    o2 = walk(s["griffe"])
                    r["walk"] = ident(o2)
                    # identity; strings by value (unique literals); bound methods are fresh wrappers on every getattr
                    # (e.g. `mod.__dir__` inherited from the module type) and compare equal iff same self and function
                    r["same"] = (o1 is o2) or (isinstance(o1, str) and isinstance(o2, str) and o1 == o2) or (
                        type(o1) is type(o2) and isinstance(o1, (types.MethodType, types.BuiltinMethodType)) and o1 == o2)
                except BaseException as e:
                    r["walk"] = {"k": "error", "id": type(e).__name__ + ": " + str(e)[:120]}
                    r["same"] = False
            out["sites"].append(r)
    finally:
        for k in [k for k in sys.modules if any(k == t or k.startswith(t + ".") for t in tops)]:
            del sys.modules[k]
        if root in sys.path:
            sys.path.remove(root)
        importlib.invalidate_caches()
    return out
'''


class ResolveContractBroken(Exception):
    pass


def server() -> RefServer:
    global _SERVER
    if _SERVER is None:
        from vf.ref import pyref

        if "def resolve_sites" not in pyref.SERVER_CODE:
            pyref.SERVER_CODE = pyref.SERVER_CODE.replace("\ndef main():", EVAL_SERVER_EXT + "\ndef main():")
        _SERVER = RefServer()
    return _SERVER


def install_contract(rec) -> None:  # noqa: ANN001
    """M-CON on Object.resolve / Function.resolve / Alias.resolve: returns str, raises only NameResolutionError."""
    import _griffe.models as models
    from _griffe.exceptions import AliasResolutionError, CyclicAliasError, NameResolutionError

    if getattr(models.Object.resolve, "_vf", False):
        return

    def wrap(orig):  # noqa: ANN001, ANN202
        def resolve(self, name):  # noqa: ANN001, ANN202
            try:
                result = orig(self, name)
            except NameResolutionError:
                rec.count("resolve_contract_evals")
                raise
            except (AliasResolutionError, CyclicAliasError):
                rec.count("resolve_contract_evals")
                raise
            except Exception as exc:  # noqa: BLE001
                raise ResolveContractBroken(f"resolve({name!r}) on {self.path} raised {type(exc).__name__}: {exc}") from exc
            rec.count("resolve_contract_evals")
            if not isinstance(result, str) or not result:
                raise ResolveContractBroken(f"resolve({name!r}) on {self.path} returned {result!r}")
            return result

        resolve._vf = True  # type: ignore[attr-defined]
        return resolve

    models.Object.resolve = wrap(models.Object.resolve)
    models.Function.resolve = wrap(models.Function.resolve)


def shards(tier: str, seed: int) -> list[dict]:
    n = 90 if tier == "quick" else 1500
    return [{"count": n} for _ in range(16)]


# -- site generation ---------------------------------------------------------------------------
FORMS_CLASS = ["ann", "value", "param", "ret", "default", "deco", "base", "deco-arg", "cdeco", "base-own", "cdeco-own", "cdeco-arg-own"]
FORMS_MODULE = ["ann", "value", "base", "deco", "param", "ret", "default", "deco-arg", "cdeco", "base-own", "cdeco-own", "cdeco-arg-own"]
OWN_KINDS = ["attr", "meth", "class", "ann"]


def mangles(name: str) -> bool:
    """Class-private spelling: the compiler rewrites such identifiers inside a class body (``_Class__name``), which neither
    ``eval`` in the child nor Griffe models - kept out of class-level sites (domain restriction)."""
    return name.startswith("__") and not name.endswith("__")


def emit_site(form: str, nm: str, e: str, pad: str, method: bool, callee: str = "print", own_kind: str = "attr") -> tuple[str, tuple]:
    """Source text of one reference site named ``nm`` holding expression ``e`` + where to find it in the Griffe tree.

    ``*-own`` forms: the site is a base / decorator / decorator argument of a class statement whose *body* binds the
    root name of ``e`` itself (attribute, method, nested class or bare annotation... ``Config``-style).  Python evaluates
    bases and decorators in the scope *enclosing* the class statement, so the body's binding must not be seen."""
    slf = "self, " if method else ""
    if form in ("cdeco", "base-own", "cdeco-own", "cdeco-arg-own"):
        root = e.split(".")[0]
        if form == "cdeco":
            body = f"{pad}    inert = 0"
        elif own_kind == "meth":
            body = f"{pad}    def {root}(self): ..."
        elif own_kind == "class":
            body = f"{pad}    class {root}: ..."
        elif own_kind == "ann":
            body = f"{pad}    {root}: int = 0"
        else:
            body = f"{pad}    {root} = 0"
        if form == "base-own":
            return f"{pad}class {nm}({e}):\n{body}", ("base", nm)
        if form == "cdeco-arg-own":
            return f"{pad}@{callee}({e})\n{pad}class {nm}:\n{body}", ("decorator-arg", nm)
        return f"{pad}@{e}\n{pad}class {nm}:\n{body}", ("decorator", nm)
    if form == "deco-arg":
        return f"{pad}@{callee}({e})\n{pad}def {nm}({slf.rstrip(', ')}): ...", ("decorator-arg", nm)
    if form == "ann":
        return f"{pad}{nm}: {e} = None", ("attr-annotation", nm)
    if form == "value":
        return f"{pad}{nm} = [{e}]", ("attr-value", nm)
    if form == "base":
        return f"{pad}class {nm}({e}): ...", ("base", nm)
    if form == "deco":
        return f"{pad}@{e}\n{pad}def {nm}({slf.rstrip(', ')}): ...", ("decorator", nm)
    if form == "param":
        return f"{pad}def {nm}({slf}p: {e}): ...", ("param-annotation", nm)
    if form == "ret":
        return f"{pad}def {nm}({slf.rstrip(', ')}) -> {e}: ...", ("return", nm)
    return f"{pad}def {nm}({slf}p={e}): ...", ("param-default", nm)


def add_sites(rng: random.Random, pkg: packages.Pkg) -> dict[str, list[dict]]:  # noqa: C901
    """Append reference sites to every module; returns module -> list of site descriptors."""
    sites: dict[str, list[dict]] = {}
    for mod in pkg.order:
        names = [n for n in pkg.defs[mod] if n != "__all__"]
        kinds = pkg.defs[mod]
        own = mod.rsplit(".", 1)[-1]
        # identifiers spelled like a structural name around the site: the containing module (weighted), its ancestor
        # packages, every other module of the package - bound here or not
        structural = packages.namespace_names(pkg, mod)
        structural_bound = [n for n in structural if n in kinds]

        def ref_expr(in_class: bool = False) -> str:
            r = rng.random()
            if r < 0.08:
                return rng.choice(BUILTINS)
            if r < 0.14:
                return rng.choice(UNKNOWN)
            if r < 0.155 and "." in mod:
                # a name defined in an ancestor package but not here: Python has no binding for it in this module
                anc = mod.rsplit(".", 1)[0]
                cands = [x for x in pkg.defs.get(anc, {}) if x not in kinds and x != "__all__" and not hasattr(builtins, x)]
                if cands:
                    return rng.choice(cands)
            if r < 0.175:
                # a structural name, whatever its binding state (unbound ones must come back unchanged)
                return rng.choice(structural)
            pool = [n for n in names if not (in_class and mangles(n))]
            if not pool:
                return rng.choice(BUILTINS)
            n = rng.choice(pool)
            if structural_bound and rng.random() < 0.25:
                # a module-level binding spelled like the module itself / a package / another module
                n = rng.choice(structural_bound)
            k = kinds[n]
            if k == packages.CLASS and rng.random() < 0.5:
                return n + "." + rng.choice(["attr", "meth"])
            if k == "module" and rng.random() < 0.8:
                # dotted chain through a module name: find something defined in that module (best effort: any module)
                target_mods = [m for m in pkg.order if pkg.defs.get(m)]
                # the runtime decides whether the chain exists; unknown attributes make CPython raise -> 'unbound'
                tm = rng.choice(target_mods)
                inner = [x for x in pkg.defs[tm] if x != "__all__"]
                if inner:
                    return n + "." + rng.choice(inner)
            return n

        lines = pkg.lines[mod]
        lines.append("from typing import TYPE_CHECKING")
        out: list[dict] = []
        plain = [n for n in names if not mangles(n)]
        shadow = rng.sample(plain, min(len(plain), rng.randint(1, 3))) if plain else []
        # class members spelled like the scopes around them: the class itself, the containing module, a package
        if rng.random() < 0.25:
            shadow.append(rng.choice(["SiteK", own, own, rng.choice(structural)]))
        shadow = list(dict.fromkeys(shadow))
        use_enclosing = rng.random() < 0.06
        # a base class whose members carry names that are module globals / unknown: Python does NOT see inherited names in
        # a class body (class scope = the body's own bindings, then module globals)
        inherit = rng.random() < 0.6
        base_members = (rng.sample(plain, min(len(plain), rng.randint(1, 2))) if plain else []) + ["base_only", rng.choice(UNKNOWN)]
        if inherit:
            lines.append("class SiteBase:\n" + "".join(f"    {b} = '{mod}.SiteBase.{b}'\n" for b in base_members))
        cls_lines = ["class SiteK(SiteBase):" if inherit else "class SiteK:"]
        for sname in shadow:
            cls_lines.append(f"    {sname} = '{mod}.SiteK.{sname}'")
        cls_lines.append("    own = 1")
        # imports written inside the class body (absolute and relative) bind class-level names
        class_imported: list[str] = []
        earlier = pkg.order[: pkg.order.index(mod)]
        for j in range(rng.choice([0, 1, 2])):
            if not earlier:
                break
            src = rng.choice(earlier)
            src_names = [n for n, k in pkg.defs[src].items() if n != "__all__" and k != "module" and not mangles(n)]
            spelled = src
            rel = packages.relative(pkg, mod, src)
            if rel is not None and rng.random() < 0.7:
                spelled = rel
            # the class-level alias is sometimes spelled like the module / a package / the class
            kname = rng.choice([own, "SiteK", rng.choice(structural)]) if rng.random() < 0.15 else f"kimp{j}"
            if kname in class_imported or kname in shadow:
                kname = f"kimp{j}"
            if src_names and rng.random() < 0.7:
                nm = rng.choice(src_names)
                cls_lines.append(f"    from {spelled} import {nm} as {kname}")
            elif spelled.startswith(".") and "." not in spelled.lstrip(".") and spelled.lstrip("."):
                dots = spelled[: len(spelled) - len(spelled.lstrip("."))]
                cls_lines.append(f"    from {dots} import {spelled.lstrip('.')} as {kname}")
            else:
                cls_lines.append(f"    import {src} as {kname}")
            class_imported.append(kname)
        cls_lines.append("    if TYPE_CHECKING:")
        for i in range(rng.randint(3, 7)):
            e = rng.choice(shadow + ["own"]) if shadow and rng.random() < 0.45 else ref_expr(in_class=True)
            if inherit and rng.random() < 0.3:
                e = rng.choice(base_members)
            if class_imported and rng.random() < 0.35:
                e = rng.choice(class_imported)
            form = rng.choice(FORMS_CLASS)
            text, loc = emit_site(form, f"ks{i}", e, "        ", method=True, callee=rng.choice([*BUILTINS, e]),
                                  own_kind=rng.choice(OWN_KINDS))
            cls_lines.append(text)
            out.append({"classes": ["SiteK"], "expr": e, "loc": loc, "binds_root": form.endswith("-own")})
        cls_lines.append("    class Inner:")
        cls_lines.append("        inner_own = 2")
        inner_members = ["inner_own"]
        if rng.random() < 0.2:
            # nested-class members spelled like the scopes around them
            extra = rng.choice(["Inner", "SiteK", own, rng.choice(structural)])
            if use_enclosing or extra not in shadow:
                cls_lines.append(f"        {extra} = '{mod}.SiteK.Inner.{extra}'")
                inner_members.append(extra)
        cls_lines.append("        if TYPE_CHECKING:")
        for i in range(rng.randint(2, 5)):
            e = rng.choice(shadow + ["own"]) if (use_enclosing and rng.random() < 0.5) else (
                rng.choice(inner_members) if rng.random() < 0.2 else ref_expr(in_class=True))
            if not use_enclosing and e.split(".")[0] in shadow + class_imported + ["own", "Inner"] and e.split(".")[0] not in inner_members:
                e = rng.choice(inner_members)
            form = rng.choice(FORMS_CLASS)
            text, loc = emit_site(form, f"is{i}", e, "            ", method=True, callee=rng.choice([*BUILTINS, e]),
                                  own_kind=rng.choice(OWN_KINDS))
            cls_lines.append(text)
            out.append({"classes": ["SiteK", "Inner"], "expr": e, "loc": loc, "binds_root": form.endswith("-own")})
        lines.append("\n".join(cls_lines))
        mlines = ["if TYPE_CHECKING:"]
        for i in range(rng.randint(4, 8)):
            e = ref_expr()
            form = rng.choice(FORMS_MODULE)
            text, loc = emit_site(form, f"ms{i}", e, "    ", method=False, callee=rng.choice([*BUILTINS, e]),
                                  own_kind=rng.choice(OWN_KINDS))
            mlines.append(text)
            out.append({"classes": [], "expr": e, "loc": loc, "binds_root": form.endswith("-own")})
        lines.append("\n".join(mlines))
        sites[mod] = out
    return sites


def site_expression(gmod, site):  # noqa: ANN001, ANN201
    """Fetch the stored expression of a site from the griffe tree."""
    scope = gmod
    for c in site["classes"]:
        scope = scope.members[c]
    kind, nm = site["loc"]
    obj = scope.members[nm]
    if kind == "attr-annotation":
        return obj.annotation
    if kind == "attr-value":
        return obj.value.elements[0]
    if kind == "base":
        return obj.bases[0]
    if kind == "decorator":
        return obj.decorators[0].value
    if kind == "decorator-arg":
        return obj.decorators[0].value.arguments[0]
    if kind == "param-annotation":
        return obj.parameters["p"].annotation
    if kind == "param-default":
        return obj.parameters["p"].default
    if kind == "return":
        return obj.returns
    raise ValueError(kind)


def classify(site: dict, gmod, answer: str, rep: dict) -> tuple[str | None, list[str]]:  # noqa: ANN001
    """C04-enclosing-class-scope: the name is found only through an enclosing *class* scope."""
    tried = ["C04-enclosing-class-scope"]
    if len(site["classes"]) >= 2:
        root = site["expr"].split(".")[0]
        scope = gmod
        chain = []
        for c in site["classes"]:
            scope = scope.members[c]
            chain.append(scope)
        if root not in chain[-1].members:
            for enclosing in chain[:-1]:
                if root in enclosing.members:
                    m = enclosing.members[root]
                    found = m.target_path if m.is_alias else m.path   # what Object.resolve answers for a member
                    if answer == found or answer.startswith(found + "."):
                        return "C04-enclosing-class-scope", tried
    # C04-parent-package-scope: the root name is not bound in the site's module (nor in its class scopes) but is a member
    # of an ancestor *package*; Griffe continues the lookup there, Python does not.
    tried.append("C04-parent-package-scope")
    root = site["expr"].split(".")[0]
    scope = gmod
    scopes = [gmod]
    for c in site["classes"]:
        scope = scope.members[c]
        scopes.append(scope)
    if not any(root in sc.members for sc in scopes):
        anc = gmod.parent
        while anc is not None:
            if root in anc.members:
                m = anc.members[root]
                expected = m.target_path if m.is_alias else m.path
                if answer == expected or answer.startswith(expected + "."):
                    return "C04-parent-package-scope", tried
                break
            anc = anc.parent
    return None, tried


def suppressed_by_stale_wildcard_source(collection, gmod, files: dict, f: dict, r: dict, member) -> bool:  # noqa: ANN001
    """Third observed form of C04-early-resolution-stale-target, one hop away from the scope member: the module binds the
    bare name with an import statement and, LATER in line order, wildcard-imports a module S that delivers the same name
    through an alias which is stale in form (a) (its cached chain passes a member that has been replaced since).  When the
    wildcard is expanded, Griffe compares the stale cached final target of S's alias with the member already present,
    finds the very module that member points to ("an alias named after the module it targets") and keeps the earlier
    binding, although CPython re-binds the name to what S really delivers.  Every clause is checked here: a later
    wildcard import statement in the module's own source, the stale hop under S's alias, and that following S's alias by
    path ends at the object CPython binds."""
    import ast

    from vf.checks.c05 import first_replaced_hop, relookup_by_path

    rel = f["module"].replace(".", "/")
    is_pkg = rel + "/__init__.py" in files
    src = files.get(rel + "/__init__.py", files.get(rel + ".py"))
    if src is None or member.alias_lineno is None:
        return False
    root = f["expr"]
    for node in ast.parse(src).body:
        if not (isinstance(node, ast.ImportFrom) and any(a.name == "*" for a in node.names) and node.lineno > member.alias_lineno):
            continue
        base = f["module"].split(".")
        if node.level:
            base = base[: len(base) - node.level + (1 if is_pkg else 0)]
            source = ".".join([*base, *( [node.module] if node.module else [])])
        else:
            source = node.module or ""
        try:
            cand = collection.get_member(source).members.get(root)
        except Exception:  # noqa: BLE001
            continue
        if cand is None or not cand.is_alias or not cand.resolved:
            continue
        hop = first_replaced_hop(collection, cand)
        fresh = relookup_by_path(collection, cand)
        if hop is not None and hop.is_alias and fresh is not None and r["cpy"].get("id") == fresh.path:
            return True
    return False


def stale_early_resolution(collection, loaded_gmod, files: dict, f: dict, r: dict) -> bool:  # noqa: ANN001
    """C04-early-resolution-stale-target (same root cause as C05-early-resolution-stale-target): the scope member the
    bare name resolves through is an alias that was resolved during loading and Griffe answers its cached target path,
    which is stale in one of two ways: (a) under the cached chain a member that was itself an alias has been replaced
    since (a wildcard import expanded later re-bound the imported name), or (b) the alias was re-targeted by set_member
    straight to a replaced member's successor, so its target path is no longer the one its import statement names and
    the intermediate module's later re-binding is bypassed.  In both forms, following the chain by *path* through the
    collection (for (b): from the path the import statement names) ends at the object CPython binds.  Judged on the
    loaded tree (a JSON dump only serialises the stale target path)."""
    from vf.checks.c05 import first_replaced_hop, relookup_by_path, retargeted_past_replaced_alias

    root = f["expr"]
    scopes = [loaded_gmod]
    for c in f["classes"]:
        scopes.append(scopes[-1].members[c])
    depth = next((i for i in range(len(scopes) - 1, -1, -1) if root in scopes[i].members), None)
    if depth is None:
        return False
    member = scopes[depth].members[root]
    if depth == 0 and member.is_alias and f["griffe"] == member.target_path and suppressed_by_stale_wildcard_source(
            collection, loaded_gmod, files, f, r, member):
        return True
    if not member.is_alias or not member.resolved or f["griffe"] != member.target_path:
        return False
    hop = first_replaced_hop(collection, member)
    fresh = relookup_by_path(collection, member)
    if hop is not None and hop.is_alias and fresh is not None and r["cpy"].get("id") == fresh.path:
        return True
    again = retargeted_past_replaced_alias(collection, files, f["module"], root, member, tuple(f["classes"][:depth]))
    return again is not None and r["cpy"].get("id") == again.path


def count_input_classes(rec, f: dict, r: dict, structural: set) -> None:  # noqa: ANN001
    """Evidence for the classes of identifiers spelled like a scope around the site (module, package, class)."""
    root = f["expr"].split(".")[0]
    bound = r["bound"] and not r["builtin"]
    depth = len(f["classes"])
    if root == f["module"].rsplit(".", 1)[-1]:
        if depth and bound:
            rec.count("module_named_bound_roots_in_class_scope")
        elif bound:
            rec.count("module_named_bound_roots_in_module_scope")
        else:
            rec.count("module_named_unbound_roots")
    elif root in structural:
        rec.count("other_module_or_package_named_roots_bound" if bound else "other_module_or_package_named_roots_unbound")
    if root in f["classes"] and bound:
        rec.count("class_named_bound_roots_in_class_scope")
    if depth and f.get("form") in ("decorator", "base"):
        rec.count("decorator_or_base_sites_in_class_scope")
    if packages.is_dunder(root) and bound:
        rec.count("dunder_named_bound_roots")
    if f.get("view") == "reloaded":
        rec.count("reloaded_tree_sites_compared")
    if f.get("binds_root"):
        rec.count("class_body_binds_root_of_own_base_or_decorator")
        if f.get("view") == "reloaded":
            rec.count("class_body_binds_root_of_own_base_or_decorator_reloaded")
    if f.get("form") == "decorator-arg":
        rec.count("decorator_argument_sites")


def run_case(rec, files: dict, sites: dict[str, list[dict]], top: str, nontrivial: bool, reload: dict | None = None) -> None:  # noqa: ANN001, C901, PLR0912
    """``reload``: {"full": bool, "rounds": n} - besides the freshly loaded tree, every site is judged (same CPython
    oracle) on the tree dumped with as_json(full=...) and loaded back with Module.from_json, ``rounds`` times."""
    import griffe
    from _griffe.expressions import Expr

    reload = reload or {"full": False, "rounds": 1}
    case = {"files": files, "sites": sites, "top": top, "reload": reload}
    try:
        with case_watchdog(120), tmp_tree(files) as root:
            loader = griffe.GriffeLoader(search_paths=[root], allow_inspection=False)
            pkg = loader.load(top)
            loader.resolve_aliases(implicit=True, external=False)
            reloaded = pkg
            for _ in range(reload.get("rounds", 1)):
                reloaded = griffe.Module.from_json(reloaded.as_json(full=bool(reload.get("full"))))
            views = {"loaded": lambda mod: loader.modules_collection.get_member(mod),
                     "reloaded": lambda mod: reloaded if mod == top else reloaded.get_member(mod[len(top) + 1:])}
            gmods: dict[tuple, object] = {}
            flat: list[dict] = []
            answers: list[str] = []
            for view, getter in views.items():
                for mod, slist in sites.items():
                    gmod = gmods[(view, mod)] = getter(mod)
                    if gmod.is_alias or not gmod.is_module:
                        rec.skip("module-shadowed-by-member")
                        return
                    for s in slist:
                        expr = site_expression(gmod, s)
                        if isinstance(expr, Expr):
                            ans = expr.canonical_path
                            # callable_path / path must not raise either
                            _ = expr.path
                        else:
                            ans = str(expr)
                        if not isinstance(ans, str):
                            rec.fail(case, f"canonical_path of site {mod}:{s['loc']} ({view} tree) is not a string", observed=repr(ans), nontrivial=nontrivial)
                            return
                        common = {"module": mod, "classes": s["classes"], "form": s["loc"][0], "view": view,
                                  "binds_root": bool(s.get("binds_root"))}
                        flat.append({**common, "expr": s["expr"], "griffe": ans})
                        answers.append(ans)
                        if "." in s["expr"] and isinstance(expr, Expr) and hasattr(expr, "first") and isinstance(expr.first, Expr):
                            # the root of a dotted chain is judged on its own too (the chain itself only when CPython can evaluate it)
                            flat.append({**common, "expr": s["expr"].split(".")[0], "griffe": expr.first.canonical_path})
            from vf.checks.c05 import implicit_submodule_names, statement_shadows_submodule

            if statement_shadows_submodule(files):
                rec.skip("member-shadows-submodule")  # documented Griffe limitation, outside the domain (see C05)
                return
            # same import order as resolve_sites below: which implicitly bound sub-modules travel through wildcards depends
            # on the order of import side effects, and the restriction must describe the state the sites are evaluated in
            rep0 = server().import_package(str(root), [top], entry=list(sites))
            if not rep0.get("ok"):
                rec.inconclusive(case, "reference child failed: " + str(rep0.get("error"))[:300])
                return
            if rep0["result"]["errors"]:
                rec.skip("cpython-rejects-package")
                rec.count("rejected_by_cpython")
                return
            implicit = implicit_submodule_names(files, rep0["result"])
            rep = server().call("resolve_sites", root=str(root), tops=[top], modules=list(sites), sites=flat)
            if not rep.get("ok"):
                rec.inconclusive(case, "reference child failed: " + str(rep.get("error"))[:300])
                return
            res = rep["result"]
            if res["errors"]:
                rec.skip("cpython-rejects-package")
                rec.count("rejected_by_cpython")
                return
            if res.get("shadowing"):
                rec.skip("member-shadows-submodule")  # documented Griffe limitation, outside the domain (see C05)
                return
            rec.count("packages_compared")
            structural = {part for m in sites for part in m.split(".")}
            problem = None
            deferred = None
            # roots first: a dotted chain whose root is already refuted (listed or not) carries no verdict of its own
            order = sorted(range(len(flat)), key=lambda i: "." in flat[i]["expr"])
            bad_roots: set[tuple] = set()
            for i in order:
                f, r = flat[i], res["sites"][i]
                key = (f["view"], f["module"], tuple(f["classes"]), f["expr"].split(".")[0])
                if "." in f["expr"] and key in bad_roots:
                    rec.count("chains_with_refuted_root_not_judged")
                    continue
                if "." not in f["expr"] and ((r["bound"] and not r["builtin"] and not r.get("same")) or
                                             ((not r["bound"] or r["builtin"]) and f["griffe"] != f["expr"])):
                    bad_roots.add(key)
                rec.count("sites_compared")
                if "." in f["expr"]:
                    rec.count("dotted_chains_compared")
                if len(f["classes"]) == 1:
                    rec.count("class_scope_sites")
                elif len(f["classes"]) == 2:
                    rec.count("nested_class_sites")
                count_input_classes(rec, f, r, structural)
                gmod = gmods[(f["view"], f["module"])]
                tree = "" if f["view"] == "loaded" else " [tree reloaded from JSON]"
                if f["expr"].split(".")[0] in implicit.get(f["module"], ()) and not any(
                        f["expr"].split(".")[0] in vars_ for vars_ in ()):
                    rec.count("implicit_submodule_roots_not_judged")  # domain restriction shared with C05
                    continue
                if not r["bound"] and r["cpy"]["id"] == "AttributeError" and "." in f["expr"]:
                    rec.count("chains_with_missing_attribute_not_judged")
                    continue
                if not r["bound"] or r["builtin"]:
                    if f["griffe"] != f["expr"]:
                        site = {"classes": f["classes"], "expr": f["expr"]}
                        fid, tried = classify(site, gmod, f["griffe"], r)
                        what = (f"{f['module']} {'/'.join(f['classes'])}: name {f['expr']!r} has no static binding in Python "
                                f"({'builtin' if r['builtin'] else r['cpy']['id']}) but Griffe resolved it{tree}")
                        if fid:
                            deferred = deferred or (what, f["griffe"], f["expr"], fid, tried)
                            continue
                        problem = (what, f["griffe"], f["expr"], None, tried)
                        break
                    rec.count("unbound_or_builtin_unchanged")
                    continue
                if not r["same"]:
                    site = {"classes": f["classes"], "expr": f["expr"]}
                    fid, tried = classify(site, gmod, f["griffe"], r)
                    if fid is None and "." not in f["expr"] and r["cpy"]["k"] == "module":
                        from vf.checks.c05 import from_dot_imported_submodules

                        tried = [*tried, "C04-init-from-dot-import-not-recorded"]
                        if r["cpy"]["id"] in from_dot_imported_submodules(files):
                            fid = "C04-init-from-dot-import-not-recorded"
                    if fid is None and "." not in f["expr"]:
                        tried = [*tried, "C04-early-resolution-stale-target"]
                        if stale_early_resolution(loader.modules_collection, gmods[("loaded", f["module"])], files, f, r):
                            fid = "C04-early-resolution-stale-target"
                    if fid is None and "." in f["expr"] and f["griffe"].split(".")[0] == f["expr"].split(".")[0]:
                        # a chain whose root was left unresolved: the root site (judged separately) carries the verdict
                        continue
                    what = f"{f['module']} {'/'.join(f['classes'])}: {f['expr']!r} resolved to a path that is not the object Python binds{tree}"
                    if fid:
                        deferred = deferred or (what, {"griffe": f["griffe"], "walk": r.get("walk")}, r["cpy"], fid, tried)
                        continue
                    problem = (what, {"griffe": f["griffe"], "walk": r.get("walk")}, r["cpy"], None, tried)
                    break
                rec.count("bound_names_identical")
    except ResolveContractBroken as exc:
        rec.fail_exc(case, "contract on resolve() broken", exc, nontrivial=nontrivial)
        return
    except Exception as exc:  # noqa: BLE001
        rec.fail_exc(case, f"{type(exc).__name__} while resolving names", exc, nontrivial=nontrivial)
        return
    problem = problem or deferred
    if problem:
        rec.fail(case, problem[0], observed=problem[1], expected=problem[2], finding=problem[3], tried=problem[4], nontrivial=nontrivial)
    else:
        rec.ok(case, nontrivial=nontrivial)


def features(files: dict, sites: dict) -> bool:
    text = "\n".join(files.values())
    rel = "from ." in text
    aliased = " as " in text
    shadow = ".SiteK." in text
    return rel and aliased and shadow


def run_shard(spec: dict, rec) -> None:  # noqa: ANN001
    install_contract(rec)
    rng = random.Random(spec["seed"])
    try:
        for _ in range(spec["count"]):
            pkg = packages.gen_package(rng, "pk")
            sites = add_sites(rng, pkg)
            files = pkg.files()
            reload = {"full": rng.random() < 0.15, "rounds": 2 if rng.random() < 0.2 else 1}
            run_case(rec, files, sites, "pk", features(files, sites), reload)
    finally:
        server().close()


def run_replay(inp: dict, rec) -> None:  # noqa: ANN001
    install_contract(rec)
    sites = {m: [{**s, "loc": tuple(s["loc"])} for s in sl] for m, sl in inp["sites"].items()}
    try:
        run_case(rec, inp["files"], sites, inp.get("top", "pk"), True, inp.get("reload"))
    finally:
        server().close()


def run_pinned(findings: list[dict], rec) -> dict:  # noqa: ANN001
    from vf.core.rec import Recorder, pinned_result

    install_contract(rec)
    out = {}
    try:
        for f in findings:
            sub = Recorder(PROP, {})
            w = f["witness"]
            sites = {m: [{**s, "loc": tuple(s["loc"])} for s in sl] for m, sl in w["sites"].items()}
            run_case(sub, w["files"], sites, w.get("top", "pk"), True, w.get("reload"))
            out[f["id"]] = pinned_result(sub, f)
    finally:
        server().close()
    return out
