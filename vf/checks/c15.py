"""C15 — Static loading never executes analysed code; interpreter state is restored.

Workload: generated trees in which *every* module (package inits, submodules, stubs, scripts, external
packages reachable by alias resolution, the private ``_pkg`` sibling, an editable-install finder module)
writes a sentinel file, sets an environment variable and appends to ``sys.path`` when executed; a real C
extension (built at check time; its ``PyInit`` writes a sentinel) and ``.pyc``-only modules.

* static part: every loader option combination that excludes inspection, through ``griffe.load`` and through
  the command line (``dump -X`` in-process via ``_griffe.cli.main`` and as a real ``python -m griffe``
  subprocess run under the same witnesses); and the same packages through every other public entry point and
  option-forwarding layer that loads code: ``GriffeLoader`` used directly (single loads and sessions of several
  loads + one alias resolution), ``griffe.temporary_visited_package``, ``griffe.load_git`` on a throw-away
  Git repository built from the tree (compiled and sourceless modules tracked; two commits, tag, branch with
  a slash, ``HEAD~1``; package also "installed" on ``sys.path`` or not), ``griffe check -X`` (two versions
  loaded through ``load_git`` / ``load``) in-process and as a subprocess, ``dump`` of several packages at
  once, and loads in which only Python's import path (not the search path) leads to the package;
* fault part (inspection allowed / forced): the k-th module of a package raises, exits, is interrupted,
  rebinds ``sys.path`` and raises, or imports a missing dependency, for every k; plus "module not found"; the fault packages are loaded through ``griffe.load``, a ``GriffeLoader`` and
  ``griffe.load_git`` in rotation.

Compiled / sourceless / unparseable files sit in every position of a package, each position drawn independently
per package and the file kind (``.pyc``, ``.pyo``, ABI-tagged / untagged / ``abi3`` ``.so``, plain and tagged ``.pyd``)
drawn per file: leaf module; ``__init__`` of a sub-package (with source modules, a source sub-package and a
further compiled ``__init__`` below it); the top-level ``__init__``; next to a same-named ``.py`` / ``.pyi``
(leaf and ``__init__``); only file of a directory (with and without being an ``__init__``); in a directory without
``__init__`` inside the package; in a second portion of the package reached through a ``.pth`` file; an
unparseable ``__init__.py``.

Temporary directories created by the code under test (Git worktrees, temporary packages) are placed below the
watched directory prefix (``TMPDIR``), so that code run from a worktree is attributed to the analysed tree.

Witnesses: audit hook (``import`` / ``exec``), ``sys.monitoring`` PY_START, sentinel files, state snapshots.
"""
from __future__ import annotations

import importlib
import importlib.machinery
import itertools
import json
import os
import py_compile
import random
import re
import shutil
import subprocess
import sys
import sysconfig
import tempfile
from pathlib import Path

from vf.core.rec import digest
from vf.core.util import case_watchdog
from vf.mon.audit import ExecWitness, StateSnapshot

PROP = "C15"
LEVEL = "fault_enumeration"
ANCHORS = ["loader.py", "importer.py", "agents/inspector.py", "finder.py"]
RULE = ("static part: seeded packages (regular / namespace / single-file layouts; 2-5 submodules, a subpackage, in-package "
        "and stubs-only stubs, a script directory, a syntax-error module, a real C extension and a .pyc-only module, "
        "compiled/sourceless files (.pyc .pyo, ABI-tagged/untagged/abi3 .so, .pyd) independently placed as sub-package __init__ "
        "(with source modules, a source sub-package and another compiled __init__ below), top-level __init__, next to a "
        "same-named .py/.pyi (leaf and __init__), only file of a directory, in a directory without __init__, in a second "
        "portion reached through a .pth file, plus an unparseable __init__.py; "
        "external packages reached by from-imports, wildcard imports and a private `_pkg` sibling that may itself be a "
        "single compiled file, optionally located through an editable-install finder) in which every module has "
        "import-time side effects; each package is loaded with ALL 96 combinations resolve_aliases x resolve_external "
        "{None,True,False} x resolve_implicit x submodules x find_stubs_package x store_source under "
        "allow_inspection=False (objspec form and search-path mode rotate), with all 24 `dump -X` flag combinations "
        "in-process and a rotating pair of them as real `python -m griffe` subprocesses; per package additionally (rotating "
        "through the option spaces so that consecutive packages cover them completely): 24+3 GriffeLoader loads / "
        "sessions, 12 temporary_visited_package loads, 6 griffe.load_git loads (48 option sets x objspec form x ref "
        "{HEAD, tag, branch with slash, HEAD~1} x repo as str/Path x package importable or not; targets also the external "
        "and private-sibling modules) on a two-commit repository that tracks the compiled files, 3+1 `griffe check -X` "
        "runs (against x base-ref x stubs x sys.path x style; in-process / subprocess), 2 multi-package dumps and 4 "
        "loads whose search path cannot find the package although sys.path could; fault part: for every module "
        "index k of a generated package x {raise, sys.exit, KeyboardInterrupt, rebind sys.path + raise, missing "
        "dependency} x {allow_inspection, force_inspection} (entry point rotating over griffe.load / GriffeLoader / "
        "load_git), plus module-not-found variants. distinct = digest of "
        "(package files, option set / fault point); non-trivial = package with >= 3 modules one of which is compiled "
        "(static) or a fault that was really reached (its module's sentinel exists)")
LEVEL_TEXT = ("The fault space (module index k x fault kind x inspection mode, and module-not-found variants) is enumerated "
              "completely for every generated package, and the static option space (96 API and 24 CLI combinations) is "
              "enumerated completely for every package; after each run the import path must be the same list object with "
              "the same contents and, when inspection is disallowed, no import/exec audit event, PY_START event, sentinel, "
              "environment or sys.modules change may be attributable to the analysed tree. Packages are sampled (seeded); the "
              "option spaces of the further entry points (GriffeLoader, temporary_visited_package, load_git, `check`) are "
              "rotated across packages rather than enumerated per package.")
LEVEL_NOTE = ("trusted: CPython's audit events `import`/`exec` and sys.monitoring PY_START as witnesses of execution (each "
              "shard first proves on a really imported control package that all witnesses fire); faults are import-time "
              "faults of Python modules; option space limited to the documented loader parameters")
TECHNIQUE = ("runtime monitoring: sys.addaudithook + sys.monitoring + sentinel files + interpreter-state snapshots around the "
             "real loader/CLI/Git entry points, with enumerated import-time fault injection in generated packages")
REQUIRED_COUNTERS = ["static_cases_on_compiled_package_init", "static_cases_on_compiled_init_in_regular_package",
                     "packages_with[subpackage-init]", "packages_with[top-init]", "packages_with[leaf-below-compiled-init]",
                     "packages_with[source-subpackage-below-compiled-init]", "packages_with[compiled-init-below-compiled-init]",
                     "packages_with[leaf-next-to-py]", "packages_with[leaf-next-to-pyi]", "packages_with[init-next-to-py-init]",
                     "packages_with[init-next-to-pyi-init]", "packages_with[init-only-file-of-directory]",
                     "packages_with[leaf-only-file-of-directory]", "packages_with[unparseable-init]",
                     "packages_with[namespace-subdir-init]", "packages_with[portion-subpackage-init]",
                     "static_api_cases", "static_cli_inprocess_cases", "static_cli_subprocess_cases",
                     "static_loader_cases", "static_tmp_package_cases", "static_git_api_cases",
                     "static_cli_check_inprocess_cases", "static_cli_check_subprocess_cases", "static_split_path_cases",
                     "git_ref_with_compiled_module_loaded_statically", "cli_check_compared_two_versions",
                     "cli_check_on_refs_with_compiled_module", "tmp_package_loaded_statically",
                     "fault_point_reached[git]", "fault_point_reached[loader]",
                     "audit_witness_consulted", "py_start_witness_consulted", "sentinel_dirs_checked",
                     "state_snapshots_compared", "sys_path_identity_checked", "fault_cases", "fault_point_reached",
                     "not_found_cases", "control_audit_import_fired", "control_audit_exec_fired",
                     "control_py_start_fired", "control_sentinel_fired", "control_state_delta_seen",
                     "control_compiled_init_package_imported",
                     "compiled_module_present_in_tree", "external_packages_loaded_statically",
                     "audit_exec_events_under_inspection"]
EXHAUSTIVE = {"quick": False, "thorough": False}
ASSUMPTIONS = ["execution of analysed code is witnessed by at least one of: audit `import`/`exec` events, PY_START events, "
               "sentinel files, sys.modules / environment / sys.path deltas (validated per shard on a control import)",
               "documented failure types of a load are LoadingError and ImportError (incl. ModuleNotFoundError); the "
               "statement itself only requires the import path to be restored",
               "the option and fault spaces are enumerated completely per package; packages themselves are sampled"]
SHARD_TIMEOUT = {"quick": 600, "thorough": 3600}

EXT_SUFFIX = sysconfig.get_config_var("EXT_SUFFIX") or ".so"
MISSING = "vf_c15_missing_dependency_zz"

# ------------------------------------------------------------------------------------------
# option spaces
API_OPTIONS = [
    {"resolve_aliases": ra, "resolve_external": re_, "resolve_implicit": ri, "submodules": sub,
     "find_stubs_package": st, "store_source": src}
    for ra, re_, ri, sub, st, src in itertools.product([False, True], [None, True, False], [False, True],
                                                       [True, False], [False, True], [True, False])
]
CLI_OPTIONS = [
    {"resolve_aliases": ra, "resolve_external": re_, "resolve_implicit": ri, "find_stubs_package": st}
    for ra, re_, ri, st in itertools.product([False, True], [None, True, False], [False, True], [False, True])
]
GIT_OPTIONS = [
    {"resolve_aliases": ra, "resolve_external": re_, "resolve_implicit": ri, "submodules": sub, "find_stubs_package": st}
    for ra, re_, ri, sub, st in itertools.product([False, True], [None, True, False], [False, True], [True, False],
                                                  [False, True])
]
TMP_OPTIONS = [
    {"resolve_aliases": ra, "resolve_external": re_, "resolve_implicit": ri, "store_source": src}
    for ra, re_, ri, src in itertools.product([True, False], [True, None, False], [False, True], [True, False])
]
FORMS = ["name", "dotted", "path", "abs-str"]
PATH_MODES = ["search_paths", "sys_path"]
GIT_REFS = ["HEAD", "v0.1.0", "release/next", "HEAD~1"]   # the tag and HEAD~1 are the older commit
GIT_FORMS = ["name", "dotted", "relpath"]
CHECK_AGAINST = [None, "v0.1.0", "HEAD~1"]                  # None: `griffe check` picks the latest tag itself
CHECK_BASE = [None, "HEAD", "release/next"]                 # None: the new version is loaded from the working tree
CHECK_STYLES = [None, "oneline", "verbose", "markdown", "github"]
COMPILED_INIT_PLACEMENTS = {"subpackage-init", "compiled-init-below-compiled-init", "init-next-to-py-init", "init-next-to-pyi-init",
                            "init-only-file-of-directory", "namespace-subdir-init", "portion-subpackage-init", "top-init"}
INPROCESS = ("api", "api-loader", "api-tmp", "api-git", "cli", "cli-check")
COUNTER_OF = {"api": "static_api_cases", "api-loader": "static_loader_cases", "api-tmp": "static_tmp_package_cases",
              "api-git": "static_git_api_cases", "cli": "static_cli_inprocess_cases",
              "cli-check": "static_cli_check_inprocess_cases", "cli-subprocess": "static_cli_subprocess_cases",
              "cli-check-subprocess": "static_cli_check_subprocess_cases"}
FAULT_KINDS = ["raise", "exit", "interrupt", "rebind", "missing"]
FAULT_ENTRIES = ["load", "loader", "load", "git", "load", "loader", "load"]   # entry point through which a fault case is loaded


def opt_key(o: dict) -> str:
    return ",".join(f"{k}={o[k]}" for k in sorted(o))


def cli_flags(o: dict, extra: int) -> list[str]:
    flags = ["-X"]
    if o["resolve_aliases"]:
        flags.append("-r")
    if o["resolve_implicit"]:
        flags.append("-I")
    if o["resolve_external"] is True:
        flags.append("-U")
    elif o["resolve_external"] is False:
        flags.append("--no-resolve-external")
    if o["find_stubs_package"]:
        flags.append("-B")
    if extra % 2:
        flags.append("-f")
    if extra % 3 == 1:
        flags.append("-y")
    if extra % 5 == 2:
        flags.append("-S")
    return flags


def check_flags(c: int) -> tuple[list[str], dict]:
    """Flags of one `griffe check -X` invocation (c enumerates against x base x stubs x sys.path x style)."""
    against, base = CHECK_AGAINST[c % 3], CHECK_BASE[(c // 3) % 3]
    style = CHECK_STYLES[c % 5]
    flags = ["-X", "-s", "sp"]
    if against:
        flags += ["-a", against]
    if base:
        flags += ["-b", base]
    if (c // 9) % 2 or c % 2:
        flags.append("-B")
    if c % 4 == 1:
        flags.append("-y")
    if style:
        flags += ["-f", style]
    elif c % 7 == 3:
        flags.append("-v")
    return flags, {"against": against, "base_ref": base, "find_stubs_package": "-B" in flags, "append_sys_path": "-y" in flags,
                   "style": style}


# ------------------------------------------------------------------------------------------
# generated packages (literal: placeholders @SENT@ and @ALT@ are substituted when the tree is written)
def preamble(mod: str) -> str:
    key = "VF_C15_" + re.sub(r"\W", "_", mod).upper()
    return (f'open(__import__("os").path.join(@SENT@, "py-{mod}"), "a").write("x")\n'
            f'__import__("os").environ["{key}"] = "1"\n'
            f'__import__("sys").path.append("/vf-c15-marker/{mod}")\n')


def body(rng: random.Random, stem: str) -> str:
    out = f"\n\ndef f{stem}(x: int = {rng.randint(0, 9)}) -> int:\n    \"\"\"Function of {stem}.\"\"\"\n    return x\n"
    out += f"\n\nclass K{stem}:\n    \"\"\"Class of {stem}.\"\"\"\n\n    attr: int = {rng.randint(0, 9)}\n\n    def m(self, y=None):\n        return y\n"
    out += f"\nCONST_{stem.upper()} = {rng.randint(0, 99)}\n"
    return out


COMPILED_KINDS = ["pyc", "pyc", "tagged", "tagged", "untagged", "abi3", "pyd", "wintag", "pyo"]
NATIVE_SUFFIX = {"tagged": EXT_SUFFIX, "untagged": ".so", "abi3": ".abi3.so", "pyd": ".pyd", "wintag": ".cp312-win_amd64.pyd"}


def native_rel(item) -> str:  # noqa: ANN001
    """Entries of pkg["native"]: "dir/name" (module `name`, ABI-tagged file) or {"rel", "init", "suffix"}."""
    return item if isinstance(item, str) else item["rel"]


def native_parts(item) -> tuple[str, str, str]:  # noqa: ANN001
    """(path without suffix, name of the PyInit function = last part of the module name, file suffix)."""
    if isinstance(item, str):
        return item, os.path.basename(item), EXT_SUFFIX
    return item["rel"], item["init"], NATIVE_SUFFIX[item["suffix"]]


def compiled_names(pkg: dict) -> set[str]:
    """Module names (last part) of every compiled / sourceless module of the package."""
    out = {native_parts(n)[1] for n in pkg["native"]}
    for rel in pkg["pyc"]:
        stem = os.path.basename(rel).rsplit(".", 1)[0]
        out.add(os.path.basename(os.path.dirname(rel)) if stem == "__init__" else stem)
    return out


def gen_static_pkg(rng: random.Random, tag: str) -> dict:
    top, ext, ext2, priv = f"vfk{tag}", f"vfe{tag}", f"vfg{tag}", f"_vfk{tag}"
    files: dict[str, str] = {}
    pyc: dict[str, str] = {}
    native: list[str] = []
    placements: list[str] = []
    layout = rng.choice(["package", "package", "package", "package", "namespace", "single", "cinit"])
    subs = ["a", "b"] + sorted(rng.sample(["c", "d", "e"], rng.randint(0, 2)))
    priv_shape = rng.choice(["none", "package", "py", "native", "native", "pyc"])
    ext_where = rng.choice(["sp", "sp", "alt"])
    owned = [top, ext, ext2, priv]

    def mod(rel: str, name: str, text: str, doc: bool = True) -> None:
        files[rel] = (f'"""Module {name}."""\n' if doc else "") + preamble(name) + text

    def compiled(label: str, rel: str, name: str, text: str = "", kinds: list[str] = COMPILED_KINDS) -> None:
        """A compiled / sourceless module `name` at `rel` (no suffix): bytecode-only or an extension-module file name."""
        kind = rng.choice(kinds)
        stem = name.rsplit(".", 1)[-1]
        if kind in ("pyc", "pyo"):
            pyc[f"{rel}.{kind}"] = preamble(name) + (text or body(rng, stem.strip("_") or "m"))
        else:
            native.append({"rel": rel, "init": stem, "suffix": kind})
        placements.append(f"{label}:{kind}")

    imports = (f"from {top}.a import fa\nfrom .b import Kb as BB\nfrom {ext} import fext, Kext\nfrom {ext}.deep import Kdeep\n"
               f"from {ext}.star import *\nimport {ext}.deep\nfrom {ext2} import fg\n")
    exported = ["fa", "BB", "fext", "Kext", "Kdeep", "fg", "ftop"]
    if priv_shape != "none":
        imports += f"from {priv} import fpriv\n"
        exported.append("fpriv")
    init_text = imports + f"__all__ = {exported!r}\n" + body(rng, "top")
    if layout == "single":
        mod(f"sp/{top}.py", top, init_text.replace(f"from {top}.a import fa\n", "").replace("from .b import Kb as BB\n", "")
            .replace("'fa', 'BB', ", ""))
        n_modules = 1
    else:
        if layout == "package":
            mod(f"sp/{top}/__init__.py", top, init_text)
        elif layout == "cinit":   # the top-level __init__ itself is compiled / sourceless
            compiled("top-init", f"sp/{top}/__init__", top, init_text, ["pyc", "pyc", "pyo", "tagged", "untagged", "pyd"])
        for s in subs:
            other = "b" if s != "b" else "a"
            mod(f"sp/{top}/{s}.py", f"{top}.{s}", f"from .{other} import K{other} as Other\nfrom {ext} import fext as e_{s}\n" + body(rng, s))
        n_modules = len(subs) + (layout == "package")
        has_sub = rng.random() < 0.75
        if has_sub:
            mod(f"sp/{top}/sub/__init__.py", f"{top}.sub", f"from ..a import fa as up\nfrom {ext2} import fg as g_up\n__all__ = ['up', 'g_up']\n" + body(rng, "sub"))
            mod(f"sp/{top}/sub/leaf.py", f"{top}.sub.leaf", f"from {top}.sub import up\nfrom {ext}.star import *\n" + body(rng, "leaf"))
            n_modules += 2
            if rng.random() < 0.4:
                native.append(f"sp/{top}/sub/_speed")
        if rng.random() < 0.85:
            native.append(f"sp/{top}/_native")
        if rng.random() < 0.7:
            pyc[f"sp/{top}/bytec.pyc"] = f'"""Sourceless."""\n' + preamble(f"{top}.bytec") + "from . import a\n" + body(rng, "bytec")
        if rng.random() < 0.5:
            mod(f"sp/{top}/a.pyi", f"{top}.a(stub)", "def fa(x: int = ...) -> int: ...\nclass Ka:\n    attr: int\n    def m(self, y: object = ...) -> object: ...\n", doc=False)
        if rng.random() < 0.5:
            mod(f"sp/{top}/scripts/run.py", f"{top}.scripts.run", "import sys\nsys.exit(9)\n")
        if rng.random() < 0.3:
            mod(f"sp/{top}/broken.py", f"{top}.broken", "def broken(:\n    pass\n")
        if rng.random() < 0.3:
            mod(f"sp/{top}/__main__.py", f"{top}.__main__", "raise SystemExit(4)\n")
        # ---- where else compiled / sourceless / unparseable files sit (each placement drawn independently)
        if rng.random() < 0.55:   # a sub-package whose __init__ is compiled, with source modules and packages below it
            compiled("subpackage-init", f"sp/{top}/cpk/__init__", f"{top}.cpk", "from . import impl\n" + body(rng, "cpk"))
            mod(f"sp/{top}/cpk/impl.py", f"{top}.cpk.impl", f"from {ext} import fext as e_impl\n" + body(rng, "impl"))
            if rng.random() < 0.5:
                compiled("leaf-below-compiled-init", f"sp/{top}/cpk/fast", f"{top}.cpk.fast")
            if rng.random() < 0.6:
                mod(f"sp/{top}/cpk/inner/__init__.py", f"{top}.cpk.inner", "from .mod import fmod\n" + body(rng, "inner"))
                mod(f"sp/{top}/cpk/inner/mod.py", f"{top}.cpk.inner.mod", body(rng, "mod"))
                placements.append("source-subpackage-below-compiled-init:py")
            if rng.random() < 0.5:
                compiled("compiled-init-below-compiled-init", f"sp/{top}/cpk/deep/__init__", f"{top}.cpk.deep")
                mod(f"sp/{top}/cpk/deep/low.py", f"{top}.cpk.deep.low", body(rng, "low"))
            if rng.random() < 0.5 and layout != "namespace":
                files[f"sp/{top}/__init__.py" if layout == "package" else f"sp/{top}/a.py"] += f"from {top}.cpk import fcpk\n"
        if rng.random() < 0.4:
            compiled("leaf-next-to-py", f"sp/{top}/a", f"{top}.a")
        if rng.random() < 0.4:
            compiled("leaf-next-to-pyi", f"sp/{top}/dupi", f"{top}.dupi")
            mod(f"sp/{top}/dupi.pyi", f"{top}.dupi(stub)", "def fdupi(x: int = ...) -> int: ...\n", doc=False)
        if has_sub and rng.random() < 0.4:
            compiled("init-next-to-py-init", f"sp/{top}/sub/__init__", f"{top}.sub")
        if rng.random() < 0.35:
            compiled("init-next-to-pyi-init", f"sp/{top}/cpi/__init__", f"{top}.cpi")
            mod(f"sp/{top}/cpi/__init__.pyi", f"{top}.cpi(stub)", "def fcpi(x: int = ...) -> int: ...\n", doc=False)
            mod(f"sp/{top}/cpi/impl.py", f"{top}.cpi.impl", body(rng, "cpiimpl"))
        if rng.random() < 0.4:
            compiled("init-only-file-of-directory", f"sp/{top}/onlyc/__init__", f"{top}.onlyc")
        if rng.random() < 0.4:
            compiled("leaf-only-file-of-directory", f"sp/{top}/lone/solo", f"{top}.lone.solo")
        if rng.random() < 0.3:   # unparseable source in the __init__ position, importable-looking module below it
            mod(f"sp/{top}/bad/__init__.py", f"{top}.bad", rng.choice(["def broken(:\n    pass\n", "x = (\n", "\x00\n"]))
            mod(f"sp/{top}/bad/ok.py", f"{top}.bad.ok", body(rng, "ok"))
            placements.append("unparseable-init:py")
        if rng.random() < 0.4:   # a directory without __init__ (namespace-like) holding compiled modules and a compiled package
            compiled("namespace-subdir-leaf", f"sp/{top}/nsd/cmod", f"{top}.nsd.cmod")
            compiled("namespace-subdir-init", f"sp/{top}/nsd/npk/__init__", f"{top}.nsd.npk")
            mod(f"sp/{top}/nsd/npk/impl.py", f"{top}.nsd.npk.impl", body(rng, "npkimpl"))
        if rng.random() < (0.85 if layout == "namespace" else 0.3):   # a second portion of the package in another directory
            files[f"sp/vf_portion_{top}.pth"] = "@PORT@\n"
            mod(f"port/{top}/pa.py", f"{top}.pa", f"from {ext2} import fg as g_pa\n" + body(rng, "pa"))
            compiled("portion-leaf", f"port/{top}/pc", f"{top}.pc")
            compiled("portion-subpackage-init", f"port/{top}/ppk/__init__", f"{top}.ppk")
            mod(f"port/{top}/ppk/impl.py", f"{top}.ppk.impl", body(rng, "ppkimpl"))
    if rng.random() < 0.6:
        mod(f"sp/{top}-stubs/__init__.pyi", f"{top}-stubs", "def ftop(x: int = ...) -> int: ...\n", doc=False)
        if layout != "single":
            mod(f"sp/{top}-stubs/a.pyi", f"{top}-stubs.a", "def fa(x: int = ...) -> int: ...\n", doc=False)
    # external package (regular), possibly only reachable through an editable-install finder module
    ebase = "sp" if ext_where == "sp" else "alt"
    mod(f"{ebase}/{ext}/__init__.py", ext, f"from {ext2} import fg\nfrom .deep import Kdeep as Deep\n__all__ = ['fext', 'Kext', 'fg', 'Deep']\n" + body(rng, "ext"))
    mod(f"{ebase}/{ext}/deep.py", f"{ext}.deep", body(rng, "deep"))
    mod(f"{ebase}/{ext}/star.py", f"{ext}.star", "__all__ = ['fstar', 'Kstar']\n" + body(rng, "star"))
    if rng.random() < 0.5:
        native.append(f"{ebase}/{ext}/_native")
    if ext_where == "alt":
        finder = f"__editable___{ext}_finder"
        files[f"sp/{finder}.py"] = preamble(finder) + f"MAPPING = {{'{ext}': '@ALT@/{ext}'}}\n"
        files[f"sp/__editable__.{ext}.pth"] = f"import {finder}\n"
        owned.append(finder)
    # second external: package or single file
    if rng.random() < 0.5:
        mod(f"sp/{ext2}/__init__.py", ext2, body(rng, "g"))
    else:
        mod(f"sp/{ext2}.py", ext2, body(rng, "g"))
    # private sibling (the `ast` / `_ast` situation): loaded even with resolve_external=None
    if priv_shape == "package":
        mod(f"sp/{priv}/__init__.py", priv, body(rng, "priv"))
        native.append(f"sp/{priv}/_native")
    elif priv_shape == "py":
        mod(f"sp/{priv}.py", priv, body(rng, "priv"))
    elif priv_shape == "native":
        native.append(f"sp/{priv}")
    elif priv_shape == "pyc":
        pyc[f"sp/{priv}.pyc"] = preamble(priv) + body(rng, "priv")
    compiled_in_top = any(native_rel(n).startswith(f"sp/{top}/") for n in native) or any(n.startswith(f"sp/{top}/") for n in pyc)
    return {"top": top, "owned": owned, "files": files, "pyc": pyc, "native": native, "layout": layout,
            "placements": sorted(placements),
            "dotted": f"{top}.a" if layout != "single" else top, "priv_shape": priv_shape,
            "others": [n for n in (ext, ext2, priv if priv_shape != "none" else None) if n],
            "nontrivial": bool(n_modules + len(native) + len(pyc) >= 3 and compiled_in_top)}


def fault_stmt(kind: str) -> str:
    return {"raise": 'raise RuntimeError("vf fault")\n', "exit": '__import__("sys").exit(3)\n',
            "interrupt": "raise KeyboardInterrupt\n",
            "rebind": '__import__("sys").path = ["/vf-c15-rebound"]\nraise RuntimeError("vf fault after rebinding sys.path")\n',
            "missing": f"import {MISSING}\n"}[kind]


def gen_fault_pkg(rng: random.Random, tag: str, n: int, k: int, kind: str, trigger: str) -> dict:
    """n Python modules imported in a fixed order by a compiled trigger module; module k carries the fault."""
    top = f"vff{tag}"
    order = [(f"sp/{top}/__init__.py", top), (f"sp/{top}/a.py", f"{top}.a"), (f"sp/{top}/b.py", f"{top}.b"),
             (f"sp/{top}/sub/__init__.py", f"{top}.sub"), (f"sp/{top}/sub/c.py", f"{top}.sub.c"),
             (f"sp/{top}/d.py", f"{top}.d")]
    if n < 5:
        order = [o for o in order if "/sub/" not in o[0]][:n]
    else:
        order = order[:n]
    files = {}
    for i, (rel, name) in enumerate(order, 1):
        text = f'"""Module {name}."""\n' + preamble(name)
        if i == k:
            text += fault_stmt(kind)
        files[rel] = text + body(rng, name.rsplit(".", 1)[-1].replace(top, "top"))
    imports = "".join(f"import {name}\n" for _rel, name in order[1:])
    pyc, native = {}, []
    if trigger == "pyc":
        pyc[f"sp/{top}/zc.pyc"] = preamble(f"{top}.zc") + imports + "def fz(): ...\n"
    else:
        native.append(f"sp/{top}/_native")
    return {"top": top, "owned": [top, MISSING], "files": files, "pyc": pyc, "native": native,
            "fault_module": order[k - 1][1], "n": len(order)}


# ------------------------------------------------------------------------------------------
# materialisation
C_SOURCE = r"""
#include <Python.h>
#include <stdio.h>
#include <stdlib.h>
static struct PyModuleDef def = {PyModuleDef_HEAD_INIT, "%(name)s", "vf fixture", -1, 0};
PyMODINIT_FUNC PyInit_%(name)s(void) {
    const char *dir = getenv("VF_C15_SENT");
    if (dir) {
        char p[4096];
        snprintf(p, sizeof p, "%%s/native-%(name)s", dir);
        FILE *f = fopen(p, "a");
        if (f) { fputs("x", f); fclose(f); }
    }
    PyObject *m = PyModule_Create(&def);
    if (m) PyModule_AddIntConstant(m, "answer", 42);
    return m;
}
"""
_NATIVE_CACHE: dict[str, bytes | None] = {}
_TOOLCHAIN = {"state": None}


def build_native(name: str, work: str) -> bytes | None:
    if name in _NATIVE_CACHE:
        return _NATIVE_CACHE[name]
    blob = None
    cc = shutil.which("gcc") or shutil.which("cc")
    inc = sysconfig.get_paths().get("include")
    if cc and inc and os.path.exists(os.path.join(inc, "Python.h")) and _TOOLCHAIN["state"] != "broken":
        src = os.path.join(work, f"{name}.c")
        out = os.path.join(work, f"{name}.so")
        with open(src, "w") as fh:
            fh.write(C_SOURCE % {"name": name})
        proc = subprocess.run([cc, "-shared", "-fPIC", "-O0", "-I", inc, "-o", out, src], capture_output=True, check=False)
        if proc.returncode == 0:
            with open(out, "rb") as fh:
                blob = fh.read()
            _TOOLCHAIN["state"] = "real"
        else:
            _TOOLCHAIN["state"] = "broken"
    _NATIVE_CACHE[name] = blob
    return blob


class Tree:
    def __init__(self, pkg: dict, base: str) -> None:
        self.root = tempfile.mkdtemp(prefix="case-", dir=base)
        self.sent = os.path.join(self.root, "sent")
        self.sp = os.path.join(self.root, "sp")
        self.alt = os.path.join(self.root, "alt")
        self.work = os.path.join(self.root, "build")
        self.empty = os.path.join(self.root, "empty")   # a search path in which nothing can be found
        self.port = os.path.join(self.root, "port")     # second portion of the package, reached through a .pth file
        for d in (self.sent, self.sp, self.alt, self.work, self.empty, self.port):
            os.makedirs(d)
        self.fixture = set()
        for rel, text in pkg["files"].items():
            self._write(rel, self._subst(text).encode())
        for rel, text in pkg["pyc"].items():
            cfile = os.path.join(self.root, rel)
            would_be = os.path.splitext(cfile)[0] + ".py"   # becomes co_filename (a same-named source may sit there)
            os.makedirs(os.path.dirname(cfile), exist_ok=True)
            src = os.path.join(self.work, "bytecode-source.py")
            with open(src, "w") as fh:
                fh.write(self._subst(text))
            py_compile.compile(src, cfile=cfile, dfile=would_be, doraise=True)
            os.unlink(src)
        for item in pkg["native"]:
            rel, name, suffix = native_parts(item)
            blob = build_native(name, self.work)
            self.fixture.add("real C extension (gcc)" if blob else "fake .so bytes (no toolchain)")
            self._write(rel + suffix, blob or b"\x7fELF this is not a shared object")
        self.listing = self.snapshot()

    def _subst(self, text: str) -> str:
        return text.replace("@SENT@", repr(self.sent)).replace("@ALT@", self.alt).replace("@PORT@", self.port)

    def _write(self, rel: str, data: bytes) -> None:
        p = os.path.join(self.root, rel)
        os.makedirs(os.path.dirname(p), exist_ok=True)
        with open(p, "wb") as fh:
            fh.write(data)

    def ensure_repo(self, pkg: dict, history: bool = True) -> None:
        """Make the tree a throw-away Git repository in which everything under sp/ and alt/ is tracked (compiled and
        sourceless modules included).  With ``history`` there are two commits: the older one (tag ``v0.1.0``,
        ``HEAD~1``) differs from the newer one (``main``, ``release/next``, the working tree) in the signature of every
        generated ``f<stem>`` function, so that `griffe check` has something to report when it really loaded both."""
        from vf.mon import gitstate

        gitstate.export_env()
        if os.path.isdir(os.path.join(self.root, ".git")):
            return
        git = gitstate.git
        git(self.root, "init", "-q", ".")
        tracked = [d for d in ("sp", "alt", "port") if os.listdir(os.path.join(self.root, d))]
        if history:
            top = pkg["top"]
            olds = {}
            for rel in self.listing:
                if rel.endswith(".py") and (rel.startswith(f"sp/{top}/") or rel == f"sp/{top}.py"):
                    p = os.path.join(self.root, rel)
                    with open(p, encoding="utf8") as fh:
                        text = fh.read()
                    new = re.sub(r"def (f\w+)\(x: int = ", r"def \1(vf_old_param, x: int = ", text)
                    if new != text:
                        olds[p] = text
                        with open(p, "w", encoding="utf8") as fh:
                            fh.write(new)
            git(self.root, "add", "-A", "-f", "--", *tracked)
            git(self.root, "commit", "-q", "--allow-empty", "-m", "old", date=gitstate.EPOCH)
            git(self.root, "tag", "v0.1.0", date=gitstate.EPOCH + 1)
            for p, text in olds.items():
                with open(p, "w", encoding="utf8") as fh:
                    fh.write(text)
        git(self.root, "add", "-A", "-f", "--", *tracked)
        git(self.root, "commit", "-q", "--allow-empty", "-m", "new", date=gitstate.EPOCH + 1000)
        git(self.root, "branch", "release/next")

    def git_refs(self) -> list[str]:
        from vf.mon import gitstate

        return sorted(gitstate.git(self.root, "for-each-ref", "--format=%(refname)").split())

    def snapshot(self) -> list[str]:
        out = []
        for base in (self.sp, self.alt, self.port):
            for root, _dirs, names in os.walk(base):
                out.extend(os.path.relpath(os.path.join(root, n), self.root) for n in names)
        return sorted(out)

    def sentinels(self) -> list[str]:
        return sorted(os.listdir(self.sent))

    def clear_sentinels(self) -> None:
        for n in os.listdir(self.sent):
            os.unlink(os.path.join(self.sent, n))

    def remove(self) -> None:
        shutil.rmtree(self.root, ignore_errors=True)


class Ctx:
    def __init__(self, rec) -> None:  # noqa: ANN001
        self.rec = rec
        self.base = os.path.realpath(tempfile.mkdtemp(prefix="vf-c15-"))
        # Temporary directories made by the code under test (Git worktrees of load_git, the packages of
        # temporary_visited_package) are placed below the watched prefix, so that code executed from them is
        # attributed to the analysed tree by the exec / PY_START witnesses as well (trees themselves pass dir=base).
        self.tmp = os.path.join(self.base, "tmp")
        os.makedirs(self.tmp)
        self.old_tmpdir = os.environ.get("TMPDIR")
        os.environ["TMPDIR"] = self.tmp
        tempfile.tempdir = self.tmp
        self.witness = ExecWitness()
        self.witness.install(self.base)

    def close(self) -> None:
        tempfile.tempdir = None
        if os.environ.get("TMPDIR") == self.tmp:
            if self.old_tmpdir is None:
                del os.environ["TMPDIR"]
            else:
                os.environ["TMPDIR"] = self.old_tmpdir
        shutil.rmtree(self.base, ignore_errors=True)


# ------------------------------------------------------------------------------------------
# running one case
def objspec_for(tree: Tree, pkg: dict, target: str, form: str) -> object:
    if form == "dotted" and target == pkg["top"]:
        return pkg.get("dotted", target)
    if form == "path" and target == pkg["top"] and pkg.get("layout") != "single":
        return Path(tree.sp, target)
    if form == "abs-str" and target == pkg["top"] and pkg.get("layout") != "single":
        return os.path.join(tree.sp, target)
    return target


def path_kw(tree: Tree, path_mode: str) -> dict:
    """search_paths: the tree / nothing (the loader then uses sys.path, which holds the tree) / `split`: a directory
    in which nothing can be found while the tree is importable through sys.path (finder fails, Python would succeed)."""
    if path_mode == "search_paths":
        return {"search_paths": [tree.sp]}
    if path_mode == "split":
        return {"search_paths": [tree.empty]}
    return {}


def call_api(tree: Tree, pkg: dict, target: str, form: str, path_mode: str, options: dict, inspection: dict):
    import griffe

    kw = dict(options)
    kw.update(inspection)
    kw.update(path_kw(tree, path_mode))
    return griffe.load(objspec_for(tree, pkg, target, form), **kw)


def call_loader(tree: Tree, pkg: dict, case: dict, inspection: dict):
    """One GriffeLoader used the way the command line uses it: several loads, then one alias resolution."""
    import griffe

    o = case["options"]
    kw = {"store_source": o.get("store_source", True), **inspection, **path_kw(tree, case["path_mode"])}
    loader = griffe.GriffeLoader(**kw)
    result, errors = None, []
    for target in case["targets"]:
        try:
            r = loader.load(objspec_for(tree, pkg, target, case["form"]), submodules=o.get("submodules", True),
                            find_stubs_package=o.get("find_stubs_package", False))
            result = r if result is None else result
        except Exception as exc:  # noqa: BLE001
            if type(exc).__name__ in ("CaseTimeout", "StepBudgetExceeded") or len(case["targets"]) == 1:
                raise
            errors.append(type(exc).__name__)
    if o.get("resolve_aliases"):
        loader.resolve_aliases(implicit=o["resolve_implicit"], external=o["resolve_external"])
    loader.stats()
    return result, "returned" + ("".join(" +" + e for e in sorted(set(errors))))


def tmp_modules(tree: Tree, pkg: dict) -> dict:
    """The Python/stub sources of the top package as the `modules` argument of griffe.temporary_visited_package."""
    top = pkg["top"]
    if pkg.get("layout") == "single":
        return {"__init__.py": tree._subst(pkg["files"][f"sp/{top}.py"])}
    pre = f"sp/{top}/"
    return {rel[len(pre):]: tree._subst(text) for rel, text in pkg["files"].items()
            if rel.startswith(pre) and rel.endswith((".py", ".pyi"))}


def call_tmp_package(tree: Tree, pkg: dict, case: dict):
    """griffe.temporary_visited_package: the Python/stub sources of the package are written to a directory of griffe's
    own and loaded from there (the external packages and the private sibling stay importable through sys.path only)."""
    import griffe

    o = case["options"]
    mods = tmp_modules(tree, pkg)
    kw = {k: o[k] for k in ("resolve_aliases", "resolve_external", "resolve_implicit", "store_source")}
    if case.get("explicit", True):
        kw["allow_inspection"] = False   # otherwise the documented default (False) is relied upon
    with griffe.temporary_visited_package(pkg["top"], mods, init="__init__.py" in mods, **kw) as module:
        return module


def call_git(tree: Tree, pkg: dict, case: dict, inspection: dict):
    """griffe.load_git on the throw-away repository built from the tree (search paths relative to the worktree)."""
    import griffe

    target, form = case["target"], case["form"]
    if target == pkg["top"] and form == "dotted":
        objspec: object = pkg.get("dotted", target)
    elif target == pkg["top"] and form == "relpath" and pkg.get("layout") != "single":
        objspec = Path("sp", target)
    else:
        objspec = target
    repo = Path(tree.root) if case.get("repo_as") == "Path" else tree.root
    sp = [Path("sp")] if case.get("repo_as") == "Path" else ["sp"]
    return griffe.load_git(objspec, ref=case["ref"], repo=repo, search_paths=sp, **case["options"], **inspection)


def call_cli(argv: list[str]) -> str:
    """`griffe <argv>` in-process; the streams the command may wrap (colorama) are the harness's own throw-aways."""
    import contextlib
    import io

    from _griffe import cli

    sink = io.StringIO()
    try:
        with contextlib.redirect_stdout(sink), contextlib.redirect_stderr(sink):
            try:
                return f"exit {cli.main(argv)}"
            finally:
                if "colorama" in sys.modules:
                    sys.modules["colorama"].deinit()
    except SystemExit as exc:
        return f"SystemExit {exc.code}"


def walk_modules(obj, seen=None):  # noqa: ANN001
    seen = seen if seen is not None else set()
    if id(obj) in seen:
        return
    seen.add(id(obj))
    yield obj
    for m in obj.members.values():
        if not m.is_alias and m.is_module:
            yield from walk_modules(m, seen)


def run_inprocess(tree: Tree, pkg: dict, case: dict):
    """(result tree or None, outcome text) of one in-process entry point with inspection disallowed."""
    via = case["via"]
    static = {"allow_inspection": False}
    if via == "api":
        return call_api(tree, pkg, case["target"], case["form"], case["path_mode"], case["options"], static), "returned"
    if via == "api-loader":
        return call_loader(tree, pkg, case, static)
    if via == "api-tmp":
        return call_tmp_package(tree, pkg, case), "returned"
    if via == "api-git":
        return call_git(tree, pkg, case, static), "returned"
    if via == "cli":
        return None, call_cli(["dump", *case["flags"], "-s", tree.sp, "-o", os.path.join(tree.work, "dump.json"),
                               case["target"], *case.get("extra_targets", [])])
    if via == "cli-check":
        return None, call_cli(["check", *case["flags"], case["target"]])
    raise ValueError(via)


def run_static_case(ctx: Ctx, tree: Tree, pkg: dict, case: dict, dig: str) -> bool:  # noqa: C901, PLR0912, PLR0915
    """One load with inspection disallowed under all witnesses. Returns True when the case held."""
    rec = ctx.rec
    via = case["via"]
    owned = set(pkg["owned"])
    inserted = False
    uses_git = via in ("api-git", "cli-check", "cli-check-subprocess")
    if uses_git:
        tree.ensure_repo(pkg)
        refs_before = tree.git_refs()
    if via in INPROCESS and (case.get("path_mode") in ("sys_path", "split") or case.get("installed") or via == "api-tmp"):
        sys.path.insert(0, tree.sp)  # the user's own sys.path entry (package importable), set before the snapshot
        inserted = True
    cwd = os.getcwd()
    if via == "cli-check":
        os.chdir(tree.root)          # `griffe check` is run from the repository root (relative search path)
    os.environ["VF_C15_SENT"] = tree.sent
    snap = StateSnapshot()
    outcome = "returned"
    result = None
    sub_doc = None
    try:
        with case_watchdog(120):
            if via in INPROCESS:
                ctx.witness.arm(owned)
                try:
                    result, outcome = run_inprocess(tree, pkg, case)
                except BaseException as exc:  # noqa: BLE001
                    if type(exc).__name__ in ("CaseTimeout", "StepBudgetExceeded"):
                        raise
                    outcome = type(exc).__name__
                finally:
                    seen = ctx.witness.disarm()
            else:  # real `python -m griffe` subprocess under the same witnesses
                out = os.path.join(tree.work, "boot.json")
                if via == "cli-check-subprocess":
                    args, where = ["check", *case["flags"], case["target"]], tree.root
                else:
                    args, where = ["dump", *case["flags"], "-s", tree.sp, "-o", os.path.join(tree.work, "dump.json"),
                                   case["target"]], tree.work
                argv = [sys.executable, "-m", "vf.mon.c15boot", out, ctx.base, ",".join(sorted(owned)), "--", *args]
                env = dict(os.environ)
                proc = subprocess.run(argv, env=env, capture_output=True, check=False, cwd=where, timeout=300,
                                      stdin=subprocess.DEVNULL)
                if not os.path.exists(out):
                    rec.inconclusive(case, f"CLI subprocess wrote no observation file rc={proc.returncode}: "
                                           f"{proc.stderr.decode(errors='replace')[-400:]}")
                    return True
                with open(out) as fh:
                    sub_doc = json.load(fh)
                os.unlink(out)
                if not sub_doc["from_repo"]:
                    rec.inconclusive(case, "CLI subprocess imported griffe from outside the repository under test")
                    return True
                seen = sub_doc["witness"]
                outcome = f"exit {sub_doc['exit']}" if sub_doc["error"] is None else sub_doc["error"]
    except BaseException:
        os.chdir(cwd)
        raise
    finally:
        ctx.witness.armed = False
    problems = []
    rec.count("audit_witness_consulted")
    if seen["imports"]:
        problems.append(f"audit: import event(s) for analysed modules {sorted(set(seen['imports']))[:6]}")
    if seen["execs"]:
        problems.append(f"audit: exec event(s) for code of the analysed tree {sorted(set(seen['execs']))[:6]}")
    if (sub_doc["mon_active"] if sub_doc else ctx.witness.mon_active):
        rec.count("py_start_witness_consulted")
        if seen["py_starts"]:
            problems.append(f"sys.monitoring: code of the analysed tree started {sorted(set(seen['py_starts']))[:6]}")
    rec.count("sentinel_dirs_checked")
    sent = tree.sentinels()
    if sent:
        problems.append(f"sentinel side effects happened: {sent[:8]}")
    rec.count("state_snapshots_compared")
    rec.count("sys_path_identity_checked")
    deltas = (sub_doc["path_delta"] + sub_doc["other_delta"]) if sub_doc else \
        (snap.path_delta() + snap.other_delta(owned, ctx.witness.prefix))
    problems.extend(deltas)
    klass = "static-" + via
    rec.count(f"audit_import_events[{klass}]", len(seen["imports"]))
    rec.count(f"audit_exec_events[{klass}]", len(seen["execs"]))
    rec.count(f"audit_compile_events_parse_only[{klass}]", seen["compiles"])
    rec.count(f"py_start_events[{klass}]", len(seen["py_starts"]))
    rec.add_to_set(f"outcomes[{klass}]", outcome.split(":")[0][:60])
    # what the returned tree says about compiled modules / external packages (evidence, not verdict)
    names = compiled_names(pkg)
    if result is not None:
        try:
            coll = result.modules_collection
            if any(o in coll for o in pkg["others"]):
                rec.count("external_packages_loaded_statically")
            if names:
                rec.count("compiled_module_present_in_tree")
                top = coll[pkg["top"]] if pkg["top"] in coll else None
                if top is not None and any(isinstance(m.filepath, Path) and m.filepath.suffix not in (".py", ".pyi")
                                           for m in walk_modules(top)):
                    rec.count("compiled_module_appears_as_member")
                else:
                    rec.count("compiled_module_skipped_in_result")
                    if via == "api-git" and top is not None:
                        rec.count("git_ref_with_compiled_module_loaded_statically")
        except Exception:  # noqa: BLE001, S110
            pass
    if via == "api-tmp" and result is not None:
        rec.count("tmp_package_loaded_statically")
    if case.get("path_mode") == "split":
        rec.count("static_split_path_cases")
        if outcome != "ModuleNotFoundError" and len(case.get("targets", [0])) == 1:
            problems.append(f"the finder cannot locate {case.get('target') or case.get('targets')} in the given search path "
                            f"(only Python's own import path could): expected ModuleNotFoundError, got {outcome}")
    if via in ("cli-check", "cli-check-subprocess"):
        if outcome == "exit 1":
            rec.count("cli_check_compared_two_versions")   # breakages were reported: both versions were really loaded
            if names:
                rec.count("cli_check_on_refs_with_compiled_module")
        elif outcome == "exit 0":
            rec.count("cli_check_found_no_difference")
    if uses_git:
        # harness-side sanity (the exact clean-up contract is C20's): judged cases must start from the same repository
        if tree.git_refs() != refs_before:
            rec.count("git_refs_left_behind_by_load")
    # harness hygiene, after judgement
    tree.clear_sentinels()
    snap.restore(owned)
    if os.getcwd() != cwd:
        os.chdir(cwd)
    if inserted:
        try:
            sys.path.remove(tree.sp)
        except ValueError:
            pass
    if problems:
        rec.fail(case, problems[0], observed={"all": problems[:8], "outcome": outcome, "witness": {k: v if isinstance(v, int) else v[:8] for k, v in seen.items()}},
                 expected="no execution, no state change", nontrivial=pkg.get("nontrivial", False), tags=(klass,))
        return False
    rec.count(COUNTER_OF[via])
    labels = {p.split(":")[0] for p in pkg.get("placements", ())}
    if labels & COMPILED_INIT_PLACEMENTS and case["options"].get("submodules", True) is not False:
        rec.count("static_cases_on_compiled_package_init")
        if "subpackage-init" in labels and pkg.get("layout") == "package":
            rec.count("static_cases_on_compiled_init_in_regular_package")
    rec.ok(case, nontrivial=pkg.get("nontrivial", False), tags=(klass,), dig=dig)
    return True


DEFAULT_PLAN = {"subprocess_per_pkg": 2, "loader_per_pkg": 24, "tmp_per_pkg": 12, "git_per_pkg": 6, "check_per_pkg": 3,
                "check_subprocess_per_pkg": 1}


def static_cases_for(pkg: dict, pidx: int, plan: dict):  # noqa: C901, PLR0912
    """Every enumerated (entry point, option set) of one package, without the package literal."""
    top = pkg["top"]
    others = pkg["others"]
    absent = f"vf_c15_absent_{top}"
    plan = {**DEFAULT_PLAN, **plan}
    # griffe.load: all 96 option sets
    for i, o in enumerate(API_OPTIONS):
        v = i + pidx
        yield {"kind": "static", "via": "api", "target": top, "options": o, "form": FORMS[v % 4],
               "path_mode": PATH_MODES[(v // 4) % 2]}
    for j, other in enumerate(others + [absent]):
        for i in (0, 17, 42, 95):
            yield {"kind": "static", "via": "api", "target": other, "options": API_OPTIONS[(i + j) % 96], "form": "name",
                   "path_mode": PATH_MODES[(i + j) % 2]}
    # griffe.load / GriffeLoader where only Python's own import path (not the search path) leads to the package
    for j, target in enumerate([top, *others]):
        yield {"kind": "static", "via": "api" if (j + pidx) % 2 else "api-loader", "target": target, "targets": [target],
               "options": API_OPTIONS[(31 * (pidx + j)) % 96], "form": "name", "path_mode": "split"}
    # GriffeLoader used directly: a rotating part of the 96 option sets, plus sessions (several loads, one resolution)
    n = plan["loader_per_pkg"]
    for s in range(n):
        i = (pidx * n + s) * 5 % 96
        yield {"kind": "static", "via": "api-loader", "targets": [top], "options": API_OPTIONS[i], "form": FORMS[(s + pidx) % 4],
               "path_mode": PATH_MODES[(s // 4 + pidx) % 2]}
    for s, i in enumerate((7, 52, 90)):
        order = [top, *others, absent] if s != 1 else [absent, *reversed(others), top]
        yield {"kind": "static", "via": "api-loader", "targets": order, "options": API_OPTIONS[(i + pidx * 13) % 96],
               "form": "name", "path_mode": PATH_MODES[(s + pidx) % 2]}
    # griffe.temporary_visited_package
    n = plan["tmp_per_pkg"]
    for s in range(n):
        i = (pidx * n + s) * 5 % 24
        yield {"kind": "static", "via": "api-tmp", "target": top, "options": TMP_OPTIONS[i], "explicit": bool((s + pidx) % 3)}
    # command line: dump
    for i, o in enumerate(CLI_OPTIONS):
        yield {"kind": "static", "via": "cli", "target": top, "options": o, "flags": cli_flags(o, i + pidx)}
    for i in (3 + pidx) % 24, (14 + pidx * 5) % 24:
        yield {"kind": "static", "via": "cli", "target": top, "extra_targets": [*others, absent], "options": CLI_OPTIONS[i],
               "flags": cli_flags(CLI_OPTIONS[i], i)}
    for s in range(plan["subprocess_per_pkg"]):
        i = (pidx * plan["subprocess_per_pkg"] + s) * 7 % 24
        yield {"kind": "static", "via": "cli-subprocess", "target": top, "options": CLI_OPTIONS[i],
               "flags": cli_flags(CLI_OPTIONS[i], i)}
    # griffe.load_git on the repository built from the tree
    n = plan["git_per_pkg"]
    for s in range(n):
        g = pidx * n + s
        target = top if g % 5 != 4 or not others else others[(g // 5) % len(others)]
        yield {"kind": "static", "via": "api-git", "target": target, "options": GIT_OPTIONS[g * 11 % 48],
               "form": GIT_FORMS[(g + g // 48) % 3] if target == top else "name", "ref": GIT_REFS[(g // 3 + g // 48) % 4],
               "repo_as": ("str", "Path")[(g // 2 + g // 48) % 2], "installed": bool((g // 4 + g // 96) % 2)}
    # command line: check (two versions, loaded through load_git / load)
    n = plan["check_per_pkg"]
    for s in range(n):
        c = pidx * n + s
        flags, opts = check_flags(c)
        yield {"kind": "static", "via": "cli-check", "target": top, "options": opts, "flags": flags, "installed": bool(c % 2)}
    n = plan["check_subprocess_per_pkg"]
    for s in range(n):
        c = (pidx * n + s) * 4 + 1
        flags, opts = check_flags(c)
        yield {"kind": "static", "via": "cli-check-subprocess", "target": top, "options": opts, "flags": flags}


def case_key(c: dict) -> str:
    return "|".join(str(c.get(k, "")) for k in ("via", "target", "targets", "extra_targets", "form", "path_mode", "flags",
                                                "ref", "repo_as", "installed", "explicit")) + "|" + opt_key(c["options"])


def run_static_package(ctx: Ctx, pkg: dict, pidx: int, plan: dict) -> None:
    rec = ctx.rec
    tree = Tree(pkg, ctx.base)
    for f in tree.fixture:
        rec.add_to_set("compiled_fixture", f)
    pdig = digest({k: pkg[k] for k in ("files", "pyc", "native")})
    for p in pkg.get("placements", ()):
        rec.count(f"packages_with[{p.split(':')[0]}]")
        rec.add_to_set("compiled_placements", p)
    rec.add_to_set("layouts", pkg.get("layout", "?"))
    try:
        for c in static_cases_for(pkg, pidx, plan):
            rec.add_to_set("option_sets_" + c["via"].replace("-", "_"), opt_key(c["options"]))
            case = dict(c)
            case["pkg"] = pkg
            run_static_case(ctx, tree, pkg, case, digest(pdig + case_key(c)))
        after = tree.snapshot()
        rec.count("tree_listings_compared")
        if after != tree.listing:
            rec.fail({"kind": "static-tree", "pkg": pkg}, "files appeared in / vanished from the analysed tree during static loads",
                     observed=sorted(set(after) ^ set(tree.listing))[:10], expected="unchanged tree")
    finally:
        tree.remove()


# ------------------------------------------------------------------------------------------
# fault part
def documented(exc: BaseException, kind: str) -> bool:
    import griffe

    if isinstance(exc, (griffe.LoadingError, ImportError)):
        return True
    return kind == "interrupt" and isinstance(exc, KeyboardInterrupt)


def run_fault_case(ctx: Ctx, case: dict) -> None:  # noqa: C901, PLR0912
    """A load with inspection allowed/forced into which an import-time fault (or a missing module) is planted."""
    rec = ctx.rec
    import griffe

    pkg = case.get("pkg")
    mode = case["mode"]
    inspection = {"allow_inspection": True, "force_inspection": mode == "force"}
    tree = Tree(pkg, ctx.base) if pkg else None
    owned = set(pkg["owned"]) if pkg else {case["target"].split(".")[0]}
    inserted = False
    entry = case.get("entry", "load")
    if tree:
        os.environ["VF_C15_SENT"] = tree.sent
        if entry == "git":
            tree.ensure_repo(pkg, history=False)
        if case["path_mode"] == "sys_path":
            sys.path.insert(0, tree.sp)  # the user's own entry, part of the state that must be preserved
            inserted = True
    snap = StateSnapshot()
    exc = None
    try:
        with case_watchdog(120):
            ctx.witness.arm(owned)
            try:
                if tree and entry == "git":
                    call_git(tree, pkg, {"target": pkg["top"], "form": "name", "ref": "HEAD", "options": {}}, inspection)
                elif tree and entry == "loader":
                    call_loader(tree, pkg, {"targets": [pkg["top"]], "form": "name", "path_mode": case["path_mode"],
                                            "options": {}}, inspection)
                elif tree:
                    call_api(tree, pkg, pkg["top"], "name", case["path_mode"], {}, inspection)
                else:
                    kw = dict(inspection)
                    if case["path_mode"] == "search_paths":
                        kw["search_paths"] = [ctx.base]
                    if case.get("static"):
                        kw = {"allow_inspection": False, **({"search_paths": [ctx.base]} if case["path_mode"] == "search_paths" else {})}
                    griffe.load(case["target"], **kw)
            except BaseException as e:  # noqa: BLE001
                if type(e).__name__ in ("CaseTimeout", "StepBudgetExceeded"):
                    raise
                exc = e
            finally:
                seen = ctx.witness.disarm()
    finally:
        ctx.witness.armed = False
    rec.count("sys_path_identity_checked")
    problems = snap.path_delta()
    kind = case["fault"]["kind"]
    outcome = "returned" if exc is None else type(exc).__name__
    if exc is not None and not documented(exc, kind):
        problems.append(f"exception of undocumented type {type(exc).__name__}: {exc}"[:300])
    if kind == "not-found":
        rec.count("not_found_cases")
        if exc is None:
            problems.append("loading a module that exists nowhere returned normally")
        elif case.get("static") and not isinstance(exc, ModuleNotFoundError):
            problems.append(f"module not found with inspection disallowed must raise ModuleNotFoundError, got {type(exc).__name__}")
    reached = False
    if tree:
        reached = ("py-" + pkg["fault_module"]) in tree.sentinels()
        rec.count("fault_cases")
        rec.count(f"fault_cases[{entry}]")
        if reached:
            rec.count("fault_point_reached")
            rec.count(f"fault_point_reached[{entry}]")
        rec.count("audit_exec_events_under_inspection", len(seen["execs"]))
        rec.count("audit_import_events[fault]", len(seen["imports"]))
        rec.count("py_start_events[fault]", len(seen["py_starts"]))
        rec.add_to_set("fault_points", f"{kind}@k={case['fault']['k']}/n={pkg['n']},{mode},{case['trigger']}")
    else:
        rec.add_to_set("fault_points", f"not-found:{case['target'].count('.') and 'dotted' or 'plain'},{mode if not case.get('static') else 'static'},{case['path_mode']}")
    rec.add_to_set(f"outcomes[fault:{kind}]", outcome)
    snap.restore(owned)
    if inserted:
        try:
            sys.path.remove(tree.sp)
        except ValueError:
            pass
    if tree:
        tree.remove()
    if problems:
        rec.fail(case, problems[0], observed={"all": problems, "outcome": outcome}, expected="sys.path is the same list with the "
                 "same contents; exception type among LoadingError / ImportError", nontrivial=True, tags=("fault-" + kind,))
    else:
        rec.ok(case, nontrivial=reached or kind == "not-found", tags=("fault-" + kind,))


def fault_cases(rng: random.Random, tag: str, n_pkgs: int):
    serial = 0
    for p in range(n_pkgs):
        n = rng.randint(3, 6)
        seed = rng.randrange(1 << 30)
        for mode in ("allow", "force"):
            for k in range(1, n + 1):
                for kind in FAULT_KINDS:
                    serial += 1
                    trigger = "pyc" if (k > 1 or serial % 2) else "native"
                    pkg = gen_fault_pkg(random.Random(seed), f"{tag}_{serial}", n, k, kind, trigger)
                    yield {"kind": "fault", "mode": mode, "fault": {"kind": kind, "k": k}, "trigger": trigger,
                           "path_mode": PATH_MODES[serial % 2], "entry": FAULT_ENTRIES[(serial // 2) % len(FAULT_ENTRIES)],
                           "pkg": pkg}
    for target in (f"vf_c15_nowhere_{tag}", f"vf_c15_nowhere_{tag}.sub.mod"):
        for mode in ("allow", "force"):
            for pm in PATH_MODES:
                yield {"kind": "fault", "mode": mode, "fault": {"kind": "not-found"}, "target": target, "path_mode": pm}
        for pm in PATH_MODES:
            yield {"kind": "fault", "mode": "allow", "static": True, "fault": {"kind": "not-found"}, "target": target, "path_mode": pm}


# ------------------------------------------------------------------------------------------
# positive control: the witnesses must fire when the analysed code really runs
def run_control(ctx: Ctx, rng: random.Random, tag: str) -> None:
    rec = ctx.rec
    pkg = gen_static_pkg(rng, f"ctl{tag}")
    top = pkg["top"]
    files = {k: v for k, v in pkg["files"].items() if k.startswith(f"sp/{top}/") and k.endswith(".py")
             and "broken" not in k and "scripts" not in k and "__main__" not in k}
    files = {k: "\n".join(line for line in v.splitlines() if "import" not in line or "__import__" in line) + "\n" for k, v in files.items()}
    files.setdefault(f"sp/{top}/__init__.py", preamble(top))
    files = {k: v for k, v in files.items() if not k.startswith((f"sp/{top}/cpkc/", f"sp/{top}/cpkn/", f"sp/{top}/cpku/"))}
    ctl = {"top": top, "owned": [top], "files": files,
           "native": [f"sp/{top}/_native", {"rel": f"sp/{top}/cpkn/__init__", "init": "cpkn", "suffix": "tagged"},
                      {"rel": f"sp/{top}/cpku/__init__", "init": "cpku", "suffix": "untagged"}],
           "pyc": {f"sp/{top}/bytec.pyc": preamble(f"{top}.bytec") + "X = 1\n",
                   f"sp/{top}/cpkc/__init__.pyc": preamble(f"{top}.cpkc") + "Y = 1\n"}}
    tree = Tree(ctl, ctx.base)
    os.environ["VF_C15_SENT"] = tree.sent
    sys.path.insert(0, tree.sp)
    snap = StateSnapshot()
    ctx.witness.arm({top})
    errors = []
    try:
        for name in (top, f"{top}._native", f"{top}.bytec", f"{top}.cpkc", f"{top}.cpkn", f"{top}.cpku"):
            try:
                importlib.import_module(name)
            except BaseException as exc:  # noqa: BLE001
                errors.append(f"{name}: {type(exc).__name__}")
    finally:
        seen = ctx.witness.disarm()
    sent = tree.sentinels()
    real = any("real" in f for f in tree.fixture)
    # the compiled-__init__ fixtures really are importable packages (sourceless, ABI-tagged and untagged extension)
    as_pkg = [n for n in ("cpkc", "cpkn", "cpku") if hasattr(sys.modules.get(f"{top}.{n}"), "__path__")]
    if f"py-{top}.cpkc" in sent and "cpkc" in as_pkg and (not real or {"native-cpkn", "native-cpku"} <= set(sent)):
        rec.count("control_compiled_init_package_imported")
    if seen["imports"]:
        rec.count("control_audit_import_fired")
    if seen["execs"]:
        rec.count("control_audit_exec_fired")
    if seen["py_starts"]:
        rec.count("control_py_start_fired")
    if any(s.startswith("py-") for s in sent) and (not real or any(s.startswith("native-") for s in sent)):
        rec.count("control_sentinel_fired")
    if snap.path_delta() and snap.other_delta({top}, ctx.witness.prefix):
        rec.count("control_state_delta_seen")
    if real:
        rec.count("control_native_sentinel_fired", int(any(s.startswith("native-") for s in sent)))
    rec.add_to_set("compiled_fixture", "real C extension (gcc)" if real else "fake .so bytes (no toolchain)")
    rec.note("control import errors: " + (", ".join(errors) or "none") + "; compiled fixture: " + ("real" if real else "fake"))
    snap.restore({top})
    sys.path.remove(tree.sp)
    tree.remove()


# ------------------------------------------------------------------------------------------
def shards(tier: str, seed: int) -> list[dict]:  # noqa: ARG001
    if tier == "quick":
        return [{"packages": 3, "fault_pkgs": 1, "plan": dict(DEFAULT_PLAN)} for _ in range(16)]
    return [{"packages": 32, "fault_pkgs": 6, "plan": dict(DEFAULT_PLAN)} for _ in range(32)]


def run_shard(spec: dict, rec) -> None:  # noqa: ANN001
    rng = random.Random(spec["seed"])
    ctx = Ctx(rec)
    tag = f"{spec['seed'] % 100003}s{spec['shard']}"
    try:
        run_control(ctx, rng, tag)
        for p in range(spec["packages"]):
            pkg = gen_static_pkg(rng, f"{tag}p{p}")
            run_static_package(ctx, pkg, p + spec["shard"] * spec["packages"], spec.get("plan", {}))
        for case in fault_cases(rng, tag, spec["fault_pkgs"]):
            run_fault_case(ctx, case)
        rec.maximum("audit_events_filtered_per_shard", ctx.witness.total_events)
    finally:
        ctx.close()


def run_replay(inp: dict, rec) -> None:  # noqa: ANN001
    ctx = Ctx(rec)
    try:
        if inp["kind"] == "static":
            pkg = inp["pkg"]
            tree = Tree(pkg, ctx.base)
            try:
                run_static_case(ctx, tree, pkg, inp, digest(inp))
            finally:
                tree.remove()
        elif inp["kind"] == "fault":
            run_fault_case(ctx, inp)
        else:
            rec.inconclusive(inp, "aggregate witness (tree listing); replay the individual static cases instead")
    finally:
        ctx.close()


def run_pinned(findings: list[dict], rec) -> dict:  # noqa: ANN001
    from vf.core.rec import Recorder

    out = {}
    for f in findings:
        sub = Recorder(PROP, {})
        run_replay(f["witness"], sub)
        reproduced = bool(sub.n_fail or sub.known)
        out[f["id"]] = {"reproduced": reproduced,
                        "detail": sub.fails[0]["what"] if sub.fails else
                        (next(iter(sub.known.values()))["first"]["what"] if sub.known else "passes")}
    return out
