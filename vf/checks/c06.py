"""C06 — Alias resolution is total, all-or-nothing and cycle-safe on any import graph.

Workload: random import graphs over 7 modules in two packages and 4 names (every import form,
wildcards, self-imports, cycles, cyclic wildcards, missing modules/names, relative imports past
the top, imports inside class bodies, ``__all__`` composed from other modules' ``__all__`` in every
spelling griffe parses, the other module being named directly or through aliases, in chains and rings),
loaded into one collection in both orders, with ``resolve_aliases`` repeated three times for every
(implicit, external) setting.
Further inputs: classes with bases / decorators named through imports and a base class holding imports in its body
(inherited aliases); 2-4 packages importing from each other by wildcard and by name, in cycles, of which only a subset is
loaded explicitly (the rest arrives in the middle of expansion / resolution, external in True / None with ``_pkg`` siblings /
False); a plain reference package whose aliases are all resolvable.
Monitors: exception monitor on load / resolve_aliases; walker reading, on every alias (stored in the tree, inherited by a
class, shown by an alias as member / inherited member of its target), everything ``griffe.Alias`` offers for reading
(enumerated by introspection); all-or-nothing chain check; fixpoint comparison of passive snapshots; M-MON step budget and
stack depth ("terminates" restated as bounded logical progress).
"""
from __future__ import annotations

import random

from vf.core import mon
from vf.core.util import case_watchdog, tmp_tree
from vf.gen import graphs

PROP = "C06"
LEVEL = "exploration"
ANCHORS = ["loader.py", "exceptions.py"]
RULE = ("random import graphs: 7 modules (packages p, p.s, q; modules p.a, p.b, p.s.c, q.d), 0-4 statements each drawn "
        "from local definitions of X/Y/Z/W, from-imports (absolute, relative level 1-3, aliased, of names, modules and "
        "missing things), plain imports, wildcard imports (absolute/relative, self and cyclic allowed), __all__ (incl. "
        "undefined names, and composed: `__all__ = [..] + m.__all__`, `+= m.__all__`, `[*m.__all__, ..]`, tuple, bare, "
        "annotated, `from m import __all__ as N`, with m a bare name / dotted path / the module itself), imports inside a "
        "class body; 20% of the graphs are chains/rings of 1-4 modules whose __all__ is composed from the next module's, "
        "the next module being named by from-import, dotted import, import-as, relative import, or through aliases (a "
        "facade module re-exporting it under another name, a dotted path through such a name, two chained facades, the "
        "list imported through the facade), through a wildcard only, through a cyclic alias, or unbound; open chains end in a plain list, a missing "
        "module or a non-module; 25% are re-export rings; both package load orders; implicit x external in "
        "{False,True}x{False,None,True}; resolve_aliases called 3 times. Classes with bases / functions with decorators named "
        "by (possibly imported, unresolvable, cyclic) names, class K with 1-2 imports in its body and optional bases, 30% of "
        "the random graphs get a Base class (members + imports in its body) imported elsewhere (renamed, via a third module) "
        "as the base of a Derived class; 8% re-export chains over 3-4 packages with only a prefix loaded; 12% graphs over 2-4 "
        "packages (p, _p, q, _q, r, _r) with wildcard / named / mixed imports going both ways, hops in submodules or class "
        "bodies or going through an alias of the other package (`import q as N` + `from p.N import *`), a subset loaded "
        "explicitly, external in {True,None,False}; re-export rings have spectator modules that import the ring's name and "
        "rebind it; per shard one plain reference package. "
        "distinct = digest of files+options; non-trivial = graph has an import cycle (any form) or a dangling target")
LEVEL_TEXT = ("Every generated graph is loaded and resolved by the real loader under an exception monitor, a function-entry "
              "step budget and a stack-depth bound; afterwards every alias - stored in the tree (modules and classes), inherited "
              "by a class, or shown by an alias as a member / inherited member of its target (capped per case) - is read "
              "through every public property, plain attribute, no-argument method (also with each boolean keyword switched on) "
              "and repr/bool/len that griffe.Alias offers (74 reads, enumerated by introspection; resolve_target, an action, is "
              "not called) and must answer, or raise AliasResolutionError/CyclicAliasError, or - only for a name real objects "
              "have too, on a chain that ends in an object - raise the AttributeError/ValueError/BuiltinModuleError that the "
              "same read on that object raises (compared at run time; a plain reference package shows the set); "
              "RecursionError, RuntimeError, KeyError, TypeError, anything else, or more than 200 000 function entries for one "
              "read are violations; resolved chains are walked passively "
              "to confirm no unresolved link; passive snapshots after the 1st, 2nd and 3rd resolve_aliases() must be equal.")
LEVEL_NOTE = ("bounded to 7 modules / 4 names / <=5 statements per module; step budget 10^6 function entries and depth "
              "bound are calibrated from the observed maxima (reported in the evidence); wall-clock watchdog only as "
              "inconclusive safety net")
TECHNIQUE = "runtime monitoring: exception/step-budget/stack-depth monitors + alias walker + passive fixpoint snapshots over random import graphs"
REQUIRED_COUNTERS = ["graphs_loaded", "aliases_walked", "accessor_calls", "resolved_chains_walked", "fixpoint_comparisons",
                     "accessor_raised_resolution_error", "accessor_raised_cyclic_error", "reported_unresolved_checked",
                     # the exception / step-budget monitor on load() only decides about __all__ compositions when they were
                     # in the loaded input: named through an alias (seen as an Alias member in the loaded tree), cyclic with
                     # every hop through an alias, and acted upon (exports grew beyond the module's own literals)
                     "all_compositions_through_alias_in_tree", "all_composition_cycles_loaded",
                     "all_composition_cycles_every_hop_through_alias", "exports_grown_by_composition"]
EXHAUSTIVE = {"quick": False, "thorough": False}
ASSUMPTIONS = ["termination is judged as bounded logical progress (function entries in _griffe), not wall-clock"]
STEP_BUDGET = 1_000_000
ACCESS_BUDGET = 200_000   # function entries in _griffe for one read of one alias
WILDCARD_CREATED: set[int] = set()
PACKAGES_LOADED: list[str] = []  # M-EXT: names of packages in the order on_package_loaded fired (nested loads included)
_KEEPALIVE: list = []


def make_extension():  # noqa: ANN201
    import griffe

    class Recorder(griffe.Extension):
        """M-EXT (passive): remembers which aliases were created by wildcard expansion."""

        def on_wildcard_expansion(self, *, alias, loader, **kwargs):  # noqa: ANN001, ANN003, ARG002
            WILDCARD_CREATED.add(id(alias))
            _KEEPALIVE.append(alias)

        def on_package_loaded(self, *, pkg, loader, **kwargs):  # noqa: ANN001, ANN003, ARG002
            PACKAGES_LOADED.append(pkg.name)

    return Recorder()
# -- accessors: everything `griffe.Alias` offers for reading, enumerated by introspection ------------------------------------
# Not called: anything that needs an argument, class/static methods, and actions that re-bind the link instead of reading it.
ACTIONS = {"resolve_target"}
PROTOCOLS = (("__repr__", repr), ("__str__", str), ("__bool__", bool), ("__len__", len))
# Names the deciding counters rely on (a cross-check of the introspection: when `griffe.Alias` stops offering one of them, or
# the enumeration misses it, its `acc:` counter stays 0 and the run is inconclusive).  Labels: property -> name, method ->
# `name()`, boolean keyword switched on -> `name(kw=True)`.
EXPECTED_READS = ["aliases", "all_members", "annotation", "attributes", "bases", "canonical_path", "classes", "decorators",
                  "deleter", "docstring", "endlineno", "exports", "extra", "filepath", "final_target", "functions",
                  "has_docstring", "has_docstrings", "imports", "imports_future_annotations", "inherited_members",
                  "is_attribute", "is_class", "is_class_private", "is_deprecated", "is_exported", "is_function", "is_imported",
                  "is_init_module", "is_module", "is_namespace_package", "is_namespace_subpackage", "is_package", "is_private",
                  "is_public", "is_special", "is_subpackage", "is_wildcard_exposed", "kind", "labels", "lineno", "lines",
                  "lines_collection", "members", "module", "modules", "modules_collection", "overloads", "package",
                  "parameters", "parent", "path", "relative_filepath", "relative_package_filepath", "resolved",
                  "resolved_bases", "returns", "setter", "source", "target", "value", "wildcard",
                  "as_dict()", "as_dict(full=True)", "as_json()", "as_json(full=True)", "mro()", "filter_members()",
                  "has_labels()", "repr()", "bool()", "len()", "is_alias", "is_collection"]
# Reads that go down the chain: on a cyclic chain each of them must have been seen reporting CyclicAliasError (`cyc:` counters).
# (`as_dict`/`as_json`, `kind`, `has_docstring(s)` answer for the alias itself when the chain cannot be followed; `repr`/`bool`/
# `len`, `path`, `parent`, `resolved`, `wildcard` and the `is_*` predicates computed from the alias' own name and position do
# not dereference; `target` reports the cycle when it is the read that discovers it.)
EXPECTED_DEREFERENCING = ["aliases", "all_members", "annotation", "attributes", "bases", "canonical_path", "classes",
                          "decorators", "deleter", "docstring", "endlineno", "exports", "extra", "filepath", "final_target",
                          "functions", "imports", "imports_future_annotations",
                          "inherited_members", "is_attribute", "is_class", "is_function", "is_init_module", "is_module",
                          "is_namespace_package", "is_namespace_subpackage", "is_package", "is_subpackage", "labels",
                          "lineno", "lines", "lines_collection", "members", "module", "modules", "overloads", "package",
                          "parameters", "relative_filepath", "relative_package_filepath", "resolved_bases", "returns", "setter",
                          "source", "target", "value", "mro()", "filter_members()", "has_labels()"]
REQUIRED_COUNTERS += ["reference_packages_walked", "aliases_walked_tree", "aliases_walked_inherited", "aliases_walked_member-view",
                      "aliases_walked_inherited-view", "soft_error_same_as_target",
                      # chains of links that are all resolved and form a cycle: only `final_target` guards them (aa9f86e)
                      "resolved_cycles_seen", "resolved_cycle_reported_as_cyclic",
                      # the class of C06-nested-load-mutates-members (2d794b3, ed4295e) was in the input
                      "packages_pulled_in_by_resolution", "pulled_in_package_wildcard_imports_back",
                      "private_sibling_pulled_in_with_external_none", "wildcard_through_alias_of_package_pulled_in_by_resolution"]
REQUIRED_COUNTERS += [f"acc:{n}" for n in EXPECTED_READS] + [f"cyc:{n}" for n in EXPECTED_DEREFERENCING]
_ACCESSORS: list | None = None
_PROXIED: set | None = None
DERIVED_CAP = 20     # member views / inherited aliases walked per case beyond the aliases stored in the tree


def _reader(name: str):  # noqa: ANN202
    return lambda obj: getattr(obj, name)


def _caller(name: str, kwargs: dict):  # noqa: ANN202
    return lambda obj: getattr(obj, name)(**kwargs)


def accessors() -> list[tuple[str, str, object]]:
    """[(label, attribute name, function of the alias)] - every public property / plain attribute of ``griffe.Alias``, every
    public method callable without arguments (also once per boolean keyword switched on), and the no-argument protocols
    (repr, bool, len) the class defines.  Sorted by name: deterministic."""
    global _ACCESSORS  # noqa: PLW0603
    if _ACCESSORS is not None:
        return _ACCESSORS
    import inspect

    import griffe

    cls = griffe.Alias
    out: list[tuple[str, str, object]] = []
    for name in sorted(dir(cls)):
        if name.startswith("_") or name in ACTIONS:
            continue
        static = inspect.getattr_static(cls, name)
        if isinstance(static, (classmethod, staticmethod)):
            continue
        if inspect.isfunction(static):
            params = list(inspect.signature(static).parameters.values())[1:]
            if any(p.default is p.empty and p.kind not in (p.VAR_POSITIONAL, p.VAR_KEYWORD) for p in params):
                continue
            out.append((f"{name}()", name, _caller(name, {})))
            out.extend((f"{name}({p.name}=True)", name, _caller(name, {p.name: True})) for p in params if p.default is False)
        else:   # property or plain class attribute
            out.append((name, name, _reader(name)))
    defined = set().union(*(vars(k) for k in cls.__mro__[:-1]))
    out.extend((f"{fn.__name__}()", dunder, fn) for dunder, fn in PROTOCOLS if dunder in defined)
    _ACCESSORS = out
    return out


def proxied_names() -> set[str]:
    """Names that exist on real objects too (module, class, function, attribute, ...): only for those can an alias answer
    with the AttributeError / ValueError / BuiltinModuleError its target gives.  Taken from fresh objects, not hard-coded."""
    global _PROXIED  # noqa: PLW0603
    if _PROXIED is None:
        import griffe

        names: set[str] = set()
        for kind in ("Module", "Class", "Function", "Attribute", "TypeAlias"):
            if hasattr(griffe, kind):
                names |= set(dir(getattr(griffe, kind)("x")))
        _PROXIED = names
    return _PROXIED


def consume(value) -> None:  # noqa: ANN001
    """Containers are iterated (a lazily built view must be buildable), nothing is dereferenced beyond that."""
    if isinstance(value, dict):
        list(value.items())
    elif isinstance(value, (list, tuple, set, frozenset)) or hasattr(value, "__next__"):
        list(value)


def recursion_inside(exc: BaseException, function: str) -> bool:
    """The traceback is the named function re-entering itself: most of its _griffe frames are that function."""
    names = []
    tb = exc.__traceback__
    while tb is not None:
        code = tb.tb_frame.f_code
        if "_griffe" in code.co_filename:
            names.append(code.co_name)
        tb = tb.tb_next
    hits = sum(1 for n in names if n == function)
    return hits >= 3 and hits * 5 >= len(names) * 3


def shards(tier: str, seed: int) -> list[dict]:
    n = 100 if tier == "quick" else 4000
    return [{"count": n, "hostile": i % 4 != 3} for i in range(16)]


def all_aliases(collection):  # noqa: ANN001
    out = []
    seen = set()

    def walk(obj):  # noqa: ANN001
        if id(obj) in seen:
            return
        seen.add(id(obj))
        for m in list(obj.members.values()):
            if m.is_alias:
                out.append(m)
            else:
                walk(m)

    for mod in list(collection.members.values()):
        walk(mod)
    return out


def all_classes(collection) -> list:  # noqa: ANN001
    """Real (non-alias) classes of the loaded tree, nested ones included."""
    out, seen = [], set()

    def walk(obj):  # noqa: ANN001
        if id(obj) in seen:
            return
        seen.add(id(obj))
        for m in list(obj.members.values()):
            if not m.is_alias:
                if m.is_class:
                    out.append(m)
                walk(m)

    for mod in list(collection.members.values()):
        walk(mod)
    return out


ID_STALE_CYCLE = "C06-cycle-by-paths-resolved-through-stale-alias-object-by-a-later-call"


def chain_passes_detached_alias(collection, path: str) -> bool:  # noqa: ANN001
    """The alias the tree holds under ``path`` is resolved, and walking its CACHED targets meets an alias object that is
    no longer the member the collection holds under that object's own path (it was replaced after somebody cached it)."""
    try:
        cur = collection.get_member(path)
    except Exception:  # noqa: BLE001
        return False
    for _ in range(60):
        if not getattr(cur, "is_alias", False) or not cur.resolved:
            return False
        cur = cur._target
        if getattr(cur, "is_alias", False):
            try:
                live = collection.get_member(cur.path)
            except Exception:  # noqa: BLE001
                return True
            if live is not cur:
                return True
    return False


def snapshot(collection) -> dict:  # noqa: ANN001
    """Passive: never triggers a resolution."""
    snap = {}
    for al in all_aliases(collection):
        if al.name.endswith("/*"):
            snap["placeholder:" + al.path] = ("placeholder", al.target_path)
            continue
        if not al.resolved:
            snap[al.path] = None
            continue
        t, hops = al, 0
        state = "ok"
        seen_ids = set()
        while t.is_alias:
            if not t.resolved:
                state = "PARTIAL"
                break
            if id(t) in seen_ids:
                state = "CYCLE"  # a cycle of resolved links: dereferencing must report CyclicAliasError (checked by the walker)
                break
            seen_ids.add(id(t))
            prev = t
            t = t.target
            hops += 1
        snap[al.path] = (state, t.path) if state != "PARTIAL" else (state, t.path, prev.path, id(prev) in WILDCARD_CREATED or (prev.parent is not None and prev.parent.is_alias))
    return snap


def lookup_passively(collection, path: str):  # noqa: ANN001, ANN201
    """(object or None, an alias was met on the way or at the end) -- never dereferences anything."""
    parts = path.split(".")
    obj = collection.members.get(parts[0])
    for comp in parts[1:]:
        if obj is None:
            return None, False
        if obj.is_alias:
            return obj, True
        obj = obj.members.get(comp)
    return obj, obj is not None and obj.is_alias


def observe_exports(rec, collection, files: dict, hops: list, all_cycle: bool, all_cycle_aliased: bool) -> None:  # noqa: ANN001
    """Evidence that ``__all__`` compositions were in the loaded input and were acted upon (passive, counts only)."""
    import ast

    rec.count("all_compositions_loaded", len(hops))
    rec.count("all_compositions_naming_a_loaded_module", sum(1 for h in hops if h[1] is not None))
    rec.count("all_compositions_through_alias", sum(1 for h in hops if h[1] is not None and h[2]))
    # the same, seen in the loaded tree: the dotted path the composition names is (or passes through) an Alias member
    rec.count("all_compositions_through_alias_in_tree", sum(1 for h in hops if h[3] and lookup_passively(collection, h[3])[1]))
    rec.count("all_composition_cycles_loaded", int(all_cycle))
    rec.count("all_composition_cycles_every_hop_through_alias", int(all_cycle_aliased))
    for rel, src in files.items():
        mod = rel[:-3].replace("/", ".").removesuffix(".__init__")
        obj, _ = lookup_passively(collection, mod)
        if obj is None or obj.is_alias or not obj.is_module or not obj.exports:
            continue
        try:
            literal = {n.value for n in ast.walk(ast.parse(src)) if isinstance(n, ast.Constant) and isinstance(n.value, str)}
        except SyntaxError:
            continue
        if any(isinstance(e, str) and e not in literal for e in obj.exports):
            rec.count("exports_grown_by_composition")
        if any(not isinstance(e, str) for e in obj.exports):
            rec.count("exports_left_with_unexpanded_reference")


def classify(files: dict, descs: dict, exc: BaseException | None, order: list, external,  # noqa: ANN001
             nested_loads: list | None = None) -> tuple[str | None, list[str]]:
    """Mechanism predicates for exceptions escaping load()/resolve_aliases()."""
    tried = ["C06-nested-load-mutates-members"]
    if exc is None:
        return None, tried
    dict_mutated = isinstance(exc, RuntimeError) and "changed" in str(exc) and "during iteration" in str(exc)
    stale_placeholder = isinstance(exc, KeyError) and str(exc.args[0] if exc.args else "").endswith("/*")
    if dict_mutated and external is not False and nested_loads:
        # observed part (M-EXT): the failing call itself loaded a package nobody asked it to load (on_package_loaded fired
        # inside it) - resolve_module_aliases / expand_wildcards were iterating obj.members when that nested load (and the
        # wildcard expansion it runs in already loaded modules) changed the dictionary
        return "C06-nested-load-mutates-members", tried
    if (dict_mutated or stale_placeholder) and external is not False:
        # structural part: a loaded package wildcard-imports (directly or in a class body) from a package that was not
        # loaded up front, so expand_wildcards() loads it in the middle of iterating obj.members
        flat = _flatten(descs)
        for mod, ds in flat.items():
            if mod.split(".")[0] not in order:  # ("resolve" tokens are not package names)
                continue
            for d in ds:
                if d["t"] == "wild":
                    tgt = graphs.absolute(mod, d)
                    if tgt and tgt.split(".")[0] not in order:
                        return "C06-nested-load-mutates-members", tried
    return None, tried


def run_case(rec, files: dict, descs: dict | None, order: list[str], implicit: bool, external, steps, reference: bool = False) -> None:  # noqa: ANN001, C901, PLR0912, PLR0915
    import griffe
    from _griffe.exceptions import AliasResolutionError, BuiltinModuleError, CyclicAliasError

    case = {"files": files, "order": order, "implicit": implicit, "external": external}
    if reference:   # the plain package: every alias resolvable, nothing cyclic or missing - no access may report an alias error
        case["reference"] = True
    if descs is None:
        descs = describe_from_files(files)
    cyc = has_any_cycle(descs)
    dangling = has_dangling(descs)
    nontrivial = cyc or dangling
    flat = _flatten(descs)
    packages = {x for x in order if x != "resolve"}
    hops = [h for h in graphs.export_hops(flat) if h[0].split(".")[0] in packages]
    all_cycle, all_cycle_aliased = graphs.export_cycles(flat, packages)
    tags = tuple(t for t, f in (("cycle", cyc), ("dangling", dangling), ("wild-cycle", graphs.has_wildcard_cycle(descs)),
                                ("all-composition", bool(hops)), ("all-cycle", all_cycle),
                                ("all-cycle-through-aliases", all_cycle_aliased)) if f)
    stage = "load"
    deferred: list[tuple[str, str]] = []
    loaded_now: list[str] = []
    call_mark, call_asked = [0], [None]
    pulled_by_call: list[list[str]] = []  # the same, per resolve_aliases() call of the final three
    pulled_in: list[str] = []  # packages loaded by resolve_aliases itself (M-EXT: on_package_loaded inside the call)
    try:
        with case_watchdog(300), tmp_tree(files) as root:
            PACKAGES_LOADED.clear()
            WILDCARD_CREATED.clear()
            _KEEPALIVE.clear()
            loader = griffe.GriffeLoader(search_paths=[root], allow_inspection=False,
                                         extensions=griffe.load_extensions(make_extension()))
            steps.begin(STEP_BUDGET)
            try:
                for pkg in order:
                    call_mark[0], call_asked[0] = len(PACKAGES_LOADED), (None if pkg == "resolve" else pkg)
                    loaded_now[:] = [x for x in order[: order.index(pkg) + 1] if x != "resolve"] if pkg != "resolve" else loaded_now
                    if pkg == "resolve":  # histories: load, resolve, load more, resolve again
                        stage = "resolve_aliases (between loads)"
                        loader.resolve_aliases(implicit=implicit, external=external)
                        pulled_in.extend(PACKAGES_LOADED[call_mark[0]:])
                        rec.count("interleaved_resolutions")
                        stage = "load"
                    else:
                        loader.load(pkg)
                rec.count("graphs_loaded")
                observe_exports(rec, loader.modules_collection, files, hops, all_cycle, all_cycle_aliased)
                naliases = len(all_aliases(loader.modules_collection))
                snaps = []
                for i in range(3):
                    stage = f"resolve_aliases#{i + 1}"
                    call_mark[0], call_asked[0] = len(PACKAGES_LOADED), None
                    unresolved, iterations = loader.resolve_aliases(implicit=implicit, external=external)
                    pulled_in.extend(PACKAGES_LOADED[call_mark[0]:])  # packages this resolve call loaded on its own (external)
                    pulled_by_call.append(list(PACKAGES_LOADED[call_mark[0]:]))
                    snaps.append((snapshot(loader.modules_collection), sorted(unresolved)))
                    by_path = {al.path: al for al in all_aliases(loader.modules_collection)}
                    for upath in sorted(unresolved):
                        al = by_path.get(upath)
                        if al is not None:
                            rec.count("reported_unresolved_checked")
                            if al.resolved:
                                rec.fail(case, f"resolve_aliases() call #{i + 1} reports {upath} as unresolved (its resolution raised) but the "
                                               "alias has resolved=True: a failed resolution was left half-applied",
                                         observed=snaps[-1][0].get(upath), nontrivial=nontrivial, tags=tags)
                                return
                    if external is False and iterations > naliases + 2:
                        rec.fail(case, f"resolve_aliases needed {iterations} iterations for {naliases} aliases",
                                 observed=iterations, expected=f"<= {naliases + 2}", nontrivial=nontrivial)
                        return
                    rec.maximum("max_resolve_iterations", iterations)
            finally:
                n, depth = steps.end()
            rec.maximum("max_steps_load_and_resolve", n)
            # a wildcard naming a module of its own package that is an alias (`import q as N` + `from p.N import *`) of a package
            # not loaded up front: it can only be expanded once that package arrived - by whoever walks the module then
            late = {d2["module"].split(".")[0] for mod, ds in flat.items() if mod.split(".")[0] in packages for d in ds
                    if d["t"] == "wild" and "rel" not in d and d["module"].startswith(mod + ".")
                    for d2 in ds if d2["t"] == "import" and d2.get("as") == d["module"][len(mod) + 1:]
                    and d2["module"].split(".")[0] not in packages}
            if late:
                rec.count("wildcard_through_alias_of_package_not_loaded_up_front")
                if late & set(pulled_in):
                    rec.count("wildcard_through_alias_of_package_pulled_in_by_resolution")
            if pulled_in:
                # (M-EXT) packages nobody asked for arrived in the middle of a resolve_aliases() call; the deciding shape for
                # the iteration-safety of the walkers: such a package wildcard-imports back from a package loaded up front
                rec.count("packages_pulled_in_by_resolution", len(pulled_in))
                if external is None:
                    rec.count("private_sibling_pulled_in_with_external_none")
                for mod, ds in flat.items():
                    if mod.split(".")[0] in pulled_in and any(
                            d["t"] == "wild" and "rel" not in d and d["module"].split(".")[0] in packages and d["module"].split(".")[0] not in pulled_in
                            for d in ds):
                        rec.count("pulled_in_package_wildcard_imports_back")
                        break
            rec.maximum("max_stack_depth", depth)
            nmods = len(graphs.MODULES)
            if depth > 40 * (nmods + naliases + 1):
                rec.fail(case, "call stack deeper than 40 x (#modules + #aliases)", observed=depth, nontrivial=nontrivial)
                return
            # (4) fixpoint -----------------------------------------------------------------
            stage = "fixpoint"
            rec.count("fixpoint_comparisons", 2)
            for i in (1, 2):
                if snaps[i][0] != snaps[0][0]:
                    # (an unresolved alias is recorded as None: one that appears or disappears is a change too)
                    diff = {k: (snaps[0][0].get(k), snaps[i][0].get(k)) for k in set(snaps[0][0]) | set(snaps[i][0])
                            if snaps[0][0].get(k) != snaps[i][0].get(k) or (k in snaps[0][0]) != (k in snaps[i][0])}
                    # mechanism predicate: the later call only *added* aliases / resolved more (monotone progress), nothing
                    # that existed changed or disappeared, and the graph contains a wildcard import
                    # mechanism predicate: a wildcard placeholder left unexpanded by the first call was expanded by a later
                    # one (it is gone now), and every other change sits in the module that held such a placeholder
                    gone = [k[len("placeholder:"):] for k, (before, after) in diff.items()
                            if k.startswith("placeholder:") and before is not None and after is None]
                    holders = {g.rsplit(".", 1)[0] for g in gone}
                    # ... or in a module that wildcard-imports (transitively) from such a module: the late names travel on
                    # ... or, knock-on, in a module that imports in any form (transitively) from such a module: the late names
                    # replace what a named import there used to reach (an alias chain that ended in an object now ends in an
                    # alias delivered late, a submodule is shadowed by a late name, ...)
                    edges = graphs.wildcard_edges(_flatten(descs))
                    pkgs_ = {rel[: -len("/__init__.py")].replace("/", ".") for rel in files if rel.endswith("/__init__.py")}
                    imports_ = {m_: set() for m_ in flat}
                    for m_, ds_ in flat.items():
                        for d_ in ds_:
                            if d_["t"] in ("from", "wild"):
                                t_ = graphs.absolute(m_, d_, pkgs_)
                                if t_:
                                    imports_[m_].add(t_)
                                    if d_["t"] == "from":
                                        imports_[m_].add(f"{t_}.{d_['name']}")
                            elif d_["t"] == "import":
                                imports_[m_].add(d_["module"])
                    affected = set(holders)
                    grew = True
                    while grew:
                        grew = False
                        for mod_, tgts in imports_.items():
                            if mod_ not in affected and tgts & affected:
                                affected.add(mod_)
                                grew = True

                    def owner(key: str) -> str:
                        parts = key.split(".")
                        for cut in range(len(parts) - 1, 0, -1):
                            if ".".join(parts[:cut]) in edges:
                                return ".".join(parts[:cut])
                        return key.rsplit(".", 1)[0]

                    # ... or is a mere resolution (unresolved before, resolved now): expanding a wildcard through an alias
                    # of a module dereferences that module's own aliases
                    # ... or is an alias of a package that only arrived with this later call (the late expansion led on into it)
                    arrived = {x for j in range(1, i + 1) for x in pulled_by_call[j]} if external is not False else set()
                    others_ok = all(k.startswith("placeholder:") or owner(k) in affected or (v[1] is not None and (v[0] is None or v[0][0] == "PARTIAL"))
                                    or k.split(".")[0] in arrived
                                    # ... or lies inside something that itself changed (a submodule shadowed by a late name
                                    # takes its members out of the tree)
                                    or any(".".join(k.split(".")[:cut]) in diff for cut in range(1, k.count(".") + 1))
                                    # ... or is an alias whose chain ended / ends in something that changed or in an affected module
                                    or any(t_ is not None and (owner(t_[1]) in affected or any(".".join(t_[1].split(".")[:cut]) in diff
                                                                                            for cut in range(1, t_[1].count(".") + 2)))
                                           for t_ in v)
                                    for k, v in diff.items())
                    fid = None
                    if gone and others_ok:
                        # two mechanisms give this picture: resolve_aliases expands wildcards once, before its resolution loop,
                        # so a wildcard over a package the loop itself pulls in (external) is only expanded by the next call;
                        # without such a nested load it is the expansion-order defect (repaired by ea4724e)
                        fid = ("C06-wildcards-not-expanded-again-after-external-load" if external is not False and pulled_in
                               else "C06-wildcard-late-expansion")
                    # the same root (wildcards are expanded once per call, over the packages present when the call began) in its
                    # other observed form: a package that arrived during an earlier call holds a wildcard into a package nobody
                    # loaded yet; the pre-pass of THIS call walks it with the caller's `external` and loads that package.  Then
                    # every change is an alias of the newly arrived package(s), or a mere resolution.
                    earlier = set(pulled_in) - arrived
                    if (not fid and not gone and arrived and external is not False
                            and all(k.removeprefix("placeholder:").split(".")[0] in arrived or (v[1] is not None and v[0] is None)
                                    for k, v in diff.items())
                            and any(d_["t"] == "wild" and "rel" not in d_ and d_["module"].split(".")[0] in arrived
                                    for m_, ds_ in flat.items() if m_.split(".")[0] in earlier for d_ in ds_)):
                        fid = "C06-wildcards-of-pulled-in-package-followed-by-next-call"
                    # a chain that is a cycle by PATHS and only ends through a stale alias object: once some alias has cached a
                    # member that a wildcard expansion replaced afterwards (the listed early-resolution mechanism), an alias that
                    # the resolution loop gave up on as cyclic becomes resolvable - by whichever later call tries it next.  Every
                    # change is then a mere resolution, and the resolved chain passes an alias object the tree no longer holds.
                    if (not fid and not gone and diff
                            and all(not k.startswith("placeholder:") and v[1] is not None and (v[0] is None or v[0][0] == "PARTIAL")
                                    for k, v in diff.items())
                            and all(chain_passes_detached_alias(loader.modules_collection, k) for k in diff)):
                        fid = ID_STALE_CYCLE
                    if fid:
                        deferred.append((fid, f"resolve_aliases() call #{i + 1} changed the tree (not a fixpoint): " + str(sorted(diff))[:200]))
                        break   # a listed mechanism: go on with the other monitors of this case
                    rec.fail(case, f"resolve_aliases() call #{i + 1} changed the tree (not a fixpoint)",
                             observed={"changed": diff, "unresolved": [snaps[0][1], snaps[i][1]]},
                             tried=["C06-wildcard-late-expansion", "C06-wildcards-not-expanded-again-after-external-load",
                                    "C06-wildcards-of-pulled-in-package-followed-by-next-call", ID_STALE_CYCLE], nontrivial=nontrivial, tags=tags)
                    return
            # (3) all-or-nothing -------------------------------------------------------------
            stage = "all-or-nothing"
            for path, st in snaps[2][0].items():
                if st is not None and st[0] != "placeholder":
                    rec.count("resolved_chains_walked")
                    if st[0] == "CYCLE":
                        rec.count("resolved_cycles_seen")
                    if st[0] == "PARTIAL":
                        fid = "C06-wildcard-alias-preresolved" if st[3] else None
                        msg = (f"alias {path} is resolved but its chain stops at the unresolved alias {st[1]} "
                               f"(last resolved link {st[2]}, created pre-bound by wildcard expansion / alias member view: {st[3]})")
                        if fid:
                            deferred.append((fid, msg))
                            continue
                        rec.fail(case, msg, observed=list(st), tried=["C06-wildcard-alias-preresolved"], nontrivial=nontrivial, tags=tags)
                        return
            # (2) walker -------------------------------------------------------------------
            stage = "walker"
            soft = (AttributeError, ValueError, BuiltinModuleError)
            proxied = proxied_names()
            tally: dict[str, int] = {}
            worst = [0]
            views: list = []     # aliases that are not stored in the tree: member views of aliases, inherited members

            def touch(al, origin: str) -> bool:  # noqa: ANN001, C901, PLR0912
                """Read everything the alias offers; False = a violation was recorded (stop the case)."""
                tally["aliases_walked"] = tally.get("aliases_walked", 0) + 1
                tally[f"aliases_walked_{origin}"] = tally.get(f"aliases_walked_{origin}", 0) + 1
                steps.begin(ACCESS_BUDGET)
                for label, name, read in accessors():
                    if steps.tripped:
                        steps.begin(ACCESS_BUDGET)
                    steps.count = steps.depth = 0    # the budget is per read; the events stay switched on for the whole alias
                    try:
                        tally["accessor_calls"] = tally.get("accessor_calls", 0) + 1
                        tally["acc:" + label] = tally.get("acc:" + label, 0) + 1
                        try:
                            v = read(al)
                            consume(v)
                        finally:   # what follows (handlers included) is not part of the read
                            if steps.count > worst[0]:
                                worst[0] = steps.count
                            steps.count = 0
                        if origin == "tree" and name in ("members", "inherited_members") and isinstance(v, dict) and len(views) < 4 * DERIVED_CAP:
                            views.extend(("inherited-view" if name == "inherited_members" else "member-view", x) for x in v.values())
                    except AliasResolutionError:
                        tally["accessor_raised_resolution_error"] = tally.get("accessor_raised_resolution_error", 0) + 1
                        tally["unres:" + label] = tally.get("unres:" + label, 0) + 1
                        if reference:
                            rec.fail(case, f"{label} of the plain alias {al.path} raised AliasResolutionError", nontrivial=nontrivial, tags=tags)
                            return False
                    except CyclicAliasError:
                        tally["accessor_raised_cyclic_error"] = tally.get("accessor_raised_cyclic_error", 0) + 1
                        tally["cyc:" + label] = tally.get("cyc:" + label, 0) + 1
                        if reference:
                            rec.fail(case, f"{label} of the plain alias {al.path} raised CyclicAliasError", nontrivial=nontrivial, tags=tags)
                            return False
                    except mon.StepBudgetExceeded as exc:
                        if label == "has_docstrings" and recursion_inside(exc, "has_docstrings"):  # same unbounded recursion, caught by the step budget before the stack limit
                            deferred.append(("C06-has-docstrings-recursion", f"accessor has_docstrings of alias {al.path} exceeded its step budget"))
                            continue
                        rec.fail_exc(case, f"accessor {label} of alias {al.path} ({origin}) exceeded its step budget (loops?)", exc, nontrivial=nontrivial, tags=tags)
                        return False
                    except soft as exc:
                        # admissible only as the faithful answer of a resolvable alias: the same read on the object the
                        # chain ends in gives the same kind of error (a function has no `bases`, a path outside the
                        # working directory has no relative form, ...); never for what only aliases have
                        same, direct = False, "not compared: the chain does not end in an object"
                        if name in proxied:
                            try:
                                final = al.final_target
                            except (AliasResolutionError, CyclicAliasError):
                                final = None
                            if final is not None:
                                try:
                                    consume(read(final))
                                    direct = "a value"
                                except mon.StepBudgetExceeded:
                                    direct = "step budget exceeded"
                                except Exception as exc2:  # noqa: BLE001
                                    direct = type(exc2).__name__
                                    same = type(exc2) is type(exc)
                        else:
                            direct = "not compared: real objects have no such attribute"
                        if same:
                            tally["soft_error_same_as_target"] = tally.get("soft_error_same_as_target", 0) + 1
                            rec.add_to_set("errors_an_alias_shares_with_its_target", f"{label} of an alias to {final.kind.value}: {type(exc).__name__}")
                            continue
                        rec.fail_exc(case, f"accessor {label} of alias {al.path} ({origin}) raised {type(exc).__name__}; the same read on its "
                                           f"final target gives: {direct}", exc, tried=["C06-has-docstrings-recursion"], nontrivial=nontrivial, tags=tags)
                        return False
                    except Exception as exc:  # noqa: BLE001
                        if label == "has_docstrings" and isinstance(exc, RecursionError) and recursion_inside(exc, "has_docstrings"):
                            deferred.append(("C06-has-docstrings-recursion", f"accessor has_docstrings of alias {al.path} raised RecursionError"))
                            continue
                        rec.fail_exc(case, f"accessor {label} of alias {al.path} ({origin}) raised {type(exc).__name__}", exc,
                                     tried=["C06-has-docstrings-recursion"], nontrivial=nontrivial, tags=tags)
                        return False
                steps.end()
                return True

            def flush() -> None:
                steps.end()
                rec.maximum("max_steps_accessor", worst[0])
                for k_, v_ in tally.items():
                    rec.count(k_, v_)
                tally.clear()

            for al in all_aliases(loader.modules_collection):
                if not touch(al, "tree"):
                    flush()
                    return
                # after touching: a resolved alias must still have a fully resolved chain
                if al.resolved:
                    t, ids, partial_known = al, set(), False
                    while t.is_alias and id(t) not in ids:
                        ids.add(id(t))
                        if not t.resolved:
                            if any(d[0] == "C06-wildcard-alias-preresolved" for d in deferred):
                                partial_known = True  # already recorded as the listed mechanism for this case
                                break
                            flush()
                            rec.fail(case, f"alias {al.path} resolved with an unresolved link {t.path} in its chain (after dereferencing)", nontrivial=nontrivial)
                            return
                        t = t.target
                    if t.is_alias and not partial_known:  # cycle of resolved links: final_target must say so
                        try:
                            al.final_target  # noqa: B018
                            flush()
                            rec.fail(case, f"resolved chain of {al.path} is a cycle but final_target returned", nontrivial=nontrivial)
                            return
                        except CyclicAliasError:
                            rec.count("resolved_cycle_reported_as_cyclic")
            # aliases that exist only as views: what a class inherits (real classes of the tree), and the members /
            # inherited members an alias shows of its target (collected above) - each of them is an Alias in its own right
            inherited: list = []
            for cls in all_classes(loader.modules_collection):
                steps.begin(ACCESS_BUDGET)
                try:
                    inherited.extend(("inherited", x) for x in cls.inherited_members.values())
                    tally["classes_asked_for_inherited_members"] = tally.get("classes_asked_for_inherited_members", 0) + 1
                except (AliasResolutionError, CyclicAliasError):
                    tally["inherited_members_raised_alias_error"] = tally.get("inherited_members_raised_alias_error", 0) + 1
                except mon.StepBudgetExceeded as exc:
                    flush()
                    rec.fail_exc(case, f"inherited_members of class {cls.path} exceeded its step budget (loops?)", exc, nontrivial=nontrivial, tags=tags)
                    return
                except Exception as exc:  # noqa: BLE001
                    flush()
                    rec.fail_exc(case, f"inherited_members of class {cls.path} raised {type(exc).__name__}", exc, nontrivial=nontrivial, tags=tags)
                    return
                finally:
                    steps.end()
            # inherited ones first, then the views, interleaved fairly by a stride so that the cap does not always keep the same module
            derived = inherited[:DERIVED_CAP // 2]
            room = DERIVED_CAP - len(derived)
            stride = max(1, len(views) // room) if room else 1
            derived += views[::stride][:room]
            for origin, al in derived:
                if not touch(al, origin):
                    flush()
                    return
            flush()
    except mon.StepBudgetExceeded as exc:
        rec.fail_exc(case, f"step budget exceeded during {stage}", exc, nontrivial=nontrivial, tags=tags)
        return
    except RecursionError as exc:
        rec.fail_exc(case, f"stack overflow during {stage}", exc, nontrivial=nontrivial, tags=tags)
        return
    except Exception as exc:  # noqa: BLE001
        nested = [p for p in PACKAGES_LOADED[call_mark[0]:] if p != call_asked[0]]
        fid, tried = classify(files, descs, exc, loaded_now or [x for x in order if x != 'resolve'], external, nested)
        rec.fail_exc(case, f"{type(exc).__name__} escaped {stage}", exc, finding=fid, tried=tried, nontrivial=nontrivial, tags=tags)
        return
    except BaseException as exc:  # noqa: BLE001
        if type(exc).__name__ != "CaseTimeout":
            raise
        steps.end()
        rec.inconclusive(case, f"wall-clock watchdog fired during {stage} (the logical budgets were not exceeded)")
        return
    if deferred:  # the walk completed; the only refutations were of a listed mechanism (one record per case)
        rec.fail(case, deferred[0][1], observed=[d[1] for d in deferred][:5], finding=deferred[0][0], nontrivial=nontrivial, tags=tags)
    else:
        rec.ok(case, nontrivial=nontrivial, tags=tags)


# -- structure helpers (also usable on replayed literal files) ------------------------------
def describe_from_files(files: dict) -> dict:
    import ast

    descs: dict[str, list[dict]] = {}
    for rel, src in files.items():
        mod = rel[:-3].replace("/", ".").removesuffix(".__init__")
        ds = []
        try:
            tree = ast.parse(src)
        except SyntaxError:
            descs[mod] = ds
            continue
        for node in ast.walk(tree):
            if isinstance(node, ast.ImportFrom):
                for a in node.names:
                    d = {"t": "wild" if a.name == "*" else "from", "module": node.module or "", "name": a.name}
                    if node.level:
                        d["rel"] = node.level
                    if a.asname:
                        d["as"] = a.asname
                    ds.append(d)
            elif isinstance(node, ast.Import):
                for a in node.names:
                    ds.append({"t": "import", "module": a.name, "as": a.asname})
            elif isinstance(node, (ast.FunctionDef, ast.ClassDef)):
                ds.append({"t": "def", "name": node.name})
            elif isinstance(node, (ast.Assign, ast.AnnAssign, ast.AugAssign)):
                tgt = node.targets[0] if isinstance(node, ast.Assign) else node.target
                if isinstance(tgt, ast.Name) and tgt.id == "__all__" and node.value is not None:
                    ds.extend(_all_references(node.value))
                elif isinstance(tgt, ast.Name) and not isinstance(node, ast.AugAssign):
                    ds.append({"t": "def", "name": tgt.id})
        descs[mod] = ds
    return descs


def _all_references(value) -> list[dict]:  # noqa: ANN001
    """The other lists an ``__all__`` value is composed from: ``x.y.__all__`` attributes and bare names."""
    import ast

    out: list[dict] = []

    def dotted(node) -> str | None:  # noqa: ANN001
        if isinstance(node, ast.Name):
            return node.id
        if isinstance(node, ast.Attribute):
            left = dotted(node.value)
            return None if left is None else f"{left}.{node.attr}"
        return None

    def visit(node) -> None:  # noqa: ANN001
        if isinstance(node, (ast.Name, ast.Attribute)):
            path = dotted(node)
            if path == "__all__":
                out.append({"t": "allref", "ref": "", "bare": False})
            elif path and path.endswith(".__all__"):
                out.append({"t": "allref", "ref": path[: -len(".__all__")], "bare": False})
            elif path:
                out.append({"t": "allref", "ref": path, "bare": True})
            return
        for child in ast.iter_child_nodes(node):
            visit(child)

    visit(value)
    return out


def _flatten(descs: dict) -> dict:
    return {m: [d["inner"] if d["t"] == "class-import" else d for d in ds] for m, ds in descs.items()}


def has_any_cycle(descs: dict) -> bool:
    descs = _flatten(descs)
    edges: dict[str, set[str]] = {m: set() for m in descs}
    for mod, ds in descs.items():
        for d in ds:
            if d["t"] in ("from", "wild", "import"):
                tgt = graphs.absolute(mod, d) if d["t"] != "import" else d["module"]
                if tgt:
                    edges[mod].add(tgt)
                    if d["t"] == "from":
                        edges[mod].add(tgt + "." + d["name"])
    for mod, reached, _, _ in graphs.export_hops(descs):
        if reached:
            edges[mod].add(reached)
    for start in edges:
        seen, todo = set(), list(edges[start])
        while todo:
            m = todo.pop()
            if m == start:
                return True
            if m in seen or m not in edges:
                continue
            seen.add(m)
            todo.extend(edges[m])
    return False


def has_dangling(descs: dict) -> bool:
    descs = _flatten(descs)
    defined = {m: {d["name"] for d in ds if d["t"] == "def"} | {d.get("as") or d["name"] for d in ds if d["t"] == "from"}
               for m, ds in descs.items()}
    for mod, ds in descs.items():
        for d in ds:
            if d["t"] in ("from", "wild"):
                tgt = graphs.absolute(mod, d)
                if tgt is None or tgt not in descs:
                    return True
                if d["t"] == "from" and d["name"] not in defined.get(tgt, ()) and f"{tgt}.{d['name']}" not in descs:
                    return True
            elif d["t"] == "import" and d["module"] not in descs:
                return True
    return False


# The plain package: aliases (import forms of every kind) of a package, a module, classes - with bases, members, inherited
# members, an inheritance cycle -, a decorated function, a property, attributes; all resolvable.  Walked like every other case,
# with the extra demand that no read reports an alias error: it shows, on the tree under test, which reads of a resolvable
# alias answer with an AttributeError / ValueError and that these are the answers of the target itself.
REFERENCE_FILES = {
    "refpkg/__init__.py": '"""Package."""\nfrom refpkg.m import f, C, D, v, w, E1\nfrom refpkg import m as malias\nimport refpkg.sub as subalias\n'
                          'from refpkg.sub import n as nn\nfrom refpkg.sub.n import *\n__all__ = ["f", "C", "D", "v", "malias", "g"]\n',
    "refpkg/m.py": '"""Module."""\nfrom refpkg.sub.n import Base\n\ndef deco(fn): return fn\n\n@deco\ndef f(a: int, *b: str, c=1, **d) -> bool:\n    """F."""\n\n'
                   'class C(Base):\n    """C."""\n    x: int = 1\n    """x."""\n    from refpkg.sub.n import g\n    def meth(self): ...\n'
                   '    @property\n    def prop(self) -> int: ...\n    @prop.setter\n    def prop(self, value): ...\n    class Inner: ...\n\n'
                   'class D(C, Base): ...\n\nclass E1(E2): ...\nclass E2(E1): ...\n\nv: int = 3\n"""v."""\nw = v\n',
    "refpkg/sub/__init__.py": "from . import n\n",
    "refpkg/sub/n.py": 'class Base:\n    b = 0\n    def inherited(self): ...\n\ndef g(): ...\n',
}


def run_shard(spec: dict, rec) -> None:  # noqa: ANN001
    rng = random.Random(spec["seed"])
    steps = mon.Steps()
    run_case(rec, REFERENCE_FILES, None, ["refpkg"], True, False, steps, reference=True)
    rec.count("reference_packages_walked")
    for _ in range(spec["count"]):
        r = rng.random()
        if r < 0.25:
            files, descs = graphs.gen_ring(rng)
            rec.count("ring_graphs")
        elif r < 0.45:
            files, descs = graphs.gen_allring(rng)
            rec.count("all_composition_graphs")
        elif r < 0.53:
            # chains over 3-4 packages: only a prefix is loaded, the rest must be pulled in by resolve_aliases itself
            files, pkgs = graphs.gen_extchain(rng)
            rec.count("external_chain_graphs")
            npre = rng.randint(1, len(pkgs) - 1)
            order = pkgs[:npre] if rng.random() < 0.7 else rng.sample(pkgs, npre)
            if rng.random() < 0.3:
                order = [*order[:1], "resolve", *order[1:]]
            run_case(rec, files, None, order, rng.random() < 0.7, rng.choice([True, True, True, None, False]), steps)
            continue
        elif r < 0.65:
            # 2-4 packages importing from each other (wildcards, names, both; cycles), a subset loaded explicitly: the others
            # arrive in the middle of wildcard expansion / resolution and import back from the objects being walked
            files, pkgs, order = graphs.gen_extmix(rng)
            rec.count("external_mix_graphs")
            if rng.random() < 0.3:
                cut = rng.randint(1, len(order))
                order = [*order[:cut], "resolve", *order[cut:]]
            run_case(rec, files, None, order, rng.random() < 0.7, rng.choice([True, True, None, None, False]), steps)
            continue
        else:
            files, descs = graphs.gen_graph(rng, hostile=spec["hostile"])
        order = rng.choice([["p", "q"], ["q", "p"], ["p"], ["q", "p"], ["p", "resolve", "q"], ["q", "resolve", "p"],
                            ["p", "resolve", "q", "resolve"]])
        implicit = rng.random() < 0.6
        external = rng.choice([False, None, True])
        run_case(rec, files, descs, order, implicit, external, steps)


def run_replay(inp: dict, rec) -> None:  # noqa: ANN001
    run_case(rec, inp["files"], None, inp["order"], inp["implicit"], inp["external"], mon.Steps(), reference=bool(inp.get("reference")))


def run_pinned(findings: list[dict], rec) -> dict:  # noqa: ANN001
    from vf.core.rec import Recorder, pinned_result

    out = {}
    for f in findings:
        sub = Recorder(PROP, {})
        w = f["witness"]
        run_case(sub, w["files"], None, w.get("order", ["p"]), w.get("implicit", True), w.get("external", False), mon.Steps())
        out[f["id"]] = pinned_result(sub, f)
    return out
