"""C10 — No call-breaking signature change goes unreported.

Workload: every legal signature over a small name alphabet (all five kinds, default in
{none, 0, 1}, every legal order) and the full cross product of (old, new) pairs; every call
shape with 0..3 positional arguments and any subset of {a, b, c, zz} as keywords.
Oracle: CPython's own binder (``inspect.Signature.bind``, cross-checked by really calling
the compiled definitions).  Griffe side: one-function modules visited and diffed with
``find_breaking_changes``.
"""
from __future__ import annotations

import inspect
import itertools
import random

from vf.core.util import visit_source

PROP = "C10"
LEVEL = "exploration"
ANCHORS = ["diff.py"]
RULE = ("all legal signatures over parameter names {a,b} (quick) / {a,b,c} (thorough; pairs sampled per shard beyond the "
        "full {a,b} product) x kinds {pos-only, normal, *var, kw-only, **var} x default in {none,0,1}; all (old,new) "
        "pairs; 64 call shapes (0..3 positional x subsets of keywords {a,b,c,zz}) bound with inspect.Signature.bind. "
        "distinct = (old source, new source); non-trivial = at least one call binds to old and not to new")
LEVEL_TEXT = ("For every pair of the enumerated signature space the set of calls CPython binds to the old but not the new "
              "definition is computed with CPython's binder; the real find_breaking_changes must report >=1 breakage "
              "whenever that set is non-empty, must name every moved / default-changed / newly-required parameter, must "
              "stay silent on identical pairs and must only name parameters that changed. Exhaustive over the {a,b} "
              "alphabet; the {a,b,c} space is exhaustive in thorough tier for signature pairs sharing the sampled old side.")
LEVEL_NOTE = ("trusted: inspect.Signature.bind (cross-checked against real calls for every signature x call shape); call "
              "shapes bounded to <=3 positional and keywords from {a,b,c,zz}; defaults limited to two literal values")
TECHNIQUE = "runtime monitoring: differential oracle (CPython Signature.bind / real calls) over an exhaustively enumerated pair space"
REQUIRED_COUNTERS = ["pairs_with_broken_call", "identical_pairs_silent", "moved_checked", "default_changed_checked",
                     "became_required_checked", "reported_param_breakages_checked", "bind_vs_real_call_agreements"]
EXHAUSTIVE = {"quick": True, "thorough": True}
ASSUMPTIONS = ["a call is 'broken' iff really calling the old definition succeeds and the new one raises TypeError at binding (inspect.Signature.bind is the cross-check; where it disagrees the real call wins)",
               "call shapes limited to 0..3 positional arguments and keyword subsets of {a,b,c,zz}"]

PO, PK, VP, KO, VK = "po", "pk", "vp", "ko", "vk"
KW_NAMES = ["a", "b", "c", "zz"]
CALLS = [(npos, kws) for npos in range(4) for r in range(len(KW_NAMES) + 1) for kws in itertools.combinations(KW_NAMES, r)]


def signatures(names: list[str]) -> list[tuple[tuple[str, str, str | None], ...]]:
    """All legal parameter lists using distinct names from ``names`` (any subset, any order)."""
    out = []
    defaults = [None, "0", "1"]
    for r in range(len(names) + 1):
        for chosen in itertools.permutations(names, r):
            # split chosen into po | pk | vp? | ko | vk?
            for kinds in itertools.product([PO, PK, VP, KO, VK], repeat=r):
                order = [PO, PK, VP, KO, VK]
                idx = [order.index(k) for k in kinds]
                if idx != sorted(idx) or kinds.count(VP) > 1 or kinds.count(VK) > 1:
                    continue
                slots = [[None] if k in (VP, VK) else defaults for k in kinds]
                for dfl in itertools.product(*slots):
                    # positional defaults must be a suffix of the positional parameters
                    seen_default = False
                    legal = True
                    for k, d in zip(kinds, dfl):
                        if k in (PO, PK):
                            if d is not None:
                                seen_default = True
                            elif seen_default:
                                legal = False
                                break
                    if legal:
                        out.append(tuple(zip(chosen, kinds, dfl)))
    return out


def render(sig) -> str:  # noqa: ANN001
    parts = []
    kinds = [k for _, k, _ in sig]
    for i, (name, kind, dfl) in enumerate(sig):
        if kind == KO and VP not in kinds and (i == 0 or kinds[i - 1] != KO):
            parts.append("*")
        txt = {VP: "*" + name, VK: "**" + name}.get(kind, name)
        if dfl is not None:
            txt += "=" + dfl
        parts.append(txt)
        if kind == PO and (i + 1 == len(sig) or kinds[i + 1] != PO):
            parts.append("/")
    return f"def f({', '.join(parts)}): ...\n"


def accepted_mask(src: str, rec) -> int:  # noqa: ANN001
    ns: dict = {}
    exec(compile(src, "<sig>", "exec"), ns)  # noqa: S102
    func = ns["f"]
    sig = inspect.signature(func)
    mask = 0
    for bit, (npos, kws) in enumerate(CALLS):
        args = tuple(range(npos))
        kwargs = {k: 9 for k in kws}
        try:
            sig.bind(*args, **kwargs)
            ok = True
        except TypeError:
            ok = False
        try:
            func(*args, **kwargs)
            real = True
        except TypeError:
            real = False
        if real != ok:
            # CPython 3.12's inspect refuses a positional-only name passed by keyword even when **kw would take it
            # (def f(a=0, /, **b); f(a=9) really works).  The real call is the ground truth; the disagreement is counted.
            rec.count("bind_vs_real_call_disagreements")
            rec.note(f"Signature.bind disagrees with the real call on {src.strip()!r} (real call wins)")
        else:
            rec.count("bind_vs_real_call_agreements")
        if real:
            mask |= 1 << bit
    return mask


def describe(sig) -> dict:  # noqa: ANN001
    """name -> (kind, index, default, required) as CPython sees it."""
    return {name: (kind, i, dfl, dfl is None and kind not in (VP, VK)) for i, (name, kind, dfl) in enumerate(sig)}


# ------------------------------------------------------------------------------------------
# mechanism classifiers for *missed* breakages (relations between the two signatures)
def classify_miss(old, new, so: str, sn: str, broken: int) -> tuple[str | None, list[str]]:  # noqa: ANN001
    """Known-finding predicates are relations between the two signatures plus the observed failure class."""
    do, dn = describe(old), describe(new)
    tried = ["C10-variadic-loses-stars", "C10-new-variadic-name-collision"]
    for name, (kind, _i, _d, _r) in do.items():
        if kind in (VP, VK) and name in dn and dn[name][0] not in (VP, VK) and not any(k == kind for k, *_ in dn.values()):
            return "C10-variadic-loses-stars", tried
    if any(k in (VP, VK) for k, *_ in dn.values()):
        ns: dict = {}
        exec(compile(sn, "<new>", "exec"), ns)  # noqa: S102
        only_multiple = True
        for bit, (npos, kws) in enumerate(CALLS):
            if broken >> bit & 1:
                try:
                    ns["f"](*range(npos), **{k: 9 for k in kws})
                except TypeError as exc:
                    if "multiple values for argument" not in str(exc):
                        only_multiple = False
                        break
        if only_multiple:
            return "C10-new-variadic-name-collision", tried
    return None, tried


def shards(tier: str, seed: int) -> list[dict]:
    nsh = 16
    out = [{"kind": "pairs", "names": ["a", "b"], "part": p, "parts": nsh, "sample": None} for p in range(nsh)]
    if tier == "thorough":
        out += [{"kind": "pairs", "names": ["a", "b", "c"], "part": p, "parts": 32, "sample": 60} for p in range(32)]
    else:
        out += [{"kind": "pairs", "names": ["a", "b", "c"], "part": p, "parts": 8, "sample": 3} for p in range(8)]
    return out


def param_name(breakage) -> str | None:  # noqa: ANN001
    for v in (breakage.old_value, breakage.new_value):
        if hasattr(v, "name") and hasattr(v, "kind") and hasattr(v, "default"):
            return v.name
    return None


def run_pair(rec, old, new, so, sn, mo, mn, old_mod, new_mod, nontrivial_extra=False) -> None:  # noqa: ANN001, C901, PLR0912
    import griffe

    case = {"old": so, "new": sn}
    broken = mo & ~mn
    nontrivial = bool(broken)
    try:
        breakages = list(griffe.find_breaking_changes(old_mod, new_mod))
        for b in breakages:
            for style in griffe.ExplanationStyle:
                b.explain(style)
    except Exception as exc:  # noqa: BLE001
        rec.fail_exc(case, "find_breaking_changes / explain raised", exc, nontrivial=nontrivial)
        return
    kinds = [b.kind.value for b in breakages]
    do, dn = describe(old), describe(new)
    problems = []
    if broken:
        rec.count("pairs_with_broken_call")
        if not breakages:
            bit = (broken & -broken).bit_length() - 1
            npos, kws = CALLS[bit]
            call = "f(" + ", ".join([str(i) for i in range(npos)] + [f"{k}=9" for k in kws]) + ")"
            fid, tried = classify_miss(old, new, so, sn, broken)
            rec.fail(case, "a call binds to the old signature, not to the new one, and nothing is reported",
                     observed={"breakages": [], "witness_call": call}, expected=">=1 breakage", finding=fid, tried=tried,
                     tags=("miss",))
            return
    if so == sn:
        if breakages:
            problems.append(("identical signatures but breakages reported", kinds, []))
        else:
            rec.count("identical_pairs_silent")
    named = {}
    for b in breakages:
        n = param_name(b)
        if n is not None:
            named.setdefault(n, []).append(b.kind.value)
    for name, (kind, idx, dfl, req) in do.items():
        if name not in dn:
            continue
        nkind, nidx, ndfl, nreq = dn[name]
        if kind in (PO, PK) and nkind in (PO, PK) and idx != nidx:
            rec.count("moved_checked")
            if name not in named:
                problems.append((f"positional parameter {name} moved {idx}->{nidx} but no breakage names it", kinds, "moved"))
        if kind not in (VP, VK) and nkind not in (VP, VK) and dfl is not None and ndfl is not None and dfl != ndfl:
            rec.count("default_changed_checked")
            if name not in named:
                problems.append((f"default of {name} changed {dfl}->{ndfl} but no breakage names it", kinds, "changed default"))
        if not req and nreq:
            rec.count("became_required_checked")
            if name not in named:
                problems.append((f"parameter {name} became required but no breakage names it", kinds, "became required"))
    for name, ks in named.items():
        rec.count("reported_param_breakages_checked", len(ks))
        a, b = do.get(name), dn.get(name)
        if a == b:
            problems.append((f"breakage {ks} names parameter {name} which did not change", kinds, "no report on it"))
    if problems:
        rec.fail(case, problems[0][0], observed=problems[0][1], expected=problems[0][2], nontrivial=nontrivial)
    else:
        rec.ok(case, nontrivial=nontrivial, dig=so + "->" + sn, tags=("broken-call",) if broken else ())


def run_shard(spec: dict, rec) -> None:  # noqa: ANN001
    rng = random.Random(spec["seed"])
    sigs = signatures(spec["names"])
    rec.maximum(f"signatures_over_{''.join(spec['names'])}", len(sigs))
    srcs = [render(s) for s in sigs]
    assert len(set(srcs)) == len(srcs)
    masks = [accepted_mask(s, rec) for s in srcs]
    news = [visit_source(s, "m") for s in srcs]
    olds_idx = [i for i in range(len(sigs)) if i % spec["parts"] == spec["part"]]
    if spec["sample"] is not None:
        rng.shuffle(olds_idx)
        olds_idx = olds_idx[: spec["sample"]]
    for i in olds_idx:
        old_mod = visit_source(srcs[i], "m")
        for j in range(len(sigs)):
            run_pair(rec, sigs[i], sigs[j], srcs[i], srcs[j], masks[i], masks[j], old_mod, news[j])


def _parse(src: str):  # noqa: ANN202
    import ast

    a = ast.parse(src).body[0].args
    out = []
    npos = len(a.posonlyargs) + len(a.args)
    dflts = [None] * (npos - len(a.defaults)) + [ast.unparse(d) for d in a.defaults]
    for k, arg in enumerate(a.posonlyargs + a.args):
        out.append((arg.arg, PO if k < len(a.posonlyargs) else PK, dflts[k]))
    if a.vararg:
        out.append((a.vararg.arg, VP, None))
    for arg, d in zip(a.kwonlyargs, a.kw_defaults):
        out.append((arg.arg, KO, ast.unparse(d) if d is not None else None))
    if a.kwarg:
        out.append((a.kwarg.arg, VK, None))
    return tuple(out)


def run_one(rec, so: str, sn: str) -> None:  # noqa: ANN001
    old, new = _parse(so), _parse(sn)
    run_pair(rec, old, new, so, sn, accepted_mask(so, rec), accepted_mask(sn, rec), visit_source(so, "m"), visit_source(sn, "m"))


def run_replay(inp: dict, rec) -> None:  # noqa: ANN001
    run_one(rec, inp["old"], inp["new"])


def run_pinned(findings: list[dict], rec) -> dict:  # noqa: ANN001
    from vf.core.rec import Recorder, pinned_result

    out = {}
    for f in findings:
        sub = Recorder(PROP, {})
        w = f["witness"]
        run_one(sub, w["old"], w["new"])
        out[f["id"]] = pinned_result(sub, f)
    return out
