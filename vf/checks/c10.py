"""C10 — No call-breaking signature change goes unreported.

Workload: every legal signature over a small name alphabet (all five kinds, default in
{none, 0, 1}, every legal order) and the full cross product of (old, new) pairs; every call
shape with 0..3 positional arguments and any subset of {a, b, c, zz} as keywords.
Oracle: CPython's own binder (``inspect.Signature.bind``, cross-checked by really calling
the compiled definitions).  Griffe side: one-function modules visited and diffed with
``find_breaking_changes``.

Second workload ("placed"): the same signatures as methods / functions behind public paths of
random small class hierarchies spread over one or two modules (own, inherited through private and
public intermediates, several definers in the MRO, nested classes, imported bases, re-exported
functions and classes, ``__all__``), old and new differing by changed signatures, added / removed
overrides, reordered bases, a function moving between modules.  Oracle: both versions are really
executed; CPython's attribute lookup says what every public path resolves to and real calls
through the path say which call shapes bind.

Third workload ("loaded"): *how the two versions reach the finder* is part of the case (in-memory
visit, one loader per version with own extensions, ONE Extensions object for both loads in either
order, ONE loader with two search roots, the real ``griffe.check()`` entry point and the
``griffe check`` command on a throw-away git repository), applied to the placed hierarchies and to
constructors: classes called through a hand-written, inherited or *synthesised* ``__init__``
(dataclass chains: fields added / removed / reordered / re-formed, defaults, ``field()`` options,
``KW_ONLY``, ``kw_only=``, ``InitVar``, ``ClassVar``, inherited and undecorated subclasses).  The
oracle is unchanged: ``Cls(...)`` really binds or raises on the executed old / new code.
The loaded workload also varies *where* a compared function lives and *how* it becomes public:
definitions inside blocks CPython really executes (``if`` / ``else`` / ``try`` / ``except`` /
``finally`` at module or class level, every spelling of the type-checking guard, its negation and
compound conditions containing it, version tests), in private or public submodules of a package,
re-exported through explicit imports, wildcard imports (source with or without ``__all__``) and
chains of them; the packages are really imported by CPython's import system.

Fourth workload ("exprs"): the defaults themselves.  The literal defaults of placed hierarchies are re-spelled by arbitrary
expressions (hostile grammar of ``vf/gen/exprs.py`` plus templates in spellings only the 3.12 parser accepts); a prelude of
symbolic values makes CPython really evaluate them, so "optional", "required" and "default value changed" are still read
from the executed definitions (``inspect.signature``), never from griffe.
"""
from __future__ import annotations

import ast
import importlib
import inspect
import itertools
import os
import random
import re
import shutil
import subprocess
import sys
import tempfile
import textwrap
import types

from vf.core.util import visit_source

PROP = "C10"
LEVEL = "exploration"
ANCHORS = ["diff.py"]
RULE = ("all legal signatures over parameter names {a,b} (quick) / {a,b,c} (thorough; pairs sampled per shard beyond the "
        "full {a,b} product) x kinds {pos-only, normal, *var, kw-only, **var} x default in {none,0,1}; all (old,new) "
        "pairs; 64 call shapes (0..3 positional x subsets of keywords {a,b,c,zz}) bound with inspect.Signature.bind. "
        "distinct = (old source, new source); non-trivial = at least one call binds to old and not to new. "
        "Placed workload (random sample per seed): 1..5 classes in modules m / vfh, each public or private, top-level or nested, "
        "0..3 bases among the earlier ones (hierarchies CPython cannot linearise are redrawn), each defining method f or not with a "
        "signature over {a,b}, independently in old and new (same / call-breaking partner / other / absent), instance, static or "
        "class methods, optional module-level function g defined in m or imported from vfh per version, optional __all__; "
        "non-trivial = some call through a public path binds in the old version and not in the new one. "
        "Loaded workload (random sample per seed): 55% dataclass chains of 1..3 classes (first one a dataclass; the others a "
        "dataclass, an undecorated subclass, a subclass with a hand-written __init__, or a dataclass with one; 0..4 fields over "
        "{a,b,c,zz} from 14 forms incl. field(default=/default_factory=/kw_only=/init=False), InitVar, ClassVar, optional KW_ONLY "
        "marker, 7 decorator spellings; base optionally in module vfh; the new version = 0..3 edits among reorder / re-form / add "
        "/ remove field, toggle marker, change decorator, change class kind, change hand-written signature; classes CPython "
        "rejects are redrawn; shapes outside what C18 shows faithfully synthesised - re-declared ClassVar/InitVar/init=False "
        "names, re-declarations without value, init=False decorators, several bases - are not generated) and 45% placed "
        "hierarchies (20% of them with __init__ as the method); each case gets a load mode among {visit (not for dataclasses), "
        "fresh, shared-ext, shared-ext-rev, shared-loader, check-api, check-cli (the last two for single-module cases, a fixed "
        "number per shard)}, a file or package layout and resolve_aliases or not. 30% of the loaded cases are packages m with 1..3 "
        "submodules (85% underscore-named) in a re-export chain (per hop: wildcard or explicit import, relative or absolute, source "
        "module with or without __all__, underscore names listed or not), holding 1..3 of {function g, class K with method f, "
        "function h, function _p} each defined in a random module of the chain inside one of 18 block shapes that CPython executes "
        "(none, if True, if not TYPE_CHECKING / typing.TYPE_CHECKING / t.TYPE_CHECKING, else-branch of a type-checking guard, "
        "sys.version_info tests with or without else, or/and-compounds with the guard on either side, try/except ImportError in "
        "both directions, try/finally, nested ifs; for K around the class or around the method); blocks that do not run never "
        "define a compared name; old/new differ by signature (mostly call-breaking) and 15% also by block shape. "
        "Expression-default workload (random sample per seed): placed hierarchies whose literal defaults are re-spelled per "
        "parameter name: 0 -> E0, 1 -> E1, E0 drawn from the hostile expression grammar of vf/gen/exprs.py (depth 1..3) or from 32 "
        "templates in spellings ast.unparse never emits (PEP 701 reused quotes, nested f-strings to depth 3, nested format "
        "specs, `=` fields, backslash / line break in a field, implicit concatenation, star tuples, starred subscripts, walrus, "
        "lambdas with every parameter kind, conditional expressions, comprehensions, calls with keywords and stars) with "
        "grammar-drawn holes; E1 = a point mutation of E0 (sub-expression, operator, constant, conversion, format spec, keyword "
        "name, star, lambda parameter kind, attribute, element) or an independent draw, always evaluating to another value; "
        "each occurrence uses the drawn text or (30%) another spelling CPython parses to the same tree; expressions CPython "
        "cannot evaluate under the prelude are redrawn; every load mode")
LEVEL_TEXT = ("For every pair of the enumerated signature space the set of calls CPython binds to the old but not the new "
              "definition is computed with CPython's binder; the real find_breaking_changes must report >=1 breakage "
              "whenever that set is non-empty, must name every moved / default-changed / newly-required parameter, must "
              "stay silent on identical pairs and must only name parameters that changed. Exhaustive over the {a,b} "
              "alphabet; the {a,b,c} space is exhaustive in thorough tier for signature pairs sharing the sampled old side. "
              "'Exhaustive' refers to that pair space only: the placements of a function behind public paths (class hierarchies, "
              "inheritance, re-exports) are a random sample; for each of them every public path of the old version is resolved by "
              "really executing both versions and a breakage located at the path, at the owner's member slot or at the resolved "
              "definition is demanded whenever a call through the path stops binding. The same judgement is made for "
              "constructors (the class is really called) and under every way of loading the two versions, including one "
              "Extensions object / one loader serving both and the real check() entry point and CLI (breakages observed "
              "through a pass-through wrapper around cli.find_breaking_changes, resp. parsed from the one-line output; exit "
              "code and number of printed lines must agree with them).")
LEVEL_NOTE = ("trusted: inspect.Signature.bind (cross-checked against real calls for every signature x call shape); call "
              "shapes bounded to <=3 positional and keywords from {a,b,c,zz}; defaults are two literal values in the exhaustive "
              "pair space and arbitrary expressions over symbolic prelude values in the expression-default sample (equality of "
              "two defaults = equality of the repr of what CPython evaluated; of the parsed trees for identity-printed values)")
TECHNIQUE = "runtime monitoring: differential oracle (CPython Signature.bind / real calls) over an exhaustively enumerated pair space"
REQUIRED_COUNTERS = ["pairs_with_broken_call", "identical_pairs_silent", "moved_checked", "default_changed_checked",
                     "became_required_checked", "reported_param_breakages_checked", "bind_vs_real_call_agreements",
                     "placed_paths_with_broken_call", "placed_inherited_paths_with_broken_call",
                     "placed_shadowing_inherited_paths_with_broken_call", "placed_paths_via_private_definer_with_broken_call",
                     "placed_paths_into_other_module_with_broken_call", "placed_identical_silent", "placed_param_rules_checked",
                     "placed_reported_param_breakages_checked", "constructor_paths_with_broken_call",
                     "inherited_constructor_paths_with_broken_call", "dataclass_constructor_paths_with_broken_call",
                     "inherited_dataclass_constructor_paths_with_broken_call", "dataclass_constructor_broken_with_one_extensions_object",
                     "load_mode_visit_paths_with_broken_call", "load_mode_fresh_paths_with_broken_call",
                     "load_mode_shared-ext_paths_with_broken_call", "load_mode_shared-ext-rev_paths_with_broken_call",
                     "load_mode_shared-loader_paths_with_broken_call", "load_mode_check-api_paths_with_broken_call",
                     "load_mode_check-cli_paths_with_broken_call", "check_entry_point_runs", "check_cli_runs",
                     "paths_defined_in_conditional_block_with_broken_call", "paths_defined_under_type_checking_condition_with_broken_call",
                     "paths_defined_under_compound_type_checking_condition_with_broken_call",
                     "paths_through_wildcard_reexport_with_broken_call", "paths_conditional_and_wildcard_reexported_with_broken_call",
                     "paths_defined_in_private_submodule_with_broken_call",
                     "cases_with_expression_defaults", "paths_with_expression_default_and_broken_call",
                     "expression_default_default_changed_checked", "expression_default_became_required_checked",
                     "expression_default_unchanged_pairs", "expression_default_respelled_pairs", "fstring_default_rules_checked",
                     "nested_field_fstring_default_rules_checked", "identity_valued_default_rules_checked"]
EXHAUSTIVE = {"quick": True, "thorough": True}
ASSUMPTIONS = ["a call is 'broken' iff really calling the old definition succeeds and the new one raises TypeError at binding (inspect.Signature.bind is the cross-check; where it disagrees the real call wins)",
               "call shapes limited to 0..3 positional arguments and keyword subsets of {a,b,c,zz}",
               "placed workload: a public path is a name of the main module that is listed in __all__ (or, without __all__, is "
               "defined there and has no leading underscore) followed by underscore-free attribute names; methods are called "
               "through an instance (made without running __init__); a constructor is called through its class; decorators and "
               "flavours (instance/static/class method) are the same in both versions",
               "loaded workload: dataclass shapes are restricted to the region C18 shows to be synthesised like CPython on the pinned "
               "tree (C18's known findings are not reused as explanations here: any discrepancy is a violation); the check-api mode "
               "observes the breakages through a pass-through wrapper installed on _griffe.cli.find_breaking_changes for the call",
               "expression defaults: 'the default value changed' is demanded only when the two evaluated defaults print differently "
               "(prelude names are symbolic values whose repr is the trace of the operations applied); the same value written as "
               "another expression may or may not be reported; two spellings CPython parses to the same tree must not be reported",
               "public names of a module without __all__: every underscore-free name of its executed namespace that no explicit import "
               "statement bound (own definitions and what `from x import *` put there); submodules reachable through underscore-free "
               "names are public whether or not something imports them; a name is never defined in a block that does not run"]

PO, PK, VP, KO, VK = "po", "pk", "vp", "ko", "vk"
KW_NAMES = ["a", "b", "c", "zz"]
CALLS = [(npos, kws) for npos in range(4) for r in range(len(KW_NAMES) + 1) for kws in itertools.combinations(KW_NAMES, r)]


def signatures(names: list[str]) -> list[tuple[tuple[str, str, str | None], ...]]:
    """All legal parameter lists using distinct names from ``names`` (any subset, any order)."""
    out = []
    defaults = [None, "0", "1"]
    for r in range(len(names) + 1):
        for chosen in itertools.permutations(names, r):
            # split chosen into po | pk | vp? | ko | vk?
            for kinds in itertools.product([PO, PK, VP, KO, VK], repeat=r):
                order = [PO, PK, VP, KO, VK]
                idx = [order.index(k) for k in kinds]
                if idx != sorted(idx) or kinds.count(VP) > 1 or kinds.count(VK) > 1:
                    continue
                slots = [[None] if k in (VP, VK) else defaults for k in kinds]
                for dfl in itertools.product(*slots):
                    # positional defaults must be a suffix of the positional parameters
                    seen_default = False
                    legal = True
                    for k, d in zip(kinds, dfl):
                        if k in (PO, PK):
                            if d is not None:
                                seen_default = True
                            elif seen_default:
                                legal = False
                                break
                    if legal:
                        out.append(tuple(zip(chosen, kinds, dfl)))
    return out


def render(sig) -> str:  # noqa: ANN001
    parts = []
    kinds = [k for _, k, _ in sig]
    for i, (name, kind, dfl) in enumerate(sig):
        if kind == KO and VP not in kinds and (i == 0 or kinds[i - 1] != KO):
            parts.append("*")
        txt = {VP: "*" + name, VK: "**" + name}.get(kind, name)
        if dfl is not None:
            txt += "=" + dfl
        parts.append(txt)
        if kind == PO and (i + 1 == len(sig) or kinds[i + 1] != PO):
            parts.append("/")
    return f"def f({', '.join(parts)}): ...\n"


def accepted_mask(src: str, rec) -> int:  # noqa: ANN001
    ns: dict = {}
    exec(compile(src, "<sig>", "exec"), ns)  # noqa: S102
    func = ns["f"]
    sig = inspect.signature(func)
    mask = 0
    for bit, (npos, kws) in enumerate(CALLS):
        args = tuple(range(npos))
        kwargs = {k: 9 for k in kws}
        try:
            sig.bind(*args, **kwargs)
            ok = True
        except TypeError:
            ok = False
        try:
            func(*args, **kwargs)
            real = True
        except TypeError:
            real = False
        if real != ok:
            # CPython 3.12's inspect refuses a positional-only name passed by keyword even when **kw would take it
            # (def f(a=0, /, **b); f(a=9) really works).  The real call is the ground truth; the disagreement is counted.
            rec.count("bind_vs_real_call_disagreements")
            rec.note(f"Signature.bind disagrees with the real call on {src.strip()!r} (real call wins)")
        else:
            rec.count("bind_vs_real_call_agreements")
        if real:
            mask |= 1 << bit
    return mask


def describe(sig) -> dict:  # noqa: ANN001
    """name -> (kind, index, default, required) as CPython sees it."""
    return {name: (kind, i, dfl, dfl is None and kind not in (VP, VK)) for i, (name, kind, dfl) in enumerate(sig)}


# ------------------------------------------------------------------------------------------
# mechanism classifiers for *missed* breakages (relations between the two signatures)
def classify_miss(old, new, so: str, sn: str, broken: int) -> tuple[str | None, list[str]]:  # noqa: ANN001, ARG001
    ns: dict = {}
    exec(compile(sn, "<new>", "exec"), ns)  # noqa: S102
    return classify_miss_funcs(describe(old), describe(new), ns["f"], broken)


def classify_miss_funcs(do: dict, dn: dict, new_call, broken: int) -> tuple[str | None, list[str]]:  # noqa: ANN001
    """Known-finding predicates are relations between the two signatures plus the observed failure class."""
    tried = ["C10-variadic-loses-stars", "C10-new-variadic-name-collision"]
    for name, (kind, _i, _d, _r) in do.items():
        if kind in (VP, VK) and name in dn and dn[name][0] not in (VP, VK) and not any(k == kind for k, *_ in dn.values()):
            return "C10-variadic-loses-stars", tried
    if any(k in (VP, VK) for k, *_ in dn.values()):
        only_multiple = True
        for bit, (npos, kws) in enumerate(CALLS):
            if broken >> bit & 1:
                try:
                    new_call(*range(npos), **{k: 9 for k in kws})
                except TypeError as exc:
                    if "multiple values for argument" not in str(exc):
                        only_multiple = False
                        break
        if only_multiple:
            return "C10-new-variadic-name-collision", tried
    return None, tried


# ------------------------------------------------------------------------------------------
# Placed functions.  The statement quantifies over the signatures of *public functions*; what a caller reaches through a
# public path is whatever CPython resolves that path to: an own method of a public class, a method inherited through a
# class hierarchy (the MRO picks the definition; intermediate classes may be private, several ancestors may define the
# name), a method of a nested class, a class or a function that lives in another module and is imported / re-exported.
# Generator: random small hierarchies spread over one or two modules; every class defines the method or not, old and new
# independently (signature changed, override added, override removed, bases reordered).
# Oracle: both versions are executed; CPython's own attribute lookup names the function behind every public path, real
# calls through that path decide which call shapes bind.  Nothing of griffe's resolution is consulted.
MAIN, HELPER = "m", "vfh"
FLAVORS = {"inst": ("self", ""), "cls": ("cls", "@classmethod\n"), "static": (None, "@staticmethod\n"), "plain": (None, "")}
INSPECT_KIND = {inspect.Parameter.POSITIONAL_ONLY: PO, inspect.Parameter.POSITIONAL_OR_KEYWORD: PK,
                inspect.Parameter.VAR_POSITIONAL: VP, inspect.Parameter.KEYWORD_ONLY: KO, inspect.Parameter.VAR_KEYWORD: VK}


def render_def(sig, name: str, flavor: str) -> str:  # noqa: ANN001
    first, deco = FLAVORS[flavor]
    if first is not None:
        sig = ((first, PO if sig and sig[0][1] == PO else PK, None), *sig)
    return deco + render(sig).replace("def f(", f"def {name}(", 1)


def _render_module(which: str, plan: dict, ver: str, sigs) -> str | None:  # noqa: ANN001
    chunks = []
    if which == MAIN:
        imports = plan["imports"] + (["g"] if plan["g"] is not None and plan["g"]["where"][ver] == HELPER else [])
        if imports:
            chunks.append(f"from {HELPER} import {', '.join(imports)}\n")
        if plan["exports"] is not None:
            chunks.append(f"__all__ = {plan['exports']!r}\n")
    for c in plan["classes"]:
        if c["where"] != which:
            continue
        bases = c["bases"][ver]
        head = f"class {c['name']}" + (f"({', '.join(bases)})" if bases else "") + ":\n"
        d = c[ver]
        text = head + textwrap.indent(render_def(sigs[d], plan.get("method", "f"), plan["flavor"]) if d is not None else "pass\n", "    ")
        if c["box"]:
            text = f"class {c['box']}:\n" + textwrap.indent(text, "    ")
        chunks.append(text)
    if plan["g"] is not None and plan["g"]["where"][ver] == which:
        chunks.append(render_def(sigs[plan["g"][ver]], "g", "plain"))
    if which == HELPER and not chunks:
        return None
    return "\n".join(chunks)


def gen_placed(rng: random.Random, sigs, breaking: list[list[int]]) -> dict:  # noqa: ANN001, C901
    """One literal case {"old": {module: source}, "new": {module: source}}."""
    nsig = len(sigs)

    def partner(i: int) -> int:  # mostly a signature that CPython refuses for some call sigs[i] accepts
        return rng.choice(breaking[i]) if breaking[i] and rng.random() < 0.8 else rng.randrange(nsig)

    for _attempt in range(50):
        n = rng.choice([1, 2, 2, 3, 3, 3, 4, 4, 5])
        use_helper = rng.random() < 0.4
        classes: list[dict] = []
        for i in range(n):
            last = i == n - 1
            where = HELPER if (use_helper and not last and rng.random() < 0.5) else MAIN
            pool = [c for c in classes if where == MAIN or c["where"] == HELPER]
            want = rng.choice([1, 1, 2, 2, 3]) if last else rng.choice([0, 1, 1, 1, 2, 2, 3])
            bases = [c["ref"] for c in rng.sample(pool, min(want, len(pool)))]
            box = None
            if where == MAIN and rng.random() < 0.15:
                box = ("_" if rng.random() < 0.3 else "") + f"Box{i}"
            name = ("_" if not last and rng.random() < 0.45 else "") + f"K{i}"
            old_def = rng.randrange(nsig) if rng.random() < 0.55 else None
            r = rng.random()
            if r < 0.5:
                new_def = old_def
            elif old_def is not None and r < 0.85:
                new_def = partner(old_def)
            else:
                new_def = rng.randrange(nsig) if rng.random() < 0.6 else None
            new_bases = list(reversed(bases)) if len(bases) > 1 and rng.random() < 0.1 else bases
            classes.append({"name": name, "where": where, "box": box, "ref": (box + "." if box else "") + name,
                            "bases": {"old": bases, "new": new_bases}, "old": old_def, "new": new_def})
        if all(c["old"] is None for c in classes):
            rng.choice(classes)["old"] = rng.randrange(nsig)
        g = None
        if rng.random() < 0.25:  # a module-level function: defined here or imported and re-exported, per version
            go = rng.randrange(nsig)
            g = {"old": go, "new": partner(go) if rng.random() < 0.7 else go,
                 "where": {ver: rng.choice([MAIN, HELPER, HELPER]) for ver in ("old", "new")}}
        imports = [c["name"] for c in classes if c["where"] == HELPER]
        exports = None
        if (g is not None and HELPER in g["where"].values()) or rng.random() < 0.2:
            local = [c["box"] or c["name"] for c in classes if c["where"] == MAIN]
            exports = [x for x in local if not x.startswith("_")] + (["g"] if g else [])
            exports += [x for x in imports if rng.random() < 0.4]
            if len(exports) > 1 and rng.random() < 0.2:
                exports.remove(rng.choice(exports))
            hidden = [x for x in local if x.startswith("_")]
            if hidden and rng.random() < 0.3:
                exports.append(rng.choice(hidden))
        plan = {"classes": classes, "flavor": rng.choice(["inst", "inst", "inst", "static", "cls"]), "g": g,
                "imports": imports, "exports": exports, "method": "f"}
        if rng.random() < 0.2:  # the method is the constructor: callers reach it by calling the class
            plan["method"], plan["flavor"] = "__init__", "inst"
        if rng.random() < 0.04:  # an untouched copy: the finder must stay silent
            for c in classes:
                c["new"], c["bases"]["new"] = c["old"], c["bases"]["old"]
            if g:
                g["new"], g["where"]["new"] = g["old"], g["where"]["old"]
        case = {}
        for ver in ("old", "new"):
            files = {which: _render_module(which, plan, ver, sigs) for which in (HELPER, MAIN)}
            case[ver] = {k: v for k, v in files.items() if v is not None}
        try:  # CPython refuses inconsistent hierarchies (no C3 linearisation): draw again
            for ver in ("old", "new"):
                exec_version(case[ver])
        except TypeError:
            continue
        return case
    raise AssertionError("no consistent hierarchy in 50 draws")


def main_name(files: dict[str, str]) -> str:
    """The module whose public API is compared (``m``, or ``m_a`` / ``m_b`` when both versions share one loader)."""
    return next(k for k in files if k.startswith(MAIN) and "." not in k)


def _rel_path(name: str, files: dict[str, str], layout: str) -> str:
    package = any(k.startswith(name + ".") for k in files) or (layout == "package" and "." not in name)
    return name.replace(".", "/") + ("/__init__.py" if package else ".py")


def _write_version(root: str, files: dict[str, str], layout: str) -> None:
    for name, src in files.items():
        path = os.path.join(root, _rel_path(name, files, layout))
        os.makedirs(os.path.dirname(path), exist_ok=True)
        with open(path, "w") as fh:
            fh.write(src)


def _import_version(files: dict[str, str]) -> types.ModuleType:
    """A package with submodules is written to disk and imported by CPython's own import system."""
    tops = {k.split(".")[0] for k in files}

    def purge() -> None:
        for name in [n for n in sys.modules if n.split(".")[0] in tops]:
            del sys.modules[name]

    root = tempfile.mkdtemp(prefix="vfc10py-")
    try:
        _write_version(root, files, "file")
        purge()
        sys.path.insert(0, root)
        importlib.invalidate_caches()
        try:
            main = importlib.import_module(main_name(files))
            for name in files:  # a submodule nothing imports is still importable by a caller
                importlib.import_module(name)
            return main
        finally:
            sys.path.remove(root)
            purge()
    finally:
        shutil.rmtree(root, ignore_errors=True)


def exec_version(files: dict[str, str]) -> types.ModuleType:
    """Really import one version (helper first); returns the main module."""
    if any("." in k for k in files):
        return _import_version(files)
    saved = {k: sys.modules.get(k) for k in files}
    try:
        for name in sorted(files, key=lambda k: not k.startswith(HELPER)):
            mod = types.ModuleType(name)
            sys.modules[name] = mod
            exec(compile(files[name], f"<{name}>", "exec"), mod.__dict__)  # noqa: S102
        return sys.modules[main_name(files)]
    finally:
        for k, v in saved.items():
            if v is None:
                sys.modules.pop(k, None)
            else:
                sys.modules[k] = v


def module_surface(mod: types.ModuleType, source: str, prefix: str = "") -> dict[str, dict]:
    """path below the main module -> what CPython resolves it to (function object, callable as seen by a caller).

    Public names of the module: ``__all__`` when it has one; otherwise every underscore-free name of its namespace that an
    explicit import statement did not bind (so: what it defines itself and what a ``from x import *`` put there).
    """
    out: dict[str, dict] = {}
    explicit = {(a.asname or a.name).split(".")[0] for node in ast.walk(ast.parse(source))
                if isinstance(node, (ast.Import, ast.ImportFrom)) for a in node.names if a.name != "*"}
    if hasattr(mod, "__all__"):
        names = list(mod.__all__)
    else:
        names = [n for n, v in vars(mod).items()
                 if not n.startswith("_") and n not in explicit and not isinstance(v, types.ModuleType)]

    def walk(cls: type, path: str, depth: int) -> None:
        seen = set()
        for klass in cls.__mro__[:-1]:
            for n in klass.__dict__:
                if (n.startswith("_") and n != "__init__") or n in seen:
                    continue
                seen.add(n)
                raw = inspect.getattr_static(cls, n)
                if isinstance(raw, type):
                    if depth < 3:
                        walk(raw, f"{path}.{n}", depth + 1)
                    continue
                func = raw.__func__ if isinstance(raw, (staticmethod, classmethod)) else raw
                if inspect.isfunction(func):
                    definers = [k for k in cls.__mro__[:-1] if n in k.__dict__]
                    # a constructor is called through the class; other methods through an instance made without __init__
                    call = cls if n == "__init__" else getattr(object.__new__(cls), n)
                    out[f"{path}.{n}"] = {"func": func, "call": call, "owner": cls, "definers": definers,
                                          "own_path": norm_path(f"{cls.__module__}.{cls.__qualname__}.{n}")}

    for n in names:
        v = getattr(mod, n, None)
        before = set(out)
        if isinstance(v, type):
            walk(v, prefix + n, 0)
        elif inspect.isfunction(v):
            out[prefix + n] = {"func": v, "call": v, "owner": None, "definers": [], "own_path": norm_path(f"{mod.__name__}.{n}")}
        for key in set(out) - before:  # bound here by a wildcard import: neither defined nor explicitly imported in this module
            out[key]["star"] = getattr(v, "__module__", mod.__name__) != mod.__name__ and n not in explicit
    return out


def enclosing_blocks(func, files: dict[str, str]) -> list[str]:  # noqa: ANN001
    """Source text of the headers of the compound statements (if / try) a definition sits in, innermost last."""
    source = files.get(func.__module__)
    if source is None:
        return []
    found: list[str] = []

    def descend(node: ast.AST, trail: list[str]) -> None:
        for child in ast.iter_child_nodes(node):
            if isinstance(child, (ast.FunctionDef, ast.AsyncFunctionDef)) and child.name == func.__name__ and \
                    func.__code__.co_firstlineno in (child.lineno, *(d.lineno for d in child.decorator_list)):
                found[:] = trail
            elif isinstance(child, ast.If):
                descend(child, [*trail, "if " + ast.unparse(child.test)])
            elif isinstance(child, ast.Try):
                descend(child, [*trail, "try"])
            elif isinstance(child, (ast.ClassDef, ast.ExceptHandler)):
                descend(child, trail)

    descend(ast.parse(source), [])
    return found


def public_surface(mod: types.ModuleType, files: dict[str, str]) -> dict[str, dict]:
    """The public module and every submodule of it that is reachable through underscore-free names."""
    main = main_name(files)
    out = module_surface(mod, files[main])
    for name in files:
        parts = name.split(".")
        if len(parts) > 1 and parts[0] == main and not any(p.startswith("_") for p in parts[1:]):
            sub = mod
            for part in parts[1:]:
                sub = getattr(sub, part)
            out.update(module_surface(sub, files[name], ".".join(parts[1:]) + "."))
    return out


_VERSIONED = re.compile(r"^(m|vfh)_[ab](?=\.|$)")


def norm_path(path: str) -> str:
    """``m_a.K.f`` / ``m_b.K.f`` (both versions in one loader, distinct top-level names) -> ``m.K.f``."""
    return _VERSIONED.sub(r"\1", path)


def _unversioned(files: dict[str, str]) -> dict[str, str]:
    return {norm_path(k): re.sub(r"\b(m|vfh)_[ab]\b", r"\1", v) for k, v in files.items()}


def func_path(func) -> str:  # noqa: ANN001
    return norm_path(f"{func.__module__}.{func.__qualname__}")


def describe_func(func, files: dict[str, str] | None = None) -> dict:  # noqa: ANN001
    """Same shape as describe(), read from CPython's view of the function (self/cls included).

    The default is the *evaluated* one (value_key: its repr; the parsed expression when the repr is an identity).
    """
    out = {}
    nodes = None
    for i, p in enumerate(inspect.signature(func).parameters.values()):
        kind = INSPECT_KIND[p.kind]
        dfl = None
        if p.default is not inspect.Parameter.empty:
            dfl = repr(p.default)
            if _ADDRESS.search(dfl):
                if nodes is None:
                    nodes = default_nodes(func, files)
                dfl = value_key(p.default, nodes.get(p.name))
        out[p.name] = (kind, i, dfl, dfl is None and kind not in (VP, VK))
    return out


_MASKS: dict[str, int] = {}


def call_mask(call, rec) -> int:  # noqa: ANN001
    """Which call shapes really bind to ``call`` (a bound method or function whose body is ``...``)."""
    key = str(inspect.signature(call))  # the body is trivial and defaults are literals: the text decides the binding
    if key not in _MASKS:
        mask = 0
        for bit, (npos, kws) in enumerate(CALLS):
            try:
                call(*range(npos), **{k: 9 for k in kws})
                mask |= 1 << bit
            except TypeError:
                pass
        _MASKS[key] = mask
        rec.count("placed_distinct_callables_really_called")
    return _MASKS[key]


# ------------------------------------------------------------------------------------------
# How the two versions get loaded is part of the case (key "load"; absent = "visit").  Every mode is a way a real user of
# the finder obtains the two trees; none of them may change what is reported.
#   visit              in-memory visit of every module, one collection per version (no loader, no load hooks)
#   fresh              files on disk; one GriffeLoader per version, each with its own default extensions
#   shared-ext         one Extensions object (griffe.load_extensions()) serves both loads, old version first
#   shared-ext-rev     the same, new version loaded first
#   shared-loader      ONE GriffeLoader, two search roots; the versions have distinct top-level names (m_a / m_b)
#   check-api          the real griffe.check() entry point in a throw-away git repository (old = tag v1, new = work tree)
#   check-cli          `python -m griffe check` in a child process on the same kind of repository
LOAD_MODES = ["visit", "fresh", "shared-ext", "shared-ext-rev", "shared-loader", "check-api", "check-cli"]
_CLI_LINE = re.compile(r"^(?P<file>[^:]+):(?P<line>\d+): (?P<rel>[\w.<>]+)(?:\((?P<param>\w+)\))?: (?P<kind>[^:]+)")


class Seen:
    """One reported breakage as far as the oracle needs it: kind text, (normalised) object path, parameter named."""

    def __init__(self, kind: str, path: str, param: str | None) -> None:
        self.kind, self.path, self.param = kind, norm_path(path), param


def _load_with(loader, files: dict[str, str], resolve: bool):  # noqa: ANN001, ANN202
    main = None
    for name in sorted((k for k in files if "." not in k), key=lambda k: not k.startswith(HELPER)):  # imported-from first
        main = loader.load(name)
    if resolve:
        loader.resolve_aliases()
    return main


def _git_repo(case: dict, root: str) -> tuple[str, dict]:
    env = dict(os.environ, GIT_CONFIG_GLOBAL="/dev/null", GIT_CONFIG_SYSTEM="/dev/null", GIT_AUTHOR_NAME="t", GIT_AUTHOR_EMAIL="t@t",
               GIT_COMMITTER_NAME="t", GIT_COMMITTER_EMAIL="t@t", NO_COLOR="1")
    repo = os.path.join(root, "repo")
    os.makedirs(repo)

    def git(*a: str) -> None:
        subprocess.run(["git", *a], cwd=repo, env=env, capture_output=True, text=True, check=True)  # noqa: S603, S607

    git("init", "-q", "-b", "main")
    _write_version(repo, case["old"], "package")
    git("add", "-A")
    git("commit", "-q", "-m", "v1")
    git("tag", "v1")
    for name in case["old"]:
        if "." not in name:
            shutil.rmtree(os.path.join(repo, name))
    _write_version(repo, case["new"], "package")
    return repo, env


def observe(case: dict, rec) -> list[Seen]:  # noqa: ANN001, C901, PLR0912, PLR0915
    """Run the real finder on the case the way its load mode says; every breakage reported, explain() exercised."""
    import griffe

    mode = case.get("load", "visit")
    layout, resolve = case.get("layout", "file"), bool(case.get("resolve"))
    rec.count(f"load_mode_{mode}_cases")

    def finish(old, new) -> list[Seen]:  # noqa: ANN001
        out = []
        for b in griffe.find_breaking_changes(old, new):
            for style in griffe.ExplanationStyle:
                b.explain(style)
            out.append(Seen(b.kind.value, b.obj.path, param_name(b)))
        return out

    if mode == "visit":
        mods = {}
        for ver in ("old", "new"):
            collection, lines = griffe.ModulesCollection(), griffe.LinesCollection()
            loaded = {name: visit_source(src, name, collection=collection, lines=lines) for name, src in case[ver].items()}
            mods[ver] = loaded[main_name(case[ver])]
        return finish(mods["old"], mods["new"])
    root = tempfile.mkdtemp(prefix="vfc10-")
    try:
        if mode in ("fresh", "shared-ext", "shared-ext-rev"):
            for ver in ("old", "new"):
                _write_version(os.path.join(root, ver), case[ver], layout)
            shared = griffe.load_extensions() if mode != "fresh" else None
            mods = {}
            for ver in (("new", "old") if mode == "shared-ext-rev" else ("old", "new")):
                loader = griffe.GriffeLoader(search_paths=[os.path.join(root, ver)], extensions=shared, allow_inspection=False)
                mods[ver] = _load_with(loader, case[ver], resolve)
            return finish(mods["old"], mods["new"])
        if mode == "shared-loader":
            for ver in ("old", "new"):
                _write_version(os.path.join(root, ver), case[ver], layout)
            loader = griffe.GriffeLoader(search_paths=[os.path.join(root, "old"), os.path.join(root, "new")], allow_inspection=False)
            old = _load_with(loader, case["old"], False)
            new = _load_with(loader, case["new"], resolve)
            return finish(old, new)
        repo, env = _git_repo(case, root)
        main = main_name(case["new"])
        if mode == "check-api":
            import _griffe.cli as cli

            captured: list = []
            real = cli.find_breaking_changes

            def spy(old, new):  # noqa: ANN001, ANN202  (observation only: the same generator, its items noted)
                for b in real(old, new):
                    captured.append(b)
                    yield b

            import colorama

            # check() re-initialises colorama around sys.stderr on every call; keeping sys.stderr the one real stream and
            # pointing file descriptor 2 at a scratch file captures what it prints, call after call
            cwd, prev_stderr = os.getcwd(), sys.stderr
            saved_env = {k: os.environ.get(k) for k in env}
            with tempfile.TemporaryFile() as err:
                sys.stderr.flush()
                saved_fd = os.dup(2)
                os.dup2(err.fileno(), 2)
                sys.stderr = sys.__stderr__
                os.chdir(repo)  # check() locates the repository from the package path relative to the working directory
                cli.find_breaking_changes = spy
                os.environ.update(env)
                try:
                    code = griffe.check(main, against="v1", search_paths=["."], allow_inspection=False, color=False)
                finally:
                    cli.find_breaking_changes = real
                    sys.stderr.flush()
                    colorama.deinit()
                    sys.__stderr__.flush()
                    os.dup2(saved_fd, 2)
                    os.close(saved_fd)
                    sys.stderr = prev_stderr
                    os.chdir(cwd)
                    for k, v in saved_env.items():
                        if v is None:
                            os.environ.pop(k, None)
                        else:
                            os.environ[k] = v
                err.seek(0)
                printed = [ln for ln in err.read().decode().splitlines() if _CLI_LINE.match(ln)]
            rec.count("check_entry_point_runs")
            if code != (1 if captured else 0) or len(printed) != len(captured):
                raise AssertionError(f"check() returned {code} and printed {len(printed)} line(s) for {len(captured)} breakage(s)")
            return [Seen(b.kind.value, b.obj.path, param_name(b)) for b in captured]
        proc = subprocess.run([sys.executable, "-m", "griffe", "check", main, "-s", ".", "-a", "v1"], cwd=repo,  # noqa: S603
                              env=dict(env, TMPDIR=root), capture_output=True, text=True, timeout=120, check=False)
        found = [m for m in map(_CLI_LINE.match, proc.stderr.splitlines()) if m]
        rec.count("check_cli_runs")
        if proc.returncode not in (0, 1) or proc.returncode != (1 if found else 0):
            raise AssertionError(f"`griffe check` exited {proc.returncode} with {len(found)} breakage line(s): {proc.stderr[-300:]}")
        # <file>:<line>: <path below that file's module>(<parameter>): <kind>: ...
        out = []
        for m in found:
            module = re.sub(r"(/__init__)?\.py$", "", m["file"]).replace("/", ".")
            out.append(Seen(m["kind"].strip(), module if m["rel"] == "<module>" else f"{module}.{m['rel']}", m["param"]))
        return out
    finally:
        shutil.rmtree(root, ignore_errors=True)


def _standalone_miss(fo, fn, do: dict, dn: dict) -> bool:  # noqa: ANN001
    """Is the same pair of signatures, as plain module-level functions, also left unreported?"""
    import griffe

    def plain(func, desc: dict, keys: dict) -> str:  # noqa: ANN001  (an expression default is stood for by 0; by 1 when its value is another one)
        sig = inspect.signature(func)
        params = []
        for p in sig.parameters.values():
            if p.default is not p.empty and type(p.default) is not int:
                p = p.replace(default=int(keys.setdefault(p.name, desc[p.name][2]) != desc[p.name][2]))  # noqa: PLW2901
            params.append(p)
        return f"def f{sig.replace(parameters=params)}: ...\n"

    keys: dict = {}
    so, sn = plain(fo, do, keys), plain(fn, dn, keys)
    return not list(griffe.find_breaking_changes(visit_source(so, "m"), visit_source(sn, "m")))


# ------------------------------------------------------------------------------------------
# Constructors whose signature griffe *synthesises*: dataclasses (built-in extension, runs when a package has been loaded).
# Shapes stay inside what C18 shows to be synthesised faithfully on the pinned tree: single-inheritance chains, every name
# bound once per class body, no @dataclass(init=False), an inherited field is re-declared only with a value.
DC_HEADER = "import dataclasses\nfrom dataclasses import KW_ONLY, InitVar, dataclass, field\nfrom typing import ClassVar\n"
DC_FORMS = ["{n}: int", "{n}: int", "{n}: int = 0", "{n}: int = 1", "{n}: int = field(default=0)", "{n}: int = field()",
            "{n}: int = field(default_factory=int)", "{n}: int = field(kw_only=True)", "{n}: int = field(default=1, kw_only=True)",
            "{n}: int = field(default=0, kw_only=False)", "{n}: InitVar[int]", "{n}: InitVar[int] = 0", "{n}: ClassVar[int] = 0",
            "{n}: int = field(init=False, default=0)"]
DC_OVERRIDE_FORMS = ["{n}: int = 0", "{n}: int = 1", "{n}: int = field(default=0)", "{n}: int = field(default=1, kw_only=True)"]
DC_DECORATORS = ["@dataclass", "@dataclass", "@dataclass()", "@dataclasses.dataclass", "@dataclass(kw_only=True)",
                 "@dataclass(frozen=True)", "@dataclasses.dataclass(order=True, kw_only=False)"]


def _dc_render(plan: dict, ver: str, sigs) -> dict[str, str]:  # noqa: ANN001
    files: dict[str, list[str]] = {}
    for i, c in enumerate(plan[ver]):
        base = plan[ver][i - 1]["name"] if i else None
        lines = []
        if c["kind"] != "plain" and c["kind"] != "init":
            lines.append(c["deco"])
        lines.append(f"class {c['name']}" + (f"({base})" if base else "") + ":")
        body = []
        if c["kind"] in ("dc", "dc+init"):
            for k, (name, form) in enumerate(c["fields"]):
                if c["marker"] == k:
                    body.append("_: KW_ONLY")
                body.append(form.format(n=name))
            if c["marker"] is not None and c["marker"] >= len(c["fields"]):
                body.append("_: KW_ONLY")
        if c["kind"] in ("init", "dc+init"):
            body.append(render_def(sigs[c["sig"]], "__init__", "inst").rstrip("\n"))
        lines += ["    " + ln for ln in (body or ["pass"])]
        files.setdefault(c["where"], []).append("\n".join(lines) + "\n")
    out = {}
    for where, chunks in files.items():
        imports = [c["name"] for c in plan[ver] if c["where"] == HELPER] if where == MAIN else []
        head = DC_HEADER + (f"from {HELPER} import {', '.join(imports)}\n" if imports else "")
        out[where] = head + "\n" + "\n".join(chunks)
    return out


def _dc_safe(classes: list[dict]) -> bool:
    """An inherited name is re-declared only when it is an ordinary constructor parameter, and only as one with a value."""
    inherited: dict[str, str] = {}
    for c in classes:
        if c["kind"] in ("dc", "dc+init"):
            names = [n for n, _ in c["fields"]]
            if len(set(names)) != len(names):
                return False
            for n, f in c["fields"]:
                if n in inherited and (f not in DC_OVERRIDE_FORMS or any(x in inherited[n] for x in ("ClassVar", "InitVar", "init=False"))):
                    return False
            inherited.update(c["fields"])
    return True


def gen_dataclasses(rng: random.Random, sigs, nsig: int) -> dict:  # noqa: ANN001, C901, PLR0912
    """A chain of 1..3 classes, at least one dataclass, and an edited copy of it."""
    import copy

    def fields(k: int, taken: set[str]) -> list:
        out = []
        for name in rng.sample(KW_NAMES, k):
            out.append((name, rng.choice(DC_OVERRIDE_FORMS if name in taken else DC_FORMS)))
        return out

    for _attempt in range(200):
        n = rng.choice([1, 1, 2, 2, 2, 3])
        old: list[dict] = []
        taken: set[str] = set()
        for i in range(n):
            last = i == n - 1
            kind = "dc" if i == 0 else rng.choice(["dc", "dc", "dc", "plain", "plain", "init", "dc+init"])
            fl = fields(rng.choice([0, 1, 2, 2, 3, 3, 4]), taken) if kind.startswith("dc") else []
            taken |= {nm for nm, _ in fl}
            old.append({"name": ("_" if not last and rng.random() < 0.4 else "") + f"D{i}", "kind": kind, "deco": rng.choice(DC_DECORATORS),
                        "fields": fl, "marker": rng.randrange(len(fl) + 1) if fl and rng.random() < 0.2 else None,
                        "sig": rng.randrange(nsig), "where": HELPER if (not last and rng.random() < 0.2) else MAIN})
        for i in range(1, n):  # the helper module cannot import from the public one
            if old[i]["where"] == HELPER and old[i - 1]["where"] == MAIN:
                old[i]["where"] = MAIN
        new = copy.deepcopy(old)
        for _edit in range(0 if rng.random() < 0.05 else rng.choice([1, 1, 1, 2, 2, 3])):
            c = rng.choice(new)
            edit = rng.choice(["reorder", "reform", "reform", "add", "remove", "marker", "deco", "kind", "sig"])
            fl = c["fields"]
            if edit == "reorder" and len(fl) > 1:
                rng.shuffle(fl)
            elif edit == "reform" and fl:
                k = rng.randrange(len(fl))
                fl[k] = (fl[k][0], rng.choice(DC_FORMS))
            elif edit == "add" and c["kind"].startswith("dc"):
                free = [x for x in KW_NAMES if x not in {nm for nm, _ in fl}]
                if free:
                    fl.insert(rng.randrange(len(fl) + 1), (rng.choice(free), rng.choice(DC_FORMS)))
            elif edit == "remove" and fl:
                fl.pop(rng.randrange(len(fl)))
            elif edit == "marker" and fl:
                c["marker"] = None if c["marker"] is not None else rng.randrange(len(fl) + 1)
            elif edit == "deco":
                c["deco"] = rng.choice(DC_DECORATORS)
            elif edit == "kind" and c is not new[0]:
                c["kind"] = rng.choice(["dc", "plain", "init", "dc+init"])
            elif edit == "sig":
                c["sig"] = rng.randrange(nsig)
            if c["marker"] is not None and c["marker"] > len(fl):
                c["marker"] = len(fl)
        if not (_dc_safe(old) and _dc_safe(new)):
            continue
        plan = {"old": old, "new": new}
        case = {ver: _dc_render(plan, ver, sigs) for ver in ("old", "new")}
        try:  # CPython refuses e.g. a field without default after one with a default: draw again
            for ver in ("old", "new"):
                exec_version(case[ver])
        except (TypeError, ValueError):
            continue
        return case
    raise AssertionError("no dataclass chain CPython accepts in 200 draws")


# ------------------------------------------------------------------------------------------
# Where the compared functions live and how they reach the public surface: definitions inside blocks CPython really
# executes (``if`` / ``else`` / ``try`` / ``except`` at module or class level, every spelling of the type-checking guard
# and its negation, version tests, compound conditions), in private submodules of a package, re-exported by explicit
# imports, wildcard imports (source module with or without ``__all__``) and chains of them.  No block that does not run
# defines the same name, so what static analysis can know and what CPython does coincide; CPython's import system decides.
#   (template, imports it needs); {B} = the block that runs, {X} = a block that does not
RUN_BLOCKS = [
    ("{B}", ()),
    ("{B}", ()),
    ("if True:\n{B}", ()),
    ("if not TYPE_CHECKING:\n{B}", ("from typing import TYPE_CHECKING",)),
    ("if not typing.TYPE_CHECKING:\n{B}", ("import typing",)),
    ("if not t.TYPE_CHECKING:\n{B}", ("import typing as t",)),
    ("if TYPE_CHECKING:\n{X}\nelse:\n{B}", ("from typing import TYPE_CHECKING",)),
    ("if typing.TYPE_CHECKING:\n{X}\nelse:\n{B}", ("import typing",)),
    ("if sys.version_info >= (3, 8):\n{B}", ("import sys",)),
    ("if sys.version_info >= (3, 8):\n{B}\nelse:\n{X}", ("import sys",)),
    ("if sys.version_info < (3, 0):\n{X}\nelse:\n{B}", ("import sys",)),
    ("if sys.version_info >= (3, 8) or typing.TYPE_CHECKING:\n{B}", ("import sys", "import typing")),
    ("if typing.TYPE_CHECKING or sys.version_info >= (3, 8):\n{B}", ("import sys", "import typing")),
    ("if sys.version_info >= (3, 8) and not typing.TYPE_CHECKING:\n{B}", ("import sys", "import typing")),
    ("try:\n{B}\nexcept ImportError:\n{X}", ()),
    ("try:\n    import vf_no_such_module_\nexcept ImportError:\n{B}", ()),
    ("try:\n    pass\nfinally:\n{B}", ()),
    ("if sys.version_info >= (3, 8):\n    if not typing.TYPE_CHECKING:\n{BB}", ("import sys", "import typing")),
]
DEAD_BODIES = ["pass", "from typing import Any", "_unused = 0"]


def _in_block(definition: str, block: int, dead: str) -> tuple[str, tuple]:
    template, needs = RUN_BLOCKS[block]
    if template == "{B}":
        return definition, needs
    return (template.replace("{BB}", textwrap.indent(definition, "        ").rstrip("\n"))
            .replace("{B}", textwrap.indent(definition, "    ").rstrip("\n")).replace("{X}", "    " + dead)) + "\n", needs


def gen_exported(rng: random.Random, sigs, breaking: list[list[int]]) -> dict:  # noqa: ANN001, C901
    """Package ``m`` with 1..3 submodules in a re-export chain; functions / a class defined somewhere along the chain."""
    nsig = len(sigs)
    depth = rng.choice([1, 1, 2, 2, 3])
    mods = [MAIN] + [f"{MAIN}.{'_' if rng.random() < 0.85 else ''}{'ijk'[d]}" for d in range(depth)]  # mods[d] imports from mods[d+1]
    objects = []
    for name in [rng.choice(["g", "K"]), *rng.sample(["h", "_p"], rng.choice([0, 0, 1, 1, 2]))]:
        so = rng.randrange(nsig)
        r = rng.random()
        sn = so if r < 0.1 else (rng.choice(breaking[so]) if breaking[so] and r < 0.9 else rng.randrange(nsig))
        block_old = rng.randrange(len(RUN_BLOCKS))
        objects.append({"name": name, "home": rng.randrange(1, depth + 1) if rng.random() < 0.9 else 0, "old": so, "new": sn,
                        "block": {"old": block_old, "new": block_old if rng.random() < 0.85 else rng.randrange(len(RUN_BLOCKS))},
                        "dead": rng.choice(DEAD_BODIES),
                        "inner": rng.random() < 0.5})  # for the class: the block is around the method instead of the class
    hops = [{"star": rng.random() < 0.65, "relative": rng.random() < 0.5} for _ in range(depth)]  # mods[d] <- mods[d+1]
    has_all = [rng.random() < 0.4 for _ in range(depth + 1)]
    has_all[0] = has_all[0] or not hops[0]["star"]  # explicitly imported names are public only when listed
    private_listed = [rng.random() < 0.3 for _ in range(depth + 1)]
    if rng.random() < 0.04:  # an untouched copy
        for o in objects:
            o["new"], o["block"]["new"] = o["old"], o["block"]["old"]
    case = {}
    for ver in ("old", "new"):
        files: dict[str, str] = {}
        importable: list[str] = []  # names bound in the module below
        starred: list[str] = []  # names a wildcard import from the module below binds (CPython: its __all__, else underscore-free)
        for d in range(depth, -1, -1):
            lines, needs, body, bound = [], [], [], []
            if d < depth:
                src = ("." + mods[d + 1].split(".")[-1]) if hops[d]["relative"] else mods[d + 1]
                if hops[d]["star"]:
                    lines.append(f"from {src} import *")
                    bound += starred
                elif importable:
                    lines.append(f"from {src} import {', '.join(importable)}")
                    bound += importable
            for o in objects:
                if o["home"] != d:
                    continue
                if o["name"] == "K":
                    method = render_def(sigs[o[ver]], "f", "inst")
                    if o["inner"]:
                        inner, need = _in_block(method, o["block"][ver], o["dead"])
                        text = "class K:\n" + textwrap.indent(inner, "    ")
                    else:
                        text, need = _in_block("class K:\n" + textwrap.indent(method, "    "), o["block"][ver], o["dead"])
                else:
                    text, need = _in_block(render_def(sigs[o[ver]], o["name"], "plain"), o["block"][ver], o["dead"])
                needs += list(need)
                body.append(text)
                bound.append(o["name"])
            bound = list(dict.fromkeys(bound))
            if has_all[d]:
                listed = [n for n in bound if not n.startswith("_") or private_listed[d]]
                lines.append(f"__all__ = {listed!r}")
            importable = bound
            starred = listed if has_all[d] else [n for n in bound if not n.startswith("_")]
            files[mods[d]] = "\n".join([*dict.fromkeys(needs), *lines]) + "\n\n" + "\n".join(body)
        case[ver] = files
    for ver in ("old", "new"):
        exec_version(case[ver])  # CPython's import system must accept both versions
    return case


# ------------------------------------------------------------------------------------------
# Parameter defaults from the full expression grammar.  The statement speaks of "a default value"; the pair space above
# spells it with two integer literals.  Here every literal default of a generated case is re-spelled by an arbitrary
# expression (vf/gen/exprs.py, hostile domain: operators, calls with keywords / stars, displays, comprehensions, lambdas,
# conditional expressions, walrus, f-strings with conversions / format specs / nested f-strings) or by a template in a
# spelling ``ast.unparse`` never produces (PEP 701 reused quotes, backslash / line break inside a replacement field,
# implicit concatenation, star tuples, starred subscripts, parenthesised walrus).  A prelude defines the free names of
# the grammar as symbolic values whose ``repr`` is the trace of the operations applied to them, so that CPython really
# evaluates the default when it executes the ``def``: the oracle stays CPython (real calls decide what binds,
# ``inspect.signature`` gives the evaluated default; two defaults differ iff their evaluated values print differently, or -
# when the value prints with a memory address: lambdas, generators - iff CPython parses the two texts to different trees).
# Literal ``0`` of parameter x becomes expression E0(x) (in its generated text or in a second spelling that parses to the
# same tree), literal ``1`` becomes E1(x): an independent draw or a point mutation of E0(x), always with another value.
EXPR_PRELUDE = '''\
class _VfV:
    def __init__(self, t): self.t = t
    def __repr__(self): return self.t
    def __str__(self): return "s<" + self.t + ">"
    def __format__(self, spec): return "f<" + self.t + ":" + spec + ">"
    def __getattr__(self, n):
        if n[:2] == "__": raise AttributeError(n)
        return _VfV(self.t + "." + n)
    def __call__(self, *p, **k): return _VfV(self.t + "(" + repr(p) + repr(k) + ")")
    def __getitem__(self, i): return _VfV(self.t + "[" + repr(i) + "]")
    def __iter__(self): return iter((_VfV(self.t + "<0>"), _VfV(self.t + "<1>")))
    def keys(self): return ["k0", "k1"]
    def __bool__(self): return len(self.t) % 2 == 0
    def __hash__(self): return len(self.t)
    def __contains__(self, o): return len(repr(o)) % 2 == 0
for _vfo in "add sub mul matmul truediv floordiv mod pow lshift rshift and or xor lt le gt ge eq ne".split():
    setattr(_VfV, "__" + _vfo + "__", lambda s, o, _n=_vfo: _VfV("(" + repr(s) + " " + _n + " " + repr(o) + ")"))
    setattr(_VfV, "__r" + _vfo + "__", lambda s, o, _n=_vfo: _VfV("(" + repr(o) + " " + _n + "~ " + repr(s) + ")"))
for _vfo in ("neg", "pos", "invert"):
    setattr(_VfV, "__" + _vfo + "__", lambda s, _n=_vfo: _VfV(_n + "(" + repr(s) + ")"))
a, b, c, d, x, y, T, U, m, n = (_VfV(_vfo) for _vfo in "abcdxyTUmn")
'''
_ADDRESS = re.compile(r" at 0x[0-9a-fA-F]+")
_DEF_DEFAULT = re.compile(r"\b(a|b|c|zz)=([01])(?=[,)])")
# {H}: any expression (parenthesised unless an atom); the outer quotes of the f-string templates are reused inside
EXPR_TEMPLATES = [
    'f"{f"{H}" * 3}"', "f'{f'{H}' + f'{H}'}'", "f\"{f'{H}' * 3}\"", 'f"{f"{f"{H}"}"}"', 'f"x{f"y{H!r}"!s:>9}"', 'f"{H!r:>{H}}"',
    'f"{H:{H}.{H}}"', 'f"{H = }"', 'f"{"\\n".join(H)}"', 'f"{H\n}"', 'f"{H}" "lit" f"{H}"', 'f"""{f"{H}" f\'{H}\'}"""',
    "(*H, H)", "(*H, *H)", "H[*H]", "H[*H, H]", "(p := H)", "[p := H, p]", "lambda: H", "lambda p, /, q=H, *r, k=H, **w: H",
    "H if H else H", "[H for p in H if H]", "{H: H for p, q in H}", "{H for p in H for q in H}", "list(H for p in H)",
    "H(H, key=H, *H, **H)", "H(*H, sep=H)(end=H)", "not H", "-H ** -H", "H < H <= H", "H and H or H", "{**H, H: H}",
]
_ATOMS = (ast.Name, ast.Call, ast.Attribute, ast.Subscript, ast.List, ast.ListComp)  # never starting with a brace


def value_key(value, node: ast.expr | None) -> str:  # noqa: ANN001
    """What decides whether two evaluated defaults are 'the same default value'."""
    text = repr(value)
    if _ADDRESS.search(text):  # identity-printed objects: the expression CPython parsed stands for the value
        return "ast:" + ast.dump(node) if node is not None else _ADDRESS.sub("", text)
    return "val:" + text


def nested_field_fstring(node: ast.AST) -> bool:
    """A replacement field that contains, at any depth, an f-string that has a replacement field itself."""
    return any(isinstance(f, ast.FormattedValue) and any(isinstance(j, ast.JoinedStr) and any(isinstance(v, ast.FormattedValue)
               for v in j.values) for j in ast.walk(f.value)) for f in ast.walk(node))


def resource_bomb(tree: ast.AST) -> bool:
    """Could evaluating the expression build an astronomically large int (``2 ** 64 ** 7``, ``1 << 10 ** 30``)?  Integer
    power and shift are the only operations of the grammar whose cost is not bounded by the size of the text: they are kept
    only with an exponent / shift count free of nested arithmetic and of integer literals beyond 8 (symbolic operands,
    floats and complex numbers are harmless).  A static rule over the text: nothing is evaluated to decide it."""
    for node in ast.walk(tree):
        if isinstance(node, ast.BinOp) and isinstance(node.op, (ast.Pow, ast.LShift)):
            for sub in ast.walk(node.right):
                if isinstance(sub, ast.BinOp) and isinstance(sub.op, (ast.Pow, ast.LShift, ast.Mult)):
                    return True
                if isinstance(sub, ast.Constant) and isinstance(sub.value, int) and abs(sub.value) > 8:
                    return True
    return False


class ExprDefaults:
    """Draws default expressions CPython accepts and evaluates under EXPR_PRELUDE: (text, other spelling, value key)."""

    def __init__(self, rng: random.Random) -> None:
        from vf.gen.exprs import ExprGen

        self.rng = rng
        self.gen = ExprGen(rng, clean=False)

    def _hole(self) -> str:
        tree = self.gen.expr(self.rng.choice([0, 1, 1, 2]))
        text = ast.unparse(tree)
        return text if isinstance(tree, _ATOMS) and not text.startswith("{") else f"({text})"

    def _raw(self) -> str:
        if self.rng.random() < 0.4:
            return re.sub("H", lambda _m: self._hole(), self.rng.choice(EXPR_TEMPLATES))
        return ast.unparse(self.gen.expr(self.rng.choice([1, 2, 2, 3])))

    def _mutant(self, text: str) -> str:
        """The same expression with one point changed: a sub-expression replaced, an operator, a constant, a conversion,
        a format spec, a keyword name, a star added / removed, a lambda parameter turned keyword-only."""
        tree = ast.parse(text, mode="eval").body
        nodes = list(ast.walk(tree))
        self.rng.shuffle(nodes)
        for node in nodes:
            r = self.rng.random()
            if isinstance(node, ast.FormattedValue) and r < 0.8:
                if self.rng.random() < 0.6:
                    node.conversion = self.rng.choice([c for c in (-1, 114, 115, 97) if c != node.conversion])
                else:
                    node.format_spec = None if node.format_spec else ast.JoinedStr([ast.Constant(self.rng.choice([">4", "x", "^7"]))])
            elif isinstance(node, ast.BinOp) and r < 0.5:
                node.op = self.rng.choice([ast.Add, ast.Sub, ast.Mult, ast.BitOr, ast.FloorDiv, ast.MatMult])()
            elif isinstance(node, ast.BoolOp) and r < 0.5:
                node.op = ast.Or() if isinstance(node.op, ast.And) else ast.And()
            elif isinstance(node, ast.Compare) and r < 0.5:
                node.ops[-1] = self.rng.choice([ast.Lt, ast.GtE, ast.NotEq, ast.Is, ast.NotIn])()
            elif isinstance(node, ast.UnaryOp) and r < 0.5:
                node.op = self.rng.choice([ast.USub, ast.Invert, ast.Not, ast.UAdd])()
            elif isinstance(node, ast.Constant) and r < 0.5 and not isinstance(node.value, (bytes, type(...))):
                v = node.value
                node.value = v + 1 if type(v) is int else v + "!" if isinstance(v, str) else 2
            elif isinstance(node, ast.keyword) and node.arg and r < 0.6:
                node.arg = self.rng.choice([k for k in ("key", "sep", "end", "flag") if k != node.arg])
            elif isinstance(node, ast.Call) and node.args and r < 0.4:
                k = self.rng.randrange(len(node.args))
                node.args[k] = node.args[k].value if isinstance(node.args[k], ast.Starred) else ast.Starred(node.args[k], ast.Load())
            elif isinstance(node, ast.Lambda) and node.args.args and r < 0.5:
                node.args.kwonlyargs.insert(0, node.args.args.pop())
                node.args.kw_defaults.insert(0, node.args.defaults.pop() if len(node.args.defaults) > len(node.args.args) else None)
            elif isinstance(node, ast.Attribute) and r < 0.4:
                node.attr = self.rng.choice([x for x in ("a", "b", "real", "p") if x != node.attr])
            elif isinstance(node, (ast.List, ast.Tuple, ast.Set)) and isinstance(getattr(node, "ctx", ast.Load()), ast.Load) and r < 0.4:
                node.elts.append(self.gen.leaf())
            elif isinstance(node, ast.Name) and isinstance(node.ctx, ast.Load) and r < 0.3:
                node.id = self.rng.choice([x for x in "abcdxy" if x != node.id])
            else:
                continue
            return ast.unparse(ast.fix_missing_locations(tree))
        return self._raw()

    def check(self, text: str) -> tuple[str, str, str] | None:
        """Really evaluate ``text`` as a default at module level and in a class body; None when CPython refuses."""
        try:
            tree = ast.parse(text, mode="eval").body
            if resource_bomb(tree):
                return None
            spelled = ast.unparse(tree)
            other = spelled if spelled != text else f"({text})"
            if ast.dump(ast.parse(other, mode="eval").body) != ast.dump(tree):
                other = text
            ns: dict = {}
            src = EXPR_PRELUDE + f"def _vf_t(v={text}): ...\nclass _VfC:\n    def f(self, v={other}): ...\n"
            exec(compile(src, "<default>", "exec"), ns)  # noqa: S102
            value = inspect.signature(ns["_vf_t"]).parameters["v"].default
            key = value_key(value, tree)
            key2 = value_key(inspect.signature(ns["_VfC"].f).parameters["v"].default, tree)
        except (RecursionError, MemoryError):
            return None
        except Exception:  # noqa: BLE001  (SyntaxError: yield / await outside a function, walrus in a comprehension of a class ...)
            return None
        if key != key2 or len(text) > 400:
            return None
        # a walrus binds a module / class attribute: it must not create a public callable of its own
        if any(inspect.isfunction(v) or isinstance(v, type) for k, v in ns.items() if k in "pqrskwvz" and len(k) == 1):
            return None
        return text, other, key

    def draw(self) -> tuple[str, str, str]:
        for _ in range(200):
            got = self.check(self._raw())
            if got:
                return got
        raise AssertionError("no evaluable default expression in 200 draws")

    def partner(self, first: tuple[str, str, str]) -> tuple[str, str, str]:
        """Another default with another value: a point mutation of ``first`` or an independent draw."""
        for _ in range(200):
            got = self.check(self._mutant(first[0]) if self.rng.random() < 0.5 else self._raw())
            if got and got[2] != first[2]:
                return got
        raise AssertionError("no second default value in 200 draws")


def with_expr_defaults(rng: random.Random, case: dict, exprs: ExprDefaults, rec) -> dict:  # noqa: ANN001
    """Re-spell the literal defaults of every ``def`` of ``case`` by evaluable expressions (both versions consistently)."""
    names = sorted({m.group(1) for ver in ("old", "new") for src in case[ver].values() for line in src.splitlines()
                    if line.lstrip().startswith("def ") for m in _DEF_DEFAULT.finditer(line)})
    if not names:
        return case
    for _attempt in range(6):
        table = {}
        for name in names:
            zero = exprs.draw() if rng.random() < 0.85 else ("0", "(0)", "val:0")
            table[name] = {"0": zero, "1": exprs.partner(zero)}

        def respell(line: str) -> str:
            if not line.lstrip().startswith("def "):
                return line
            return _DEF_DEFAULT.sub(lambda m: f"{m.group(1)}={table[m.group(1)][m.group(2)][int(rng.random() < 0.3)]}", line)  # noqa: B023

        out = dict(case)
        for ver in ("old", "new"):
            out[ver] = {}
            for name, src in case[ver].items():
                new_src = "\n".join(respell(line) for line in src.split("\n"))
                out[ver][name] = EXPR_PRELUDE + new_src if new_src != src else src
        try:
            for ver in ("old", "new"):
                exec_version(out[ver])
        except Exception:  # noqa: BLE001  (e.g. an iteration-order dependent unpacking inside a nested class body)
            continue
        rec.count("cases_with_expression_defaults")
        return out
    rec.count("cases_left_with_literal_defaults")
    return case


def _def_node(func, files: dict[str, str] | None) -> ast.FunctionDef | None:  # noqa: ANN001
    """The ``def`` statement CPython compiled ``func`` from (None for synthesised functions)."""
    source = files.get(func.__module__) if files else None
    filename = func.__code__.co_filename
    if source is None or (filename != f"<{func.__module__}>" and not filename.endswith(".py")):
        return None
    for node in ast.walk(_parsed(source)):
        if isinstance(node, (ast.FunctionDef, ast.AsyncFunctionDef)) and node.name == func.__name__ and \
                func.__code__.co_firstlineno in (node.lineno, *(d.lineno for d in node.decorator_list)):
            return node
    return None


_PARSED: dict[str, ast.Module] = {}


def _parsed(source: str) -> ast.Module:
    if source not in _PARSED:
        if len(_PARSED) > 64:
            _PARSED.clear()
        _PARSED[source] = ast.parse(source)
    return _PARSED[source]


def default_nodes(func, files: dict[str, str] | None) -> dict[str, ast.expr]:  # noqa: ANN001
    """parameter name -> the default expression as CPython parsed it."""
    node = _def_node(func, files)
    if node is None:
        return {}
    a = node.args
    positional = a.posonlyargs + a.args
    out = dict(zip([p.arg for p in positional[len(positional) - len(a.defaults):]], a.defaults))
    out.update({p.arg: dflt for p, dflt in zip(a.kwonlyargs, a.kw_defaults) if dflt is not None})
    return out


def with_load_mode(rng: random.Random, case: dict, *, hooks_needed: bool, expensive: dict) -> dict:
    """Decide how the two versions of ``case`` reach the finder (see LOAD_MODES); the decision is part of the literal case."""
    single = all(len({k.split(".")[0] for k in case[ver]}) == 1 for ver in ("old", "new"))
    modes = ["fresh", "shared-ext", "shared-ext", "shared-ext-rev", "shared-loader"] + ([] if hooks_needed else ["visit"])
    if single:  # check() loads one package; what it imports from elsewhere would stay unresolved there
        for mode in ("check-api", "check-cli"):
            if expensive[mode] > 0 and rng.random() < 0.5:
                expensive[mode] -= 1
                modes = [mode]
    mode = rng.choice(modes)
    out = dict(case, load=mode, layout="package" if mode.startswith("check") else rng.choice(["file", "package"]),
               resolve=rng.random() < 0.5)
    if mode == "shared-loader":  # one loader cannot hold two modules of the same name: the versions get their own
        for ver, suffix in (("old", "_a"), ("new", "_b")):
            out[ver] = {re.sub(r"^(m|vfh)(?=\.|$)", rf"\1{suffix}", name):
                        re.sub(r"(?m)^(\s*(?:from|import)\s+)(m|vfh)\b", rf"\g<1>\g<2>{suffix}", src) for name, src in case[ver].items()}
    return out


PLACED_FINDINGS = ["C10-own-definition-becomes-alias-skipped", "C10-shared-old-target-skipped"]


def classify_placed(key: str, o: dict, n: dict | None, surf_o: dict, surf_n: dict) -> str | None:
    """Mechanisms by which a comparison behind a public path is dropped: relations between what CPython resolves public
    paths to in the two versions (never the case itself)."""
    if n is None:
        return None
    old_target = func_path(o["func"])
    if old_target == o["own_path"] and func_path(n["func"]) != n["own_path"]:
        return PLACED_FINDINGS[0]  # defined at the path before, inherited / imported there now
    # the old definition is shared by several public paths and they do not all lead to the same definition any more
    group = [k for k, x in surf_o.items() if func_path(x["func"]) == old_target]
    new_targets = {func_path(surf_n[k]["func"]) if k in surf_n else None for k in group}
    replaced = any(old_target == surf_o[k]["own_path"] and k in surf_n and func_path(surf_n[k]["func"]) != surf_n[k]["own_path"]
                   for k in group)  # ... or the path of the definition itself is one whose comparison is dropped (above)
    if len(group) > 1 and (len(new_targets) > 1 or replaced):
        return PLACED_FINDINGS[1]
    return None


DEFAULT_FINDINGS = ["C10-fstring-conversion-and-spec-not-compared", "C10-unbuildable-default-modelled-required"]


def unbuildable(node: ast.expr | None) -> bool:
    """Does the default contain an expression form the pinned builder has no entry for (``await``, legal inside a
    generator expression at module level)?  The visitor then stores no default at all."""
    return node is not None and any(isinstance(x, ast.Await) for x in ast.walk(node))


def classify_default_miss(before: ast.expr | None, after: ast.expr | None) -> str | None:
    """An unreported change of a default value: relation between the two default expressions CPython parsed."""
    if before is None or after is None:
        return None

    def bare(node: ast.expr) -> str:  # the expression with `!r` / `!s` / `!a` and `:spec` taken off every replacement field
        import copy

        node = copy.deepcopy(node)
        for field in ast.walk(node):
            if isinstance(field, ast.FormattedValue):
                field.conversion, field.format_spec = -1, None
        return ast.dump(node)

    if ast.dump(before) != ast.dump(after) and bare(before) == bare(after):
        return DEFAULT_FINDINGS[0]  # the two defaults differ in nothing but conversions / format specs of f-string fields
    return None


def run_placed(rec, case: dict) -> None:  # noqa: ANN001, C901, PLR0912, PLR0915
    old_py, new_py = exec_version(case["old"]), exec_version(case["new"])
    surf_o, surf_n = public_surface(old_py, case["old"]), public_surface(new_py, case["new"])
    mode = case.get("load", "visit")
    identical = _unversioned(case["old"]) == _unversioned(case["new"])
    try:
        breakages = observe(case, rec)
        located = [(b, b.path) for b in breakages]
    except Exception as exc:  # noqa: BLE001
        rec.fail_exc(case, f"loading ({mode}) / find_breaking_changes / explain raised on placed functions", exc)
        return
    kinds = [(b.kind, p) for b, p in located]
    problems: list[tuple] = []
    any_broken = False
    if identical:
        if breakages:
            problems.append(("identical versions but breakages reported", kinds, [], None, ()))
        else:
            rec.count("placed_identical_silent")
    for key, o in surf_o.items():
        rec.count("placed_public_paths")
        n = surf_n.get(key)
        mo = call_mask(o["call"], rec)
        mn = call_mask(n["call"], rec) if n else 0
        # a breakage "on that function": located at the public path, at the member slot of the (possibly re-exported)
        # owner, or at the definition CPython resolves the path to, in either version
        accept = {f"{MAIN}.{key}", o["own_path"], func_path(o["func"])} | ({n["own_path"], func_path(n["func"])} if n else set())
        here = [b for b, p in located if p in accept]
        inherited = o["owner"] is not None and o["definers"][0] is not o["owner"]
        shadowing = inherited and len(o["definers"]) > 1
        broken = mo & ~mn
        if inherited:
            rec.count("placed_inherited_paths")
        if n and func_path(n["func"]) != func_path(o["func"]):
            rec.count("placed_paths_resolution_changed")
        other_module = not func_path(o["func"]).startswith(MAIN + ".") or bool(n and not func_path(n["func"]).startswith(MAIN + "."))
        if "." in key and key.count(".") > 1:
            rec.count("placed_nested_class_paths")
        if broken:
            any_broken = True
            rec.count("placed_paths_with_broken_call")
            rec.count(f"load_mode_{mode}_paths_with_broken_call")
            blocks = enclosing_blocks(o["func"], case["old"])
            if blocks:
                rec.count("paths_defined_in_conditional_block_with_broken_call")
                if any("TYPE_CHECKING" in b for b in blocks):
                    rec.count("paths_defined_under_type_checking_condition_with_broken_call")
                    if any("TYPE_CHECKING" in b and b not in ("if TYPE_CHECKING", "if typing.TYPE_CHECKING") for b in blocks):
                        rec.count("paths_defined_under_compound_type_checking_condition_with_broken_call")
            if o.get("star"):
                rec.count("paths_through_wildcard_reexport_with_broken_call")
                if blocks:
                    rec.count("paths_conditional_and_wildcard_reexported_with_broken_call")
            if any(part.startswith("_") for part in o["func"].__module__.split(".")[1:]):
                rec.count("paths_defined_in_private_submodule_with_broken_call")
            if any(not isinstance(x, ast.Constant) for x in default_nodes(o["func"], case["old"]).values()):
                rec.count("paths_with_expression_default_and_broken_call")
            if key.endswith(".__init__"):
                import dataclasses

                rec.count("constructor_paths_with_broken_call")
                if inherited:
                    rec.count("inherited_constructor_paths_with_broken_call")
                if dataclasses.is_dataclass(o["owner"]) and o["func"].__code__.co_filename == "<string>":
                    rec.count("dataclass_constructor_paths_with_broken_call")  # CPython generated this __init__
                    if inherited:
                        rec.count("inherited_dataclass_constructor_paths_with_broken_call")
                    if mode in ("shared-ext", "shared-ext-rev", "check-api", "check-cli"):
                        rec.count("dataclass_constructor_broken_with_one_extensions_object")
            if inherited:
                rec.count("placed_inherited_paths_with_broken_call")
            if shadowing:  # the name is defined by several classes of the MRO and not by the class itself
                rec.count("placed_shadowing_inherited_paths_with_broken_call")
            if other_module:
                rec.count("placed_paths_into_other_module_with_broken_call")
            if inherited and o["definers"][0].__name__.startswith("_"):
                rec.count("placed_paths_via_private_definer_with_broken_call")
            if not here:
                bit = (broken & -broken).bit_length() - 1
                npos, kws = CALLS[bit]
                call = f"{key}(" + ", ".join([str(i) for i in range(npos)] + [f"{k}=9" for k in kws]) + ")"
                fid, tried = None, []
                if n:
                    do, dn = describe_func(o["func"], case["old"]), describe_func(n["func"], case["new"])
                    fid, tried = classify_miss_funcs(do, dn, n["call"], broken)
                    # two defaults the model cannot tell apart (listed mechanism) stand as one value in the plain pair
                    before, after = default_nodes(o["func"], case["old"]), default_nodes(n["func"], case["new"])
                    same = {k for k in before.keys() & after.keys() if classify_default_miss(before[k], after[k])}
                    plain_dn = {k: ((*v[:2], do[k][2], v[3]) if k in same else v) for k, v in dn.items()}
                    if fid is not None and not _standalone_miss(o["func"], n["func"], do, plain_dn):
                        fid = None  # the plain pair is reported: the placement, not the signature rule set, lost it
                    if fid is None and any(unbuildable(node) and name in dn and dn[name][3]
                                           for name, node in default_nodes(o["func"], case["old"]).items()):
                        fid = DEFAULT_FINDINGS[1]  # a parameter that lost its default had one the builder cannot build
                    if fid is None:
                        fid = classify_placed(key, o, n, surf_o, surf_n)
                    tried = [*tried, DEFAULT_FINDINGS[1], *PLACED_FINDINGS]
                problems.append((f"a call through public path {key} binds in the old version, not in the new one, and no "
                                 "breakage is reported on the function it resolves to",
                                 {"breakages": kinds, "witness_call": call, "old_resolves_to": func_path(o["func"]),
                                  "new_resolves_to": func_path(n["func"]) if n else None}, ">=1 breakage on it", fid, tried))
                continue
        if not n:
            continue
        do, dn = describe_func(o["func"], case["old"]), describe_func(n["func"], case["new"])
        named = {b.param for b in here} - {None}
        old_nodes, new_nodes = default_nodes(o["func"], case["old"]), default_nodes(n["func"], case["new"])
        for name in old_nodes.keys() & new_nodes.keys():
            if not isinstance(old_nodes[name], ast.Constant) and do[name][2] == dn[name][2] and \
                    ast.dump(old_nodes[name]) == ast.dump(new_nodes[name]):
                rec.count("expression_default_unchanged_pairs")  # a breakage naming it for its default is refuted below
                if ast.get_source_segment(case["old"][o["func"].__module__], old_nodes[name]) != \
                        ast.get_source_segment(case["new"][n["func"].__module__], new_nodes[name]):
                    rec.count("expression_default_respelled_pairs")
        for name, (kind, idx, dfl, req) in do.items():
            if name not in dn:
                continue
            nkind, nidx, ndfl, nreq = dn[name]
            what = rule = None
            if kind in (PO, PK) and nkind in (PO, PK) and idx != nidx:
                what, rule = f"positional parameter {name} moved {idx}->{nidx}", "moved"
            elif kind not in (VP, VK) and nkind not in (VP, VK) and dfl is not None and ndfl is not None and dfl != ndfl:
                what, rule = f"default of {name} changed {dfl[:160]}->{ndfl[:160]}", "default_changed"
            elif not req and nreq:
                what, rule = f"parameter {name} became required", "became_required"
            if what:
                rec.count("placed_param_rules_checked")
                node = old_nodes.get(name)
                if node is not None and not (isinstance(node, ast.Constant) and type(node.value) is int) and rule != "moved":
                    # the old default is an expression CPython evaluated, not one of the two literals of the pair space
                    rec.count(f"expression_default_{rule}_checked")
                    rec.add_to_set("expression_default_node_kinds", type(node).__name__)
                    for sub in ast.walk(node):
                        rec.add_to_set("expression_default_inner_node_kinds", type(sub).__name__)
                    if any(isinstance(x, ast.JoinedStr) for x in ast.walk(node)):
                        rec.count("fstring_default_rules_checked")
                    if nested_field_fstring(node):
                        rec.count("nested_field_fstring_default_rules_checked")
                    if any(isinstance(x, (ast.Lambda, ast.GeneratorExp)) for x in ast.walk(node)):
                        rec.count("identity_valued_default_rules_checked")  # judged by the parsed expression
                if name not in named:
                    fid = classify_default_miss(node, new_nodes.get(name)) if rule == "default_changed" else None
                    if fid is None and rule != "moved" and (unbuildable(node) or (rule == "default_changed" and unbuildable(new_nodes.get(name)))):
                        fid = DEFAULT_FINDINGS[1]  # optional for CPython, required in the model: neither rule can fire
                    if fid is None:
                        fid = classify_placed(key, o, n, surf_o, surf_n)
                    problems.append((f"{what} behind public path {key} but no breakage names it", kinds, "named",
                                     fid, [*PLACED_FINDINGS, *DEFAULT_FINDINGS]))
    # every reported parameter breakage must name a parameter that changed behind some public path reaching that function
    for b, p in located:
        name = b.param
        if name is None:
            continue
        rec.count("placed_reported_param_breakages_checked")
        justified = False
        for key, n in surf_n.items():
            o = surf_o.get(key)
            if not (o and p in (f"{MAIN}.{key}", n["own_path"], func_path(n["func"]))):
                continue
            if describe_func(o["func"], case["old"]).get(name) != describe_func(n["func"], case["new"]).get(name):
                justified = True
                break
            # the same value spelled by another expression (`1 + 1` -> `2`): whether that is "a changed default" is left open;
            # spellings CPython parses to the same tree are the same default
            before, after = default_nodes(o["func"], case["old"]).get(name), default_nodes(n["func"], case["new"]).get(name)
            if before is not None and after is not None and ast.dump(before) != ast.dump(after):
                rec.count("reported_default_change_with_equal_value_other_expression")
                justified = True
                break
        if not justified:
            problems.append((f"breakage {b.kind} on {p} names parameter {name}, which did not change behind any public "
                             "path that resolves to this function", kinds, "no such report", None, ()))
    if problems:
        problems.sort(key=lambda p: p[3] is not None)  # an unexplained problem is never hidden behind a known one
        what, observed, expected, fid, tried = problems[0]
        rec.fail(case, what, observed=observed, expected=expected, finding=fid, tried=tried, nontrivial=any_broken,
                 tags=("placed",))
    else:
        rec.ok(case, nontrivial=any_broken, tags=("placed", "placed-broken-call") if any_broken else ("placed",))


def shards(tier: str, seed: int) -> list[dict]:
    nsh = 16
    out = [{"kind": "pairs", "names": ["a", "b"], "part": p, "parts": nsh, "sample": None} for p in range(nsh)]
    if tier == "thorough":
        out += [{"kind": "pairs", "names": ["a", "b", "c"], "part": p, "parts": 32, "sample": 60} for p in range(32)]
        out += [{"kind": "placed", "names": ["a", "b"], "cases": 12000} for _ in range(16)]
        out += [{"kind": "loaded", "names": ["a", "b"], "cases": 6000, "check_api": 200, "check_cli": 30} for _ in range(16)]
        out += [{"kind": "exprs", "names": ["a", "b"], "cases": 5000, "check_api": 60, "check_cli": 10} for _ in range(16)]
    else:
        out += [{"kind": "pairs", "names": ["a", "b", "c"], "part": p, "parts": 8, "sample": 3} for p in range(8)]
        out += [{"kind": "placed", "names": ["a", "b"], "cases": 1200} for _ in range(8)]
        out += [{"kind": "loaded", "names": ["a", "b"], "cases": 450, "check_api": 14, "check_cli": 3} for _ in range(8)]
        out += [{"kind": "exprs", "names": ["a", "b"], "cases": 350, "check_api": 4, "check_cli": 1} for _ in range(6)]
    return out


def param_name(breakage) -> str | None:  # noqa: ANN001
    for v in (breakage.old_value, breakage.new_value):
        if hasattr(v, "name") and hasattr(v, "kind") and hasattr(v, "default"):
            return v.name
    return None


def run_pair(rec, old, new, so, sn, mo, mn, old_mod, new_mod, nontrivial_extra=False) -> None:  # noqa: ANN001, C901, PLR0912
    import griffe

    case = {"old": so, "new": sn}
    broken = mo & ~mn
    nontrivial = bool(broken)
    try:
        breakages = list(griffe.find_breaking_changes(old_mod, new_mod))
        for b in breakages:
            for style in griffe.ExplanationStyle:
                b.explain(style)
    except Exception as exc:  # noqa: BLE001
        rec.fail_exc(case, "find_breaking_changes / explain raised", exc, nontrivial=nontrivial)
        return
    kinds = [b.kind.value for b in breakages]
    do, dn = describe(old), describe(new)
    problems = []
    if broken:
        rec.count("pairs_with_broken_call")
        if not breakages:
            bit = (broken & -broken).bit_length() - 1
            npos, kws = CALLS[bit]
            call = "f(" + ", ".join([str(i) for i in range(npos)] + [f"{k}=9" for k in kws]) + ")"
            fid, tried = classify_miss(old, new, so, sn, broken)
            rec.fail(case, "a call binds to the old signature, not to the new one, and nothing is reported",
                     observed={"breakages": [], "witness_call": call}, expected=">=1 breakage", finding=fid, tried=tried,
                     tags=("miss",))
            return
    if so == sn:
        if breakages:
            problems.append(("identical signatures but breakages reported", kinds, []))
        else:
            rec.count("identical_pairs_silent")
    named = {}
    for b in breakages:
        n = param_name(b)
        if n is not None:
            named.setdefault(n, []).append(b.kind.value)
    for name, (kind, idx, dfl, req) in do.items():
        if name not in dn:
            continue
        nkind, nidx, ndfl, nreq = dn[name]
        if kind in (PO, PK) and nkind in (PO, PK) and idx != nidx:
            rec.count("moved_checked")
            if name not in named:
                problems.append((f"positional parameter {name} moved {idx}->{nidx} but no breakage names it", kinds, "moved"))
        if kind not in (VP, VK) and nkind not in (VP, VK) and dfl is not None and ndfl is not None and dfl != ndfl:
            rec.count("default_changed_checked")
            if name not in named:
                problems.append((f"default of {name} changed {dfl}->{ndfl} but no breakage names it", kinds, "changed default"))
        if not req and nreq:
            rec.count("became_required_checked")
            if name not in named:
                problems.append((f"parameter {name} became required but no breakage names it", kinds, "became required"))
    for name, ks in named.items():
        rec.count("reported_param_breakages_checked", len(ks))
        a, b = do.get(name), dn.get(name)
        if a == b:
            problems.append((f"breakage {ks} names parameter {name} which did not change", kinds, "no report on it"))
    if problems:
        rec.fail(case, problems[0][0], observed=problems[0][1], expected=problems[0][2], nontrivial=nontrivial)
    else:
        rec.ok(case, nontrivial=nontrivial, dig=so + "->" + sn, tags=("broken-call",) if broken else ())


def run_shard(spec: dict, rec) -> None:  # noqa: ANN001
    rng = random.Random(spec["seed"])
    sigs = signatures(spec["names"])
    if spec["kind"] == "placed":
        masks = [accepted_mask(render(s), rec) for s in sigs]
        breaking = [[j for j in range(len(sigs)) if masks[i] & ~masks[j]] for i in range(len(sigs))]
        for _ in range(spec["cases"]):
            run_placed(rec, gen_placed(rng, sigs, breaking))
        return
    if spec["kind"] == "exprs":
        import warnings

        warnings.simplefilter("ignore", SyntaxWarning)  # `1.5[a]`, `x is 1`: CPython compiles them, that is all that matters here
        try:  # safety net next to resource_bomb(): a default that would need gigabytes (`b"xy" * 255 ** 4`) raises MemoryError
            import resource

            soft, hard = resource.getrlimit(resource.RLIMIT_AS)
            cap = 6 << 30
            resource.setrlimit(resource.RLIMIT_AS, (cap if hard == resource.RLIM_INFINITY else min(cap, hard), hard))
        except (ImportError, ValueError, OSError):
            pass
        masks = [accepted_mask(render(s), rec) for s in sigs]
        breaking = [[j for j in range(len(sigs)) if masks[i] & ~masks[j]] for i in range(len(sigs))]
        expensive = {"check-api": spec["check_api"], "check-cli": spec["check_cli"]}
        exprs = ExprDefaults(rng)
        for _ in range(spec["cases"]):
            case = with_expr_defaults(rng, gen_placed(rng, sigs, breaking), exprs, rec)
            run_placed(rec, with_load_mode(rng, case, hooks_needed=False, expensive=expensive))
        return
    if spec["kind"] == "loaded":
        masks = [accepted_mask(render(s), rec) for s in sigs]
        breaking = [[j for j in range(len(sigs)) if masks[i] & ~masks[j]] for i in range(len(sigs))]
        expensive = {"check-api": spec["check_api"], "check-cli": spec["check_cli"]}
        for _ in range(spec["cases"]):
            r = rng.random()
            if r < 0.4:
                case = with_load_mode(rng, gen_dataclasses(rng, sigs, len(sigs)), hooks_needed=True, expensive=expensive)
            elif r < 0.7:  # wildcard imports are expanded by the loader only
                case = with_load_mode(rng, gen_exported(rng, sigs, breaking), hooks_needed=True, expensive=expensive)
            else:
                case = with_load_mode(rng, gen_placed(rng, sigs, breaking), hooks_needed=False, expensive=expensive)
            run_placed(rec, case)
        return
    rec.maximum(f"signatures_over_{''.join(spec['names'])}", len(sigs))
    srcs = [render(s) for s in sigs]
    assert len(set(srcs)) == len(srcs)
    masks = [accepted_mask(s, rec) for s in srcs]
    news = [visit_source(s, "m") for s in srcs]
    olds_idx = [i for i in range(len(sigs)) if i % spec["parts"] == spec["part"]]
    if spec["sample"] is not None:
        rng.shuffle(olds_idx)
        olds_idx = olds_idx[: spec["sample"]]
    for i in olds_idx:
        old_mod = visit_source(srcs[i], "m")
        for j in range(len(sigs)):
            run_pair(rec, sigs[i], sigs[j], srcs[i], srcs[j], masks[i], masks[j], old_mod, news[j])


def _parse(src: str):  # noqa: ANN202
    import ast

    a = ast.parse(src).body[0].args
    out = []
    npos = len(a.posonlyargs) + len(a.args)
    dflts = [None] * (npos - len(a.defaults)) + [ast.unparse(d) for d in a.defaults]
    for k, arg in enumerate(a.posonlyargs + a.args):
        out.append((arg.arg, PO if k < len(a.posonlyargs) else PK, dflts[k]))
    if a.vararg:
        out.append((a.vararg.arg, VP, None))
    for arg, d in zip(a.kwonlyargs, a.kw_defaults):
        out.append((arg.arg, KO, ast.unparse(d) if d is not None else None))
    if a.kwarg:
        out.append((a.kwarg.arg, VK, None))
    return tuple(out)


def run_one(rec, so: str, sn: str) -> None:  # noqa: ANN001
    old, new = _parse(so), _parse(sn)
    run_pair(rec, old, new, so, sn, accepted_mask(so, rec), accepted_mask(sn, rec), visit_source(so, "m"), visit_source(sn, "m"))


def run_replay(inp: dict, rec) -> None:  # noqa: ANN001
    if isinstance(inp["old"], dict):
        run_placed(rec, inp)
    else:
        run_one(rec, inp["old"], inp["new"])


def run_pinned(findings: list[dict], rec) -> dict:  # noqa: ANN001
    from vf.core.rec import Recorder, pinned_result

    out = {}
    for f in findings:
        sub = Recorder(PROP, {})
        run_replay(f["witness"], sub)
        out[f["id"]] = pinned_result(sub, f)
    return out
