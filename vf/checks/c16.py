"""C16 — Object-tree invariants hold after any history of member mutations.

Workload: a fixed universe (one ModulesCollection, modules a and b, classes a.K and b.L, functions,
attributes, three aliases) is rebuilt for every history through the real API; then a history of
operations is applied: ``set_member`` / ``__setitem__`` / ``del_member`` / ``__delitem__`` /
``get_member`` / ``__getitem__`` with string, dotted and tuple keys on objects and on the collection,
alias creation with string and object targets, ``alias.target = ...`` (including itself and same-path
objects), resolution of string aliases, replacement of aliased objects, a stubs-module replacement.  Values are not only
fresh objects: a history may store an object that has been around (``existing``: deleted / replaced / never attached objects put
back, moved to another container or attached at last; attached objects stored again where they are), build containers
bottom-up (members - aliases with a constructor parent included - stored before the container gets its place), create values
without storing them (``new``) and work on containers that hang outside the tree (receiver ``@<creation label>``).
The implicit stubs merge of ``set_member`` is part of the histories: regular / stubs module pairs whose members (flat literal
lists, dotted names nest below classes) mix every kind on both sides - resolvable, unresolvable and cyclic aliases, same-named
members of different kinds, stub-only and runtime-only members in every order, classes both sides have - stored one over the
other in both orders, at the collection level and as submodules; a grid of such pairs is enumerated (``merge_histories``),
random histories draw them too.  The model says which object stays in the tree (the regular module), which members the
regular side adopts (recursively below containers both sides have) and when an adopted alias registers.
ALL histories of length <= 3 over a fixed operation alphabet are enumerated; long histories are random.

Oracle: *history + executable model*.  ``vf.gen.c16_model`` (plain dict tree + alias pointers, no Griffe
code) mirrors every operation, predicts success / failure, and after EVERY step a walker compares the real
tree with the model and checks the global invariants of the statement.  M-CON: icontract post-conditions
on the four mutators and on the ``Alias.target`` setter check the local invariants at the point of mutation.
"""
from __future__ import annotations

import itertools
import random
from pathlib import Path

from vf.gen.c16_model import (MCyclic, MKeyError, MOutOfDomain, MUnresolvable, MValueError, N, Tree, adoptable_members, merge_outside_model,
                              merge_stubs_model, parts_of, shape_of_node, shape_of_spec)

PROP = "C16"
LEVEL = "exploration"
ANCHORS = ["mixins.py", "collections.py"]
RULE = ("histories over the universe {collection; modules a,b; classes a.K,b.L; functions a.g,a.K.f,b.L.h; attributes "
        "a.y,a.K.x,b.z; aliases b.ak->'a.K' (string), b.ag->a.g (object), a.K.al->'b.L.h' (string)}: every sequence of "
        "length 1..3 over a fixed alphabet of 43 literal operations (set_member/__setitem__/del_member/__delitem__/"
        "get_member/__getitem__ x name/dotted/tuple keys x object/collection receivers, alias creation with string/object "
        "targets, alias.target = self/same-path/other, resolve, stubs-module replacement, invalid keys, twin aliases, existing "
        "objects stored again in place / put back after deletion or replacement, a class built bottom-up), plus seeded random "
        "histories of length 5..40 generated against the evolving state (values: fresh, bottom-up built, existing objects moved / "
        "put back / re-set, detached values and detached receivers, regular/stubs module pairs with mixed members at the "
        "collection level and as submodules); plus an enumerated grid of 3024 module-pair histories (probe member of 9 x 7 "
        "flavours x 3 positions x top/nested x both orders x set_member/__setitem__ x collection/submodule level). distinct = digest of the literal operation list; "
        "non-trivial = the history replaces (set_member/__setitem__) an object that a resolved in-tree alias points at")
LEVEL_TEXT = ("Every history of the enumerated bounded space (all sequences of <=3 operations of the alphabet) and every sampled "
              "long history is executed against the real classes; after each single operation the whole tree is walked and "
              "compared with an independent dictionary model: parent links, retrievability of every object from the collection "
              "by its own path, dotted = tuple = chained lookup through get_member and [] from every ancestor, absence of every "
              "deleted path, alias targets after set_member replacements, back-references target.aliases[alias.path], "
              "no alias targeting itself (by identity or by path). Post-conditions on the mutators are evaluated on every call.")
LEVEL_NOTE = ("trusted: the ~150-line reference model (vf/gen/c16_model.py) and the walker; exception *classes* of invalid "
              "operations are recorded, not judged (the statement does not fix them); frame conditions the statement does not "
              "state (e.g. an alias retargeted through a stale back-reference) are counted, not judged; values are always "
              "stored under their own name and in one place at a time (no renaming, no sharing: an existing object is only stored "
              "again where it is, or elsewhere once it hangs nowhere); modules live at the collection level or below a module; "
              "stubs merges that would work through a regular-side alias into a container, or need a modules collection the "
              "regular module does not have yet (regular module set over stubs with aliases to look through), are outside the domain; "
              "a string alias never "
              "sits at the path its own target string names; no inheritance between the classes")
TECHNIQUE = "runtime monitoring: history + executable reference model, global invariant walker after every step, icontract post-conditions on the mutators"
REQUIRED_COUNTERS = ["steps_walked", "parent_links_checked", "own_path_retrievals", "lookup_forms_compared",
                     "deleted_paths_checked_gone", "aliased_replacements_followed", "alias_backrefs_checked",
                     "self_target_attempts_refused", "contract_set_evals", "contract_del_evals", "contract_target_evals",
                     "ops_on_collection", "ops_with_tuple_key", "ops_with_dotted_key", "invalid_ops_rejected",
                     "inherit_lookup_forms_compared", "inherit_deleted_paths_checked_gone",
                     "existing_objects_reinserted", "existing_objects_reset_in_place", "reattached_alias_backrefs_checked",
                     "bottom_up_containers_attached", "ops_on_detached_receiver",
                     "stubs_merges_regular_first", "stubs_merges_stubs_first", "stubs_merges_below_a_module", "stub_only_members_adopted",
                     "stubs_merges_into_module_with_unresolved_alias"]
EXHAUSTIVE = {"quick": True, "thorough": True}
ASSUMPTIONS = ["exhaustive only over sequences of <=3 operations of the stated alphabet (<=4 over a 16-operation sub-alphabet in the "
               "thorough tier); longer histories are sampled",
               "alias retargeting is required of set_member only; stale back-references left by deletions are not violations"]
SHARD_TIMEOUT = {"quick": 600, "thorough": 3600}

F_DETACHED = "C16-replace-aliased-by-detached-alias"
F_TPATH = "C16-retargeted-target-path-unqualified"
F_CTOR = "C16-alias-ctor-bypasses-self-target-guard"
F_THROUGH = "C16-mutation-through-alias-lost"
F_CHAIN = "C16-chained-alias-backref-not-migrated"
F_STALE = "C16-stale-backref-displaces-live-alias"
F_MOVED = "C16-registration-key-not-refreshed-when-ancestor-attached"
ALL_FINDINGS = [F_DETACHED, F_TPATH, F_CTOR, F_THROUGH, F_CHAIN, F_STALE, F_MOVED]


class ContractBroken(Exception):
    def __init__(self, which: str, text: str, receiver_is_alias: bool = False) -> None:
        super().__init__(f"{which}: {text}")
        self.which = which
        self.receiver_is_alias = receiver_is_alias


class Inapplicable(Exception):
    """The operation names a receiver / alias / target that does not exist in the current state."""


class Violation(Exception):
    def __init__(self, what: str, observed=None, expected=None, finding: str | None = None, stop: bool = True) -> None:  # noqa: ANN001
        super().__init__(what)
        self.what, self.observed, self.expected, self.finding, self.stop = what, observed, expected, finding, stop


# ==================================================================================================
# M-CON: post-conditions on the mutators (icontract; plain wrappers as fallback)
_COUNTS = {"set": 0, "del": 0, "target": 0}


def _one_name(key):  # noqa: ANN001, ANN202
    """The member name if ``key`` addresses a direct member, else None (deeper keys are checked by the inner call)."""
    parts = key.split(".") if isinstance(key, str) else list(key)
    return parts[0] if len(parts) == 1 else None


def _snap_old(self, key):  # noqa: ANN001, ANN202
    """Snapshot taken before set_member/__setitem__: the member being replaced and the aliases that point at it."""
    try:
        name = _one_name(key)
        if name is None or getattr(self, "is_alias", False):
            return None
        old = self.members.get(name)
        if old is None or old.is_alias:
            return (old, [])
        # (an alias whose own path is the path of the member - e.g. a transient wrapper built by looking through another alias
        # onto a twin subtree - cannot follow: the value will sit at that very path and an alias never targets its own path)
        here = old.path
        return (old, [al for al in old.aliases.values() if al._target is old and al.path != here])
    except Exception:  # noqa: BLE001
        return None


def member_is_installed_with_parent(self, key, value, OLD) -> bool:  # noqa: ANN001, N803
    _COUNTS["set"] += 1
    name = _one_name(key)
    if name is None:
        return True
    got = self.members.get(name)
    old = OLD.old[0] if OLD.old else None
    if got is not value and not (old is not None and got is old and not old.is_alias and old.is_module and value.is_module):
        return False  # (second clause: documented stubs merge keeps the regular module)
    if self.is_collection:
        return got._modules_collection is self
    return got.parent is self


def pointing_aliases_follow(self, key, value, OLD) -> bool:  # noqa: ANN001, N803
    name = _one_name(key)
    if name is None or not OLD.old:
        return True
    got = self.members.get(name)
    return all(al._target is got or al is got for al in OLD.old[1])


def member_is_removed(self, key) -> bool:  # noqa: ANN001
    _COUNTS["del"] += 1
    name = _one_name(key)
    return name is None or name not in self.members


def target_is_set_registered_and_not_self(self, value) -> bool:  # noqa: ANN001
    _COUNTS["target"] += 1
    if self._target is not value or value is self:
        return False
    if self._parent is None:
        return True
    return value.path != self.path and value.aliases.get(self.path) is self


def _err(which):  # noqa: ANN001, ANN202
    def make(self, **_kw):  # noqa: ANN001, ANN003, ANN202
        return ContractBroken(which, f"receiver {type(self).__name__} {getattr(self, 'name', '<collection>')!r}",
                              receiver_is_alias=bool(getattr(self, "is_alias", False)))
    return make


def install_contracts(rec) -> None:  # noqa: ANN001
    import _griffe.mixins as mx
    import _griffe.models as models

    if getattr(mx.SetMembersMixin.set_member, "_vf", False):
        return
    try:
        import icontract

        def post_set(func, retarget):  # noqa: ANN001, ANN202
            name = func.__name__
            wrapped = func
            if retarget:
                wrapped = icontract.ensure(pointing_aliases_follow, error=lambda self, key, value: _err(f"{name}: aliases pointing at the replaced member follow")(self))(wrapped)
            wrapped = icontract.ensure(member_is_installed_with_parent, error=lambda self, key, value: _err(f"{name}: member installed under its container")(self))(wrapped)
            return icontract.snapshot(_snap_old, name="old")(wrapped)

        def post_del(func):  # noqa: ANN001, ANN202
            name = func.__name__
            return icontract.ensure(member_is_removed, error=lambda self, key: _err(f"{name}: member removed")(self))(func)

        def post_target(func):  # noqa: ANN001, ANN202
            return icontract.ensure(target_is_set_registered_and_not_self, error=lambda self, value: _err("Alias.target setter: target set, registered, not self")(self))(func)

        rec.note("M-CON via icontract.ensure/snapshot")
    except ImportError:
        import functools
        import types

        def post_set(func, retarget):  # noqa: ANN001, ANN202
            @functools.wraps(func)
            def wrapper(self, key, value):  # noqa: ANN001, ANN202
                old = types.SimpleNamespace(old=_snap_old(self, key))
                func(self, key, value)
                if not member_is_installed_with_parent(self, key, value, old):
                    raise _err(f"{func.__name__}: member installed under its container")(self)
                if retarget and not pointing_aliases_follow(self, key, value, old):
                    raise _err(f"{func.__name__}: aliases pointing at the replaced member follow")(self)
            return wrapper

        def post_del(func):  # noqa: ANN001, ANN202
            @functools.wraps(func)
            def wrapper(self, key):  # noqa: ANN001, ANN202
                func(self, key)
                if not member_is_removed(self, key):
                    raise _err(f"{func.__name__}: member removed")(self)
            return wrapper

        def post_target(func):  # noqa: ANN001, ANN202
            @functools.wraps(func)
            def wrapper(self, value):  # noqa: ANN001, ANN202
                func(self, value)
                if not target_is_set_registered_and_not_self(self, value):
                    raise _err("Alias.target setter: target set, registered, not self")(self)
            return wrapper

        rec.note("M-CON via built-in fallback wrappers (icontract not importable)")

    mx.SetMembersMixin.set_member = post_set(mx.SetMembersMixin.set_member, retarget=True)
    mx.SetMembersMixin.__setitem__ = post_set(mx.SetMembersMixin.__setitem__, retarget=False)
    mx.DelMembersMixin.del_member = post_del(mx.DelMembersMixin.del_member)
    mx.DelMembersMixin.__delitem__ = post_del(mx.DelMembersMixin.__delitem__)
    prop = models.Alias.target
    models.Alias.target = property(prop.fget, post_target(prop.fset), doc=prop.__doc__)
    mx.SetMembersMixin.set_member._vf = True  # type: ignore[attr-defined]


# ==================================================================================================
# the universe and the operation alphabet (all literal, JSON-able)
UNIVERSE = [
    ["set", "set_member", "coll", "a", "module", {}],
    ["set", "set_member", "coll", "b", "module", {}],
    ["set", "set_member", "a", "K", "class", {}],
    ["set", "set_member", "a", "K.f", "function", {}],
    ["set", "set_member", "coll", ["a", "K", "x"], "attribute", {}],
    ["set", "set_member", "a", "g", "function", {}],
    ["set", "set_member", "a", "y", "attribute", {}],
    ["set", "set_member", "b", "L", "class", {}],
    ["set", "set_member", "coll", "b.L.h", "function", {}],
    ["set", "set_member", "b", "z", "attribute", {}],
    ["set", "set_member", "b", "ak", "alias_str", {"target": "a.K"}],
    ["set", "set_member", "b", "ag", "alias_obj", {"target": "a.g"}],
    ["set", "set_member", "a", ["K", "al"], "alias_str", {"target": "b.L.h"}],
]

ALPHABET = [
    # replacements through the tree-building API
    ["set", "set_member", "a", "g", "function", {}],                         # 0 aliased (b.ag) object replaced, string key
    ["set", "set_member", "a", "K", "class", {}],                            # 1 class replaced (aliased once b.ak is resolved)
    ["set", "set_member", "coll", "a.K.f", "function", {}],                  # 2 collection receiver, dotted key
    ["set", "set_member", "coll", ["b", "L", "h"], "function", {}],          # 3 collection receiver, tuple key (a.K.al's target)
    ["set", "set_member", "b", "L.n", "attribute", {}],                      # 4 new nested member, dotted
    ["set", "set_member", "coll", "c", "module", {}],                        # 5 new module
    ["set", "set_member", "a", "g", "alias_str", {"target": "b.z"}],         # 6 aliased object replaced by a detached alias
    ["set", "set_member", "b", "w", "alias_obj", {"target": "a.K.f"}],       # 7 new alias, object target
    ["set", "set_member", "a", "y", "alias_obj", {"target": "a.y"}],         # 8 alias built on the object at its own path
    ["set", "set_member", "b", "ak.n", "function", {}],                      # 9 insertion through an alias
    ["set", "set_member", "coll", "a", "stub", {}],                          # 10 stubs module merged into a
    # the consumer API
    ["set", "setitem", "a", "g", "function", {}],                            # 11 aliased object replaced via []
    ["set", "setitem", "coll", "a.K.x", "attribute", {}],                    # 12
    ["set", "setitem", "a", ["K", "n"], "function", {}],                     # 13 nested, tuple key
    ["set", "setitem", "coll", "b", "module", {}],                           # 14 whole module replaced
    ["set", "setitem", "b", "ag", "alias_obj", {"target": "a.y", "ctor_parent": True}],  # 15 alias replaced by alias
    # deletions
    ["del", "del_member", "a", "g"],                                         # 16 target of b.ag
    ["del", "del_member", "coll", "a.K.f"],                                  # 17
    ["del", "delitem", "a", ["K", "x"]],                                     # 18
    ["del", "delitem", "coll", "b.L"],                                       # 19 (a.K.al's target below it)
    ["del", "del_member", "b", "ak"],                                        # 20 an alias
    ["del", "delitem", "coll", "a"],                                         # 21 whole module
    ["del", "del_member", "b", "ak.f"],                                      # 22 deletion through an alias
    # alias retargeting / resolution
    ["retarget", "b.ag", "self"],                                            # 23
    ["retarget", "b.ag", "samepath"],                                        # 24
    ["retarget", "b.ag", "a.y"],                                             # 25
    ["retarget", "b.ak", "b.L"],                                             # 26 string alias given an object target
    ["retarget", "a.K.al", "b.ag"],                                          # 27 alias -> alias
    ["resolve", "b.ak"],                                                     # 28
    ["resolve", "a.K.al"],                                                   # 29
    # lookups (only their side effects matter: the walker looks everything up after every step)
    ["get", "getitem", "coll", "b.ak.f"],                                    # 30 through an alias
    ["get", "get_member", "a", ["K", "al"]],                                 # 31
    # invalid operations
    ["del", "del_member", "a", "nope"],                                      # 32
    ["set", "set_member", "a", "", "function", {}],                          # 33
    ["set", "setitem", "a", "zz.q", "function", {}],                         # 34
    ["del", "delitem", "coll", []],                                          # 35
    # (appended later; keeps the numbering above stable)
    ["set", "set_member", "b", "g", "alias_obj", {"target": "a.g"}],         # 36 alias named like its target (b.g -> a.g)
    # values that are not fresh: objects that have been around, containers built bottom-up
    ["set", "set_member", "b", "ag", "alias_obj", {"target": "a.g"}],        # 37 a twin of the alias in place (same path, same target)
    ["set", "set_member", "b", "ag", "existing", {"ref": "u11"}],            # 38 the universe's b.ag stored again: in place, or put back
    ["set", "setitem", "coll", "a.K", "existing", {"ref": "u2"}],            # 39 the universe's a.K (holds alias al) stored again / put back
    ["set", "set_member", "b", "M", "class", {"members": [["function", "f", {}], ["alias_obj", "w", {"target": "a.g", "ctor_parent": True}]]}],  # 40
    ["set", "set_member", "coll", ["b", "M", "w"], "existing", {"ref": "=b.M.w"}],   # 41 an alias below a bottom-up built class stored again
    ["del", "delitem", "b", "ag"],                                           # 42 (so that 38 can put it back)
]
SUB_ALPHABET = [0, 1, 3, 6, 7, 9, 11, 15, 16, 19, 22, 25, 27, 28, 29, 30, 38, 40, 41]   # thorough: all sequences of length 4 over these

STUB_DEFAULT_MEMBERS = [["function", "sf", {}]]     # what a value of kind "stub" holds when the operation does not say
STRING_TARGETS = ["a.K", "b.L.h", "b.z", "a.g", "b.ag", "a.K.f", "a.nope", "b.L", "a.y"]
LEAF_NAMES = ["f", "x", "g", "y", "h", "z", "n", "w", "ak", "ag", "al"]   # alias names are always leaf names (see model)
CLASS_NAMES = ["K", "L", "M"]
MODULE_NAMES = ["a", "b", "c"]
SUBMODULE_NAMES = ["s", "t"]


class StepInfo:
    __slots__ = ("new_real", "old_backrefs", "old_backref_map", "retargeted", "new_node", "reattached", "prev", "moved")

    def __init__(self) -> None:
        self.new_real = None
        self.new_node = None
        self.old_backrefs: list = []
        self.old_backref_map: dict = {}
        self.retargeted: list = []
        self.reattached = None      # the existing alias this step stored (again): its registration must have been refreshed
        self.moved: list = []       # stub-only members the stubs merge of this step handed to the regular side
        self.prev: dict = {}        # uid -> (stamp, reg_path) of the aliases this step re-bound, as they were before


class World:
    """The real objects and the model, driven side by side."""

    def __init__(self, rec) -> None:  # noqa: ANN001
        import griffe

        self.g = griffe
        self.rec = rec
        self.coll = griffe.ModulesCollection()
        self.tree = Tree()
        self.real: dict[int, object] = {}
        self.n_uid = 0
        self.alias_nodes: list[N] = []      # every alias ever created (attached or not)
        self.labels: dict[str, N] = {}      # creation label -> node ("u3", "h0", "h0/w"): how histories designate existing objects
        self.node_of: dict[int, N] = {}     # id(real object) -> node (the real objects are kept alive by self.real)
        self.pre_designated: dict[int, N | None] = {}
        self.ever: set[str] = set()         # every path that ever held a member
        self.known: list[tuple[str, str, object, object]] = []   # known findings met: (id, what, observed, expected)
        self.nontrivial = False
        self.tags: set[str] = set()
        self.soft: dict[str, int] = {}
        self.cur_label: str | None = None
        self.soft_bound: set[int] = set()   # aliases whose link the model keeps although the real alias is unresolved

    # -- values -------------------------------------------------------------------------------
    def new_node(self, kind: str, name: str, **kw) -> N:  # noqa: ANN003
        self.n_uid += 1
        node = N(kind, name, self.n_uid, **kw)
        if kind == "alias":
            self.alias_nodes.append(node)
        return node

    def make(self, kind: str, name: str, opt: dict, cont_real, cont_node: N | None = None, label: str | None = None):  # noqa: ANN001, ANN201
        """A fresh value.  ``opt["members"]`` (classes, modules): the value is built bottom-up - its members are created and
        stored through the real API while it is still attached nowhere."""
        g = self.g
        if kind in ("function", "attribute", "class"):
            node = self.new_node(kind, name)
            obj = {"function": g.Function, "attribute": g.Attribute, "class": g.Class}[kind](name)
        elif kind in ("module", "stub"):
            suffix = ".pyi" if kind == "stub" else ".py"
            node = self.new_node("module", name, suffix=suffix)
            obj = g.Module(name, filepath=Path(f"/nonexistent-vf/{name}{suffix}"))
            if kind == "stub" and "members" not in opt:
                opt = {**opt, "members": STUB_DEFAULT_MEMBERS}
        elif kind == "alias_str":
            node = self.new_node("alias", name, target_path=opt["target"])
            if opt.get("ctor_parent") and cont_real is not None:
                node.up = cont_node
                obj = g.Alias(name, opt["target"], parent=cont_real)
            else:
                obj = g.Alias(name, opt["target"])
        elif kind == "alias_obj":
            tnode = self.tree.node_at(opt["target"])
            if tnode is None:
                raise Inapplicable(f"alias target {opt['target']} does not exist")
            node = self.new_node("alias", name, target_path=opt["target"])
            if opt.get("ctor_parent") and cont_real is not None:
                node.up = cont_node      # the constructor's parent: the alias registers under <that parent's path>.<name> right away
                self.bind(node, tnode)
                obj = g.Alias(name, self.real[tnode.uid], parent=cont_real)
            else:
                self.bind(node, tnode)
                obj = g.Alias(name, self.real[tnode.uid])
        else:
            raise ValueError(kind)
        self.real[node.uid] = obj
        self.node_of[id(obj)] = node
        if label is not None:
            node.label = label
            self.labels[label] = node
        if kind in ("class", "module", "stub") and opt.get("members"):
            # flat list, in storing order; a dotted member name places the member below a class listed earlier (nesting without
            # nesting the literal: the recorder keeps literals up to a fixed depth)
            for mkind, mname, mopt in opt["members"]:
                if mkind not in ("function", "attribute", "class", "alias_str", "alias_obj") or mopt.get("members"):
                    raise ValueError(mkind)
                *pre, leaf = mname.split(".")
                hobj, hnode = obj, node
                for p in pre:
                    hnode = hnode.members[p]
                    if hnode.kind != "class":
                        raise ValueError(mname)
                    hobj = self.real[hnode.uid]
                mnode, mobj = self.make(mkind, leaf, mopt, hobj, hnode, None if label is None else f"{label}/{mname}")
                hobj.set_member(leaf, mobj)
                hnode.members[leaf] = mnode
                mnode.up = hnode
                if mnode.kind == "alias":
                    self.bind(mnode, None)
            self.rec.count("values_built_bottom_up")
        return node, obj

    def bind(self, al: N, tnode: N | None) -> None:
        """Model of 'alias is (re)bound / (re)registered'.  Registration needs the final target of the chain: when the chain
        cannot be followed at that moment the real code skips (or aborts) the registration -> unreg (outside the oracle,
        a resolved alias over an unresolved link is C06's subject)."""
        self.tree.bind(al, tnode)
        al.unreg = False
        if al.target is not None and al.target.kind == "alias":
            try:
                self.tree.final(al)
            except (MCyclic, MUnresolvable, MOutOfDomain):
                al.unreg = True
            # (the registration itself comes last: the links of the chain that got resolved on the way registered before it)
            self.tree.clock += 1
            al.stamp = al.reg_stamp = self.tree.clock

    def receiver(self, where: str):  # noqa: ANN201
        """(node, members, real object, path parts of the receiver, receiver hangs outside the tree)."""
        if where == "coll":
            return None, self.tree.root, self.coll, [], False
        if where.startswith("@"):        # a container designated by its creation label: it may be attached or not
            node = self.labels.get(where[1:])
            if node is None or node.kind not in ("module", "class") or node.suffix != ".py":
                # (a stubs module is used up by a merge: its members were handed to the regular side)
                raise Inapplicable(f"no container labelled {where}")
            detached = not self.tree.in_tree(node)
            if detached:
                self.rec.count("ops_on_detached_receiver")
            return node, node.members, self.real[node.uid], node.path().split("."), detached
        node = self.tree.node_at(where)
        if node is None or node.kind == "alias":
            raise Inapplicable(f"receiver {where} does not exist")
        return node, node.members, self.real[node.uid], where.split("."), False

    def refuse_self_naming(self, kind: str, opt: dict, dest: list) -> None:
        """Domain restriction: a string-target alias is never placed at the very path its target string names (the constructor
        accepts it, nothing can be said about what it points at, and "pointed at the replaced object" is undefined for it)."""
        if kind == "alias_str":
            bad = opt["target"] == ".".join(dest)
        elif kind == "existing":
            ref = opt["ref"]
            node = self.tree.node_at(ref[1:]) if ref.startswith("=") else self.labels.get(ref)
            bad = node is not None and any(n.kind == "alias" and n.target is None and n.target_path == ".".join([*dest, *rel])
                                           for rel, n in self.tree.subtree(node))
        else:
            for mkind, mname, mopt in opt.get("members", ()):
                self.refuse_self_naming(mkind, mopt, [*dest, *mname.split(".")])
            return
        if bad:
            raise Inapplicable("a string alias would sit at the path its own target string names")

    def existing(self, opt: dict, key, expect: str, loc) -> tuple:  # noqa: ANN001
        """The value of a ``set`` operation of kind "existing": an object created earlier in the history.
        ref "u<k>" / "h<k>" (+ "/<member>"): the value created by universe / history step k; "=<path>": the object stored there now.
        Domain (the rest is misuse the statement does not cover): stored under its own name; either it is already the member
        at the destination (re-set in place) or it hangs nowhere (deleted / replaced / never attached) and the destination is
        not below it; modules live at the collection level only; never a stubs module (its members were merged away)."""
        ref = opt["ref"]
        node = self.tree.node_at(ref[1:]) if ref.startswith("=") else self.labels.get(ref)
        if node is None:
            raise Inapplicable(f"nothing designated by {ref}")
        if expect != "ok":
            return node, self.real[node.uid], "invalid-key"
        cont_node, cont_members, crossed = loc
        name = parts_of(key)[-1]
        if crossed is not None or name != node.name or node.suffix != ".py":
            raise Inapplicable("outside the domain of re-insertions")
        if node.kind == "module":
            # a module goes to the collection level only when it never had a parent (the collection does not reset one), and
            # never below a class
            if (cont_node is None and node.up is not None) or (cont_node is not None and cont_node.kind != "module"):
                raise Inapplicable("outside the domain of re-insertions (module levels)")
        elif cont_node is None:
            raise Inapplicable("outside the domain of re-insertions (only modules at the collection level)")
        if cont_members.get(name) is node:
            return node, self.real[node.uid], "in-place"
        if not self.tree.is_detached_root(node) or self.tree.inside(cont_node, node):
            raise Inapplicable("the object is stored elsewhere (sharing) or the destination is below it")
        return node, self.real[node.uid], "reinserted"

    @staticmethod
    def keyobj(key):  # noqa: ANN001, ANN205
        return key if isinstance(key, str) else tuple(key)

    def soft_class(self, exc: BaseException, expected: str) -> None:
        got = type(exc).__name__
        if got == expected:
            self.rec.count("exception_class_as_modelled")
        else:
            self.rec.count("exception_class_other_than_modelled")
            self.rec.add_to_set("exception_classes_other_than_modelled", f"{expected} modelled, {got} raised")

    def predict(self, fn):  # noqa: ANN001, ANN201
        """Run a model computation; translate model exceptions to the name of the class Griffe documents."""
        try:
            return "ok", fn()
        except MValueError:
            return "ValueError", None
        except MKeyError:
            return "KeyError", None
        except MUnresolvable:
            return "AliasResolutionError", None
        except MCyclic:
            return "CyclicAliasError", None

    def count_key(self, where: str, key) -> None:  # noqa: ANN001
        if where == "coll":
            self.rec.count("ops_on_collection")
        if not isinstance(key, str):
            self.rec.count("ops_with_tuple_key")
        elif "." in key:
            self.rec.count("ops_with_dotted_key")

    # -- operations ---------------------------------------------------------------------------
    def step(self, op: list, label: str | None = None) -> StepInfo:
        info = StepInfo()
        self.cur_label = label
        # what every unresolved alias designates *before* the step (an alias may get resolved as a side effect in the middle of
        # an operation - or by the walker's own probing after the previous step - and its target be replaced/deleted afterwards)
        self.pre_designated = {al.uid: self.tree.node_at(al.target_path) for al in self.alias_nodes
                               if al.target is None or al.uid in self.soft_bound}
        getattr(self, "op_" + op[0])(op, info)
        return info

    def op_set(self, op, info) -> None:  # noqa: ANN001, C901, PLR0912, PLR0915
        _tag, api, where, key, kind, opt = op
        recv_node, recv_members, recv_real, recv_base, recv_detached = self.receiver(where)
        expect, loc = self.predict(lambda: self.tree.container(recv_node, recv_members, parts_of(key)))
        name = "q"
        cont_node = cont_members = crossed = None
        if expect == "ok":
            cont_node, cont_members, crossed = loc
            name = parts_of(key)[-1]
        elif expect != "ValueError":
            name = parts_of(key)[-1]
        if recv_detached and (crossed is not None or expect in ("AliasResolutionError", "CyclicAliasError")):
            raise Inapplicable("key crosses an alias below a receiver that hangs outside the tree (nothing to resolve it against)")
        cont_real = None
        if expect == "ok" and crossed is None:
            cont_real = self.real[cont_node.uid] if cont_node is not None else None
        if expect == "ok" and crossed is None:
            self.refuse_self_naming(kind, opt, (cont_node.path().split(".") if cont_node is not None else []) + [name])
        if expect == "ok" and crossed is None and kind in ("module", "stub") and cont_node is not None and cont_node.kind != "module":
            raise Inapplicable("modules live at the collection level or below a module")
        if expect == "ok" and crossed is None and api == "set_member" and kind in ("module", "stub", "existing"):
            there = cont_members.get(name)
            if there is not None and there.kind == "module":
                if kind == "existing":
                    vnode = self.tree.node_at(opt["ref"][1:]) if opt["ref"].startswith("=") else self.labels.get(opt["ref"])
                    vshape = shape_of_node(vnode) if vnode is not None and vnode is not there else {}
                    vsuffix = vnode.suffix if vnode is not None else there.suffix
                else:
                    vshape = shape_of_spec(opt.get("members", STUB_DEFAULT_MEMBERS if kind == "stub" else []))
                    vsuffix = ".pyi" if kind == "stub" else ".py"
                if vsuffix != there.suffix:
                    why = (merge_outside_model(vshape, shape_of_node(there), True) if vsuffix == ".py"
                           else merge_outside_model(shape_of_node(there), vshape, False))
                    if why is None and vsuffix == ".py" and any(sm.kind == "alias" and sm.target is not None and sm.target.kind == "alias"
                                                                for sm in adoptable_members(vshape, there)):
                        # (same reason: registering an adopted alias follows its chain, which may have to resolve a link that
                        # now sits in the not yet attached module)
                        why = "adopted stub alias over an alias chain in a regular module that has no collection yet"
                    dest_path = ".".join((cont_node.path().split(".") if cont_node is not None else []) + [name])
                    if why is None and kind != "existing" and any(m[0] == "alias_obj" and m[2]["target"] == f"{dest_path}.{m[1]}"
                                                                   for m in opt.get("members", ())):
                        # the value is a twin of the module in the tree and is thrown away after the merge: an alias in it that is
                        # built on the object at the very path it claims is the constructor bypass of the self-target guard,
                        # without the alias ever being stored in the tree
                        why = "a member alias of the value is built on the object at the very path it claims"
                    if why:
                        raise Inapplicable("stubs merge outside the modelled domain: " + why)
        how = "fresh"
        if kind == "existing":
            node, value, how = self.existing(opt, key, expect, loc)
        else:
            node, value = self.make(kind, name, opt, cont_real, cont_node, self.cur_label)
        self.count_key(where, key)
        old = cont_members.get(name) if expect == "ok" else None
        old_real = self.real[old.uid] if old is not None else None
        if old is not None and old.kind != "alias" and crossed is None:
            info.old_backref_map = dict(old_real.aliases)
            info.old_backrefs = list(info.old_backref_map.values())
        try:
            if api == "set_member":
                recv_real.set_member(self.keyobj(key), value)
            else:
                recv_real[self.keyobj(key)] = value
            raised = None
        except Exception as exc:  # noqa: BLE001
            raised = exc
        if expect != "ok":
            if raised is None:
                raise Violation(f"{api}({key!r}) is invalid ({expect} modelled) but returned normally", "no exception", expect)
            if isinstance(raised, ContractBroken):
                raise Violation(f"{api}({key!r}): post-condition broken on an operation that should have been refused", str(raised), expect)
            self.soft_class(raised, expect)
            self.rec.count("invalid_ops_rejected")
            return
        dest = ".".join(recv_base + parts_of(key))
        if crossed is not None:
            # the key walks through an alias: the statement's post-condition is "the member is retrievable under that key"
            lost = isinstance(raised, ContractBroken) and raised.receiver_is_alias
            if raised is None:
                try:
                    got = recv_real.get_member(self.keyobj(key))
                    lost = not (got is value or (got.is_alias and got._target is value))
                except KeyError:
                    lost = True
            if lost:
                self.known.append((F_THROUGH, f"{api}({key!r}) through alias {crossed.path()} returned normally but the member is not there",
                                   "member not retrievable under the key just set", "member retrievable"))
                return
            if raised is not None:
                raise Violation(f"{api}({key!r}) through alias {crossed.path()} raised", repr(raised), "insertion into the alias' target")
            # (a fixed implementation inserts into the final target)
            fin = cont_node
            cont_real = self.real[fin.uid]
        if raised is not None:
            if isinstance(raised, ValueError) and "no modules collection" in str(raised) and outside_any_collection(recv_real):
                # domain: the model places every receiver in the collection; a handle into a tree that belongs to no collection
                # (a stubs module a merge left outside) cannot resolve the aliases the operation has to re-target, and Griffe
                # says so with its documented ValueError.  The history ends here as out-of-domain (the tree may be half-updated).
                self.rec.count("steps_on_receivers_outside_any_collection_out_of_domain")
                raise MOutOfDomain("receiver lives in a tree that belongs to no collection")
            detached_alias = node.kind == "alias" and getattr(value, "_parent", None) is None
            if (isinstance(raised, AttributeError) and "'NoneType' object has no attribute 'path'" in str(raised) and detached_alias
                    and api == "set_member" and old is not None and old.kind != "alias" and info.old_backrefs):
                self.known.append((F_DETACHED, f"set_member({key!r}, <detached Alias>) over an object that has aliases raised",
                                   f"AttributeError: {raised}", "member replaced, aliases retargeted"))
                return
            raise Violation(f"{api}({key!r}, <{kind}>) is valid but raised", f"{type(raised).__name__}: {raised}", "member installed")
        # ---- mirror the mutation in the model
        stored = node
        pointing: list[N] = []
        if old is not None and old.kind != "alias":
            pointing = [al for al in self.tree.pointing_at(old) if al is not node]
            if pointing:
                self.nontrivial = True
                self.tags.add("aliased-replaced:" + api)
        if api == "set_member" and old is not None and old.kind != "alias":
            if old.kind == "module" and node.kind == "module" and old.suffix != node.suffix:
                stubs, module = (old, node) if old.suffix == ".pyi" else (node, old)
                moved: list[N] = []
                merge_stubs_model(module, stubs, moved)
                stored = module
                self.tags.add("stubs-merged:" + ("regular-first" if module is old else "stubs-first"))
                self.rec.count("stubs_merges_mirrored")
                self.rec.count("stubs_merges_regular_first" if module is old else "stubs_merges_stubs_first")
                if cont_node is not None:
                    self.rec.count("stubs_merges_below_a_module")
                if any(m.kind == "alias" and m.target is None for m in module.members.values()):
                    self.rec.count("stubs_merges_into_module_with_unresolved_alias")
                self.rec.count("stub_only_members_adopted", len(moved))
                info.moved = moved
                for sm in moved:
                    if sm.kind == "alias":
                        # an adopted stub alias is stored through set_member: registered under the path it has at that moment
                        # (the merge runs before the value gets its place: a regular module set over stubs is not attached yet)
                        self.bind(sm, None)
            info.retargeted = list(pointing)
        cont_members[name] = stored
        stored.up = cont_node
        info.prev = {al.uid: (al.stamp, al.reg_path, al.reg_stamp) for al in [stored, *info.retargeted] if al.kind == "alias"}
        if stored.kind == "alias":
            self.bind(stored, None)     # attaching an alias (re-)registers it with its target, under the path it has now
        for al in info.retargeted:      # (the value's path - and what a string target designates - is that of the attached value)
            if stored is old and not any(a is self.real[al.uid] for a in info.old_backrefs):
                # the object stays (stored again in place, or the regular module of a stubs merge): an alias it did not list is
                # not touched - in particular not registered again (whether the missing listing is acceptable is judged below
                # and by the walker, with the registration times as they were)
                continue
            self.bind(al, stored)
        if api == "set_member" and old is not None and old.kind != "alias":
            # set_member assigns the value to EVERY alias the replaced object listed: one that already pointed at the value (a
            # stale entry left behind by an earlier retargeting) keeps its target but registers again, now
            for ra in info.old_backrefs:
                ln = self.node_of.get(id(ra))
                if (ln is not None and ln.kind == "alias" and not any(ln is x for x in info.retargeted) and ln.target is stored
                        and ra._target is self.real[stored.uid]):
                    self.bind(ln, None)
                    self.rec.count("stale_backref_reregistrations_observed")
        for rel, sub in self.tree.subtree(stored):
            self.ever.add(".".join([dest, *rel]))
        if how != "fresh":
            # an object that has been around: (re-)attached, put back where it was, moved, or stored again where it is
            self.rec.count("existing_objects_reset_in_place" if how == "in-place" else "existing_objects_reinserted")
            self.tags.add("existing:" + how)
            if stored is node and node.kind == "alias" and node.target is not None:
                info.reattached = node
        if stored is node and node.kind != "alias" and node.members and not recv_detached and how != "in-place":
            self.rec.count("bottom_up_containers_attached")   # a container that got its members before it got its place
        info.new_node, info.new_real = stored, self.real[stored.uid]
        # ---- local checks of this step
        for rel, sub in (self.tree.subtree(node) if stored is node else ()):
            # an alias (the value itself, or one below a value that was built / filled before it got this place) whose already
            # given target sits at the alias' own path: attaching never goes through the guard of the target setter
            spath = ".".join([dest, *rel])
            if sub.kind == "alias" and sub.target is not None and sub.target.path() == spath:
                rsub = self.real[sub.uid]
                t = rsub._target
                if t is not None and (t is rsub or t.path == rsub.path):
                    self.known.append((F_CTOR, f"Alias({sub.name!r}, target=<object at {spath}>) stored at {spath}: the alias targets its own path",
                                       f"alias.path == alias.target.path == {rsub.path!r}", "refused (CyclicAliasError) as by the target setter"))
                    raise Violation("poisoned", finding=F_CTOR)
        for al in info.retargeted:
            ral = self.real[al.uid]
            if not self.tree.in_tree(al):
                # the alias lived below the object that was replaced: it left the tree with it, the statement says nothing about
                # it any more -> the model follows whatever the real alias did
                if ral._target is not info.new_real:
                    self.tree.bind(al, old)
                    al.stamp, al.reg_path, al.reg_stamp = info.prev.get(al.uid, (al.stamp, al.reg_path, al.reg_stamp))
                    self.rec.count("aliases_leaving_with_their_replaced_target_not_retargeted")
                continue
            if ral._target is not info.new_real:
                listed = info.old_backref_map.get(ral.path)
                prev = info.prev.get(al.uid, (al.stamp, al.reg_path, al.reg_stamp))
                preg = prev[1]
                if (listed is not None and listed is not ral and self.displaced_by_stale(listed, prev[2])) or al.displaced == prev[2]:
                    # consequence of the displaced back-reference: the replaced object no longer listed this (live) alias,
                    # its slot was held by the detached alias that used to live at the same path
                    if not any(k[0] == F_STALE for k in self.known):
                        self.known.append((F_STALE, f"alias {al.path()} pointed at {dest} but was not listed in its aliases (slot held by a detached alias "
                                                    "of the same path), so it did not follow the set_member replacement", repr(ral._target), repr(info.new_real)))
                    self.tree.bind(al, old)
                    al.stamp, al.reg_path, al.reg_stamp = prev
                    al.displaced = prev[2]
                    continue
                if preg != ral.path and not any(a is ral for a in info.old_backrefs):
                    # consequence of the outdated registration key: the alias was registered under the path it had before an
                    # ancestor was attached / moved, and that key was overwritten (or never existed) -> the replaced object did
                    # not list it
                    if not any(k[0] == F_MOVED for k in self.known):
                        self.known.append((F_MOVED, f"alias {al.path()} pointed at {dest} but was only registered under its former path {preg!r}, "
                                                    "so it did not follow the set_member replacement", repr(ral._target), repr(info.new_real)))
                    self.tree.bind(al, old)
                    al.stamp, al.reg_path, al.reg_stamp = prev
                    continue
                raise Violation(f"alias {al.path()} pointed at {dest}, replaced through set_member, but did not follow the replacement",
                                repr(ral._target), repr(info.new_real))
            self.rec.count("aliased_replacements_followed")
            if ral.target_path != dest:
                if ral.target_path == name and "." in dest:
                    self.known.append((F_TPATH, f"alias {al.path()} followed the replacement of {dest} but its target_path is {ral.target_path!r}",
                                       ral.target_path, dest))
                else:
                    raise Violation(f"alias {al.path()} followed the replacement of {dest} but its target_path is wrong", ral.target_path, dest)

    def op_new(self, op, info) -> None:  # noqa: ANN001, ARG002
        """Create a value without storing it anywhere (later steps designate it by its label "h<step>").  For aliases,
        ``opt["parent"]`` (a path, or "@label") is handed to the constructor: the alias then names a parent that does not hold it."""
        _tag, kind, name, opt = op
        if kind not in ("function", "attribute", "class", "module", "alias_str", "alias_obj"):
            raise ValueError(kind)
        pnode = preal = None
        if opt.get("parent") is not None:
            pnode, _m, preal, _b, _d = self.receiver(opt["parent"])
            if pnode is None:
                raise Inapplicable("the collection cannot be a parent")
            if name in pnode.members or self.tree.node_at(f"{pnode.path()}.{name}") is not None:
                # domain: the constructor's parent must not already hold a member of that name, and the path the value claims
                # must be free in the tree (else the new object is a second claimant of an occupied path - with an object target
                # at that very path it is the constructor bypass of the self-target guard, without ever being stored)
                raise Inapplicable("the path the new value would claim is occupied")
        claimed = f"{pnode.path()}.{name}" if pnode is not None else name
        if any(m[0] == "alias_obj" and m[2]["target"] == f"{claimed}.{m[1]}" for m in opt.get("members", ())):
            raise Inapplicable("a member alias would be built on the object at the very path it claims")
        self.make(kind, name, {**opt, "ctor_parent": pnode is not None}, preal, pnode, self.cur_label)
        self.rec.count("values_created_detached")

    def op_del(self, op, info) -> None:  # noqa: ANN001, ARG002
        _tag, api, where, key = op
        recv_node, recv_members, recv_real, _base, recv_detached = self.receiver(where)
        self.count_key(where, key)

        def locate():  # noqa: ANN202
            parts = parts_of(key)
            cont_node, cont_members, crossed = self.tree.container(recv_node, recv_members, parts)
            if parts[-1] not in cont_members:
                raise MKeyError(parts[-1])
            return cont_node, cont_members, crossed, parts[-1]

        expect, loc = self.predict(locate)
        if recv_detached and ((expect == "ok" and loc[2] is not None) or expect in ("AliasResolutionError", "CyclicAliasError")):
            raise Inapplicable("key crosses an alias below a receiver that hangs outside the tree")
        try:
            if api == "del_member":
                recv_real.del_member(self.keyobj(key))
            else:
                del recv_real[self.keyobj(key)]
            raised = None
        except Exception as exc:  # noqa: BLE001
            raised = exc
        if expect != "ok":
            if isinstance(raised, ContractBroken):
                raise Violation(f"{api}({key!r}): post-condition broken on an operation that should have been refused", str(raised), expect)
            if raised is None:
                self.rec.count("invalid_delete_returned_normally")   # harmless: nothing was there; the walker checks nothing changed
            else:
                self.soft_class(raised, expect)
                self.rec.count("invalid_ops_rejected")
            return
        cont_node, cont_members, crossed, name = loc
        if crossed is not None:
            lost = isinstance(raised, ContractBroken) and raised.receiver_is_alias
            if raised is None:
                try:
                    recv_real.get_member(self.keyobj(key))
                    lost = True
                except KeyError:
                    lost = False
            if lost:
                self.known.append((F_THROUGH, f"{api}({key!r}) through alias {crossed.path()} returned normally but the member is still there",
                                   "member still retrievable under the deleted key", "KeyError"))
                return
            if raised is not None:
                raise Violation(f"{api}({key!r}) through alias {crossed.path()} raised", repr(raised), "deletion from the alias' target")
        elif raised is not None:
            raise Violation(f"{api}({key!r}) is valid but raised", f"{type(raised).__name__}: {raised}", "member deleted")
        del cont_members[name]
        self.tags.add("deleted")

    def op_get(self, op, info) -> None:  # noqa: ANN001, ARG002
        _tag, api, where, key = op
        recv_node, recv_members, recv_real, recv_base, recv_detached = self.receiver(where)
        self.count_key(where, key)
        expect, found = self.predict(lambda: self.tree.lookup(recv_members, parts_of(key)))
        if recv_detached and (isinstance(found, tuple) or expect in ("AliasResolutionError", "CyclicAliasError")):
            raise Inapplicable("key crosses an alias below a receiver that hangs outside the tree")
        try:
            got = recv_real.get_member(self.keyobj(key)) if api == "get_member" else recv_real[self.keyobj(key)]
            raised = None
        except Exception as exc:  # noqa: BLE001
            got, raised = None, exc
        if expect != "ok":
            if raised is None:
                raise Violation(f"{api}({key!r}) should fail ({expect} modelled) but returned", repr(got), expect)
            self.soft_class(raised, expect)
            self.rec.count("invalid_ops_rejected")
            return
        if raised is not None:
            raise Violation(f"{api}({key!r}) is valid but raised", f"{type(raised).__name__}: {raised}", repr(found))
        if isinstance(found, tuple):
            _w, member, _crossed = found
            want_path = ".".join(recv_base + parts_of(key))
            if not got.is_alias or got._target is not self.real[member.uid] or got.path != want_path:
                raise Violation(f"{api}({key!r}) through an alias: wrong result", f"{got!r} path={got.path}", f"alias at {want_path} on {member!r}")
            self.rec.count("lookups_through_alias_checked")
        elif got is not self.real[found.uid]:
            raise Violation(f"{api}({key!r}) returned another object", repr(got), repr(found))

    def op_retarget(self, op, info) -> None:  # noqa: ANN001, ARG002
        _tag, apath, spec = op
        al = self.tree.node_at(apath)
        if al is None or al.kind != "alias":
            raise Inapplicable(f"no alias at {apath}")
        ral = self.real[al.uid]
        before = ral._target
        tnode = None
        if spec == "self":
            value = ral
        elif spec == "samepath":
            value = self.g.Function(al.name, parent=self.real[al.up.uid])
        else:
            tnode = self.tree.node_at(spec)
            if tnode is None:
                raise Inapplicable(f"no object at {spec}")
            value = self.real[tnode.uid]
        refusal = spec in ("self", "samepath") or tnode is al
        try:
            ral.target = value
            raised = None
        except Exception as exc:  # noqa: BLE001
            raised = exc
        if refusal:
            after = ral._target
            if after is ral or (after is not None and after.path == ral.path):
                raise Violation(f"alias {apath} was made to target itself (target = {spec})", repr(after), "refused")
            if after is not before:
                raise Violation(f"refused retargeting of {apath} changed its target", repr(after), repr(before))
            if raised is not None and not isinstance(raised, ContractBroken):
                self.soft_class(raised, "CyclicAliasError")
            if isinstance(raised, ContractBroken):
                raise Violation(f"alias {apath}: target setter post-condition broken", str(raised), "refused")
            self.rec.count("self_target_attempts_refused")
            return
        if tnode.kind == "alias":
            # binding to an alias registers the back-reference on the final target of the chain, which must be reachable
            saved = (al.target, al.stamp)
            al.target = tnode
            chain, _ = self.predict(lambda: self.tree.final(al))
            al.target, al.stamp = saved
            if chain != "ok":
                if raised is not None and not isinstance(raised, ContractBroken):
                    self.soft_class(raised, chain)
                self.rec.count("retargets_onto_unfollowable_chain")
                if ral._target is value:
                    self.bind(al, tnode)     # (the setter assigns before it registers)
                elif ral._target is not before:
                    raise Violation(f"failed retargeting of {apath} left a third target", repr(ral._target), repr(before))
                return
        if raised is not None:
            raise Violation(f"{apath}.target = <object at {spec}> is valid but raised", f"{type(raised).__name__}: {raised}", "target set")
        self.bind(al, tnode)
        self.tags.add("retargeted")

    def op_resolve(self, op, info) -> None:  # noqa: ANN001, ARG002
        _tag, apath = op
        al = self.tree.node_at(apath)
        if al is None or al.kind != "alias":
            raise Inapplicable(f"no alias at {apath}")
        ral = self.real[al.uid]

        def model():  # noqa: ANN202
            if ral._target is None:
                al.target = None     # (the model may have taken a link for made that the real alias dropped: start from the real state)
            if al.target is None:
                self.tree.resolve(al)
            return al.target

        expect, tnode = self.predict(model)
        try:
            got = ral.target
            raised = None
        except Exception as exc:  # noqa: BLE001
            got, raised = None, exc
        if expect != "ok":
            if raised is None:
                raise Violation(f"alias {apath} -> {al.target_path!r} should not resolve ({expect} modelled) but did", repr(got), expect)
            self.soft_class(raised, expect)
            self.rec.count("invalid_ops_rejected")
            return
        if raised is not None:
            raise Violation(f"alias {apath} -> {al.target_path!r} is resolvable but raised", f"{type(raised).__name__}: {raised}", repr(tnode))
        if got is not self.real[tnode.uid]:
            raise Violation(f"alias {apath} resolved to another object", repr(got), repr(tnode))
        self.tags.add("resolved")

    # -- the walker: global invariants after every step ------------------------------------------
    def walk(self, info: StepInfo) -> None:  # noqa: C901, PLR0912
        rec, real, coll = self.rec, self.real, self.coll
        rec.count("steps_walked")
        for anode in self.alias_nodes:
            self.sync_alias(anode, info)
        present: set[str] = set()
        chains: dict[int, list] = {}
        todo = [((name,), node, None, self.tree.root, coll.members) for name, node in self.tree.root.items()]
        if set(coll.members) != set(self.tree.root):
            raise Violation("collection members differ from the model", sorted(coll.members), sorted(self.tree.root))
        while todo:
            parts, node, cont, _mm, rmembers = todo.pop()
            path = ".".join(parts)
            present.add(path)
            obj = rmembers[parts[-1]]
            want = real[node.uid]
            if obj is not want:
                raise Violation(f"member at {path} is not the object that was stored there", repr(obj), repr(want))
            # every member's parent is its container
            if cont is None:
                ok = obj.parent is None and obj.modules_collection is coll
            else:
                ok = obj.parent is real[cont.uid]
            rec.count("parent_links_checked")
            if not ok:
                raise Violation(f"parent of {path} is not its container", repr(obj.parent), repr(real[cont.uid]) if cont else "None (collection member)")
            if obj.path != path:
                raise Violation(f"object stored at {path} reports another path", obj.path, path)
            # retrievable from the collection by its own path; dotted == tuple == chained, from every ancestor
            chain = ([*chains[cont.uid], real[cont.uid]] if cont is not None else [coll])
            chains[node.uid] = chain
            for depth, anc in enumerate(chain):
                rel = parts[depth:]
                dotted = ".".join(rel)
                forms = [("get_member dotted", lambda a=anc, d=dotted: a.get_member(d)),
                         ("get_member tuple", lambda a=anc, r=tuple(rel): a.get_member(r)),
                         ("[] dotted", lambda a=anc, d=dotted: a[d]),
                         ("[] tuple", lambda a=anc, r=tuple(rel): a[r])]
                if len(rel) > 1:
                    def chained_get(a=anc, r=rel):  # noqa: ANN001, ANN202
                        for p in r:
                            a = a.get_member(p)
                        return a

                    def chained_item(a=anc, r=rel):  # noqa: ANN001, ANN202
                        for p in r:
                            a = a[p]
                        return a

                    forms += [("chained get_member", chained_get), ("chained []", chained_item)]
                for label, fn in forms:
                    try:
                        got = fn()
                    except Exception as exc:  # noqa: BLE001
                        raise Violation(f"{label} of {dotted!r} from {'the collection' if depth == 0 else '.'.join(parts[:depth])} raised",
                                        f"{type(exc).__name__}: {exc}", repr(obj)) from exc
                    if got is not obj:
                        raise Violation(f"{label} of {dotted!r} from {'the collection' if depth == 0 else '.'.join(parts[:depth])} gives another object",
                                        repr(got), repr(obj))
                    rec.count("lookup_forms_compared")
                if depth == 0:
                    rec.count("own_path_retrievals")
            if node.kind == "alias":
                if not obj.is_alias:
                    raise Violation(f"{path} should be an alias", repr(obj), "alias")
                self.check_alias(path, node, obj, info)
            else:
                if obj.is_alias:
                    raise Violation(f"{path} should not be an alias", repr(obj), node.kind)
                if set(obj.members) != set(node.members):
                    raise Violation(f"members of {path} differ from the model", sorted(obj.members), sorted(node.members))
                todo.extend(((*parts, mname), m, node, node.members, obj.members) for mname, m in node.members.items())
        # deleted members are gone
        for path in sorted(self.ever - present):
            prefix_alias = any((n := self.tree.node_at(".".join(path.split(".")[:i]))) is not None and n.kind == "alias"
                               for i in range(1, path.count(".") + 1))
            if prefix_alias:
                continue   # the path now walks through an alias: what it designates is the alias' business
            for label, fn in (("get_member", lambda p=path: coll.get_member(p)), ("[]", lambda p=path: coll[p]),
                              ("get_member tuple", lambda p=tuple(path.split(".")): coll.get_member(p))):
                try:
                    got = fn()
                except KeyError:
                    rec.count("deleted_paths_checked_gone")
                    continue
                except Exception as exc:  # noqa: BLE001
                    self.soft_class(exc, "KeyError")
                    rec.count("deleted_paths_checked_gone")
                    continue
                raise Violation(f"{path} was deleted (or its container replaced) but {label} still returns an object", repr(got), "KeyError")

    def sync_alias(self, node: N, info: StepInfo) -> None:
        """Pointer synchronisation model <-> real for one alias (attached or detached), before any invariant is judged."""
        rec, real = self.rec, self.real
        obj = real[node.uid]
        rt = obj._target
        where = node.path() if self.tree.in_tree(node) else f"{node.path()} (detached)"
        if node.target is None:
            if rt is None:
                return
            # resolved as a side effect the model did not mirror: adopt iff it is what the target path designates
            want = self.tree.node_at(node.target_path)
            if want is None or rt is not real[want.uid]:
                before = self.pre_designated.get(node.uid)
                if before is None or rt is not real[before.uid]:
                    if info.new_real is not None and rt is info.new_real and (any(a is obj for a in info.old_backrefs)
                                                                              or self.chain_ends_at(want, info.new_node)):
                        # resolved behind the model's back (by the probing of the previous walk), listed in the aliases of the
                        # final target of its chain, and retargeted with them by this set_member: counted, not judged (see below)
                        rec.count("stale_backref_retargets_observed")
                        self.bind(node, info.new_node)
                        return
                    parts = node.target_path.split(".")
                    if any((n := self.tree.node_at(".".join(parts[:i]))) is not None and n.kind == "alias" for i in range(1, len(parts))):
                        # the real alias resolved itself through an alias on its target path: what such a path designates is
                        # outside the model (as when the model has to resolve it itself)
                        raise MOutOfDomain("string target path crosses an alias")
                    raise Violation(f"alias {where} -> {node.target_path!r} got resolved to something else than the object at that path",
                                    repr(rt), repr(want))
                want = before
            stamp = node.stamp
            self.bind(node, want)
            # when the real alias got resolved is unknown (any earlier lookup can have done it): keep the old logical time, so
            # that a later re-binding further down the chain still counts as "after this alias was bound"
            node.stamp = stamp
            rec.count("implicit_resolutions_adopted")
        elif rt is None:
            # the model took the alias for bound, the real one is (still / again) unresolved: an unresolved alias breaks
            # none of the stated invariants (it resolves lazily through its target path) -> follow the real state
            rec.count("model_bound_but_real_alias_unresolved")
            self.bind(node, None)
            self.soft_bound.add(node.uid)    # (the link is kept for the chain bookkeeping; it is not a claim about the real alias)
        elif rt is real[node.target.uid]:
            self.soft_bound.discard(node.uid)
        elif node.uid in self.soft_bound and self.designated_by_path(node, rt) is not None:
            # the real alias was unresolved and has been resolved lazily since: what counts is what its target path designates
            # now (or designated before this step), not the link the model had kept from an earlier, aborted resolution
            want = self.designated_by_path(node, rt)
            stamp = node.stamp
            self.bind(node, want)
            node.stamp = stamp
            self.soft_bound.discard(node.uid)
            rec.count("implicit_resolutions_adopted")
        elif rt is not real[node.target.uid]:
            if info.new_real is not None and rt is info.new_real and any(a is obj for a in info.old_backrefs):
                # not required by the statement, not forbidden either: an alias that no longer pointed at the replaced
                # object but was still listed in its `aliases` (stale back-reference) got retargeted as well
                rec.count("stale_backref_retargets_observed")
                self.bind(node, info.new_node)
            else:
                raise Violation(f"target of alias {where} changed although no operation retargeted it", repr(rt), repr(node.target))

    def chain_ends_at(self, start: N | None, end: N | None) -> bool:
        """Does the alias chain starting at model node ``start`` end at ``end``?  (An alias is listed in the aliases of the FINAL
        target of its chain; set_member re-targets everything listed there, so a freshly resolved link of such a chain may be
        pointed straight at the value although the step's snapshot of the back-references does not show it yet.)"""
        if start is None or end is None or start.kind != "alias":
            return False
        try:
            return self.tree.final(start) is end
        except (MCyclic, MUnresolvable, MOutOfDomain):
            return False

    def designated_by_path(self, node: N, rt):  # noqa: ANN001, ANN201
        """The model node the alias' target path designates (now, or before this step) if that is the real target ``rt``."""
        for want in (self.tree.node_at(node.target_path), self.pre_designated.get(node.uid)):
            if want is not None and rt is self.real[want.uid]:
                return want
        return None

    def displaced_by_stale(self, listed, live_stamp: int) -> bool:  # noqa: ANN001
        """F_STALE's mechanism: the slot of a live alias is held by a *detached* alias (one the history created, which is no
        longer reachable from the collection) that (re-)registered itself AFTER the live alias last did."""
        if not listed.is_alias or self.is_attached(listed):
            return False
        lnode = self.node_of.get(id(listed))
        if lnode is None:
            # not an object of the history: a transient view built by looking through an alias (Alias.members wraps every member
            # of the target in a fresh alias whose parent is the alias looked through, and each registers under <alias path>.<name>).
            # When that path is also the path of a live alias (twin subtrees: a replaced module, a subtree reachable both directly
            # and through an alias) the view takes the slot whenever somebody looks; no registration time can be given for it
            wrapper = listed.parent is not None and listed.parent.is_alias
            if wrapper:
                self.rec.count("slots_held_by_transient_alias_views")
            return wrapper
        # (an alias the model still takes for unresolved got resolved - and registered - by the probing of this very walk)
        return lnode.reg_stamp > live_stamp or (lnode.target is None and listed._target is not None)

    def is_attached(self, obj) -> bool:  # noqa: ANN001
        """Is the real object reachable from the collection through the members dicts (i.e. does it live in the tree)?"""
        while True:
            parent = obj.parent
            if parent is None:
                return self.coll.members.get(obj.name) is obj
            if parent.is_alias or parent.members.get(obj.name) is not obj:
                return False
            obj = parent

    def check_alias(self, path: str, node: N, obj, info: StepInfo) -> None:  # noqa: ANN001
        rec = self.rec
        rt = obj._target
        if rt is None:
            return
        if rt is obj or rt.path == obj.path:
            raise Violation(f"alias {path} targets itself", f"target {rt!r} at {rt.path}", "never")
        try:
            listed = rt.aliases.get(obj.path)
        except (self.g.AliasResolutionError, self.g.CyclicAliasError):
            rec.count("backref_checks_skipped_unfollowable_chain")
            return
        if listed is not obj:
            if rt.is_alias and node.unreg:
                rec.count("backref_checks_skipped_unfollowable_chain")   # bound while the chain could not be followed
                return
            if node.reg_path != path:
                # the alias was last registered when it had another path: an ancestor was attached / moved afterwards (bottom-up
                # construction, a subtree put back elsewhere) and nothing re-registers the aliases below it
                if not any(k[0] == F_MOVED for k in self.known):
                    self.known.append((F_MOVED, f"alias {path} is registered in its target's aliases under the path it had when it was attached "
                                                f"({node.reg_path!r}), not under its current path", sorted(rt.aliases), path))
                rec.count("outdated_registration_keys_observed")
                return
            if (listed is not None and listed.path == obj.path and self.displaced_by_stale(listed, node.reg_stamp)) or node.displaced == node.reg_stamp:
                # (or: it was displaced that way earlier, has not registered since, and the displacing alias was moved on meanwhile)
                node.displaced = node.reg_stamp
                # the slot is held by a *detached* alias of the same path (one that used to live at this path): it was retargeted
                # through a stale back-reference and overwrote the entry of the live alias
                if not any(k[0] == F_STALE for k in self.known):
                    self.known.append((F_STALE, f"target.aliases[{path!r}] holds a detached alias that used to live at {path}, not the alias that lives there now",
                                       repr(listed), repr(obj)))
                return
            if rt.is_alias and self.tree.chain_changed_since_bound(node):
                # the alias targets another alias; back-references are kept on the *final* target of the chain and are not
                # migrated when an alias further down the chain is given another target
                if not any(k[0] == F_CHAIN for k in self.known):
                    self.known.append((F_CHAIN, f"alias {path} targets alias {rt.path}, which was retargeted afterwards: {path} is no longer "
                                                "listed in its target's aliases", sorted(rt.aliases), path))
                return
            raise Violation(f"resolved alias {path} is not listed in its target's aliases under its current path",
                            sorted(rt.aliases), path)
        rec.count("alias_backrefs_checked")
        if info.reattached is node:
            rec.count("reattached_alias_backrefs_checked")   # an alias that had been around was stored (again): listed under its path now


# ==================================================================================================
_BASELINE_WALKED = False


def _tb(exc: BaseException) -> str:
    import traceback

    return "".join(traceback.format_exception(type(exc), exc, exc.__traceback__))[-1500:]


def run_history(rec, ops: list, walk_universe: bool = False) -> dict:
    """Execute one history.  Returns a verdict dict; never raises for property-related outcomes."""
    global _BASELINE_WALKED
    w = World(rec)
    out = {"verdict": "ok", "step": None, "what": None, "observed": None, "expected": None, "finding": None,
           "nontrivial": False, "tags": [], "applied": 0, "inapplicable": 0}
    try:
        for k, op in enumerate(UNIVERSE):
            w.step(op, f"u{k}")
        if walk_universe or not _BASELINE_WALKED:
            w.walk(StepInfo())
            _BASELINE_WALKED = True
        w.nontrivial = False
        w.tags.clear()
        for i, op in enumerate(ops):
            out["step"] = i
            try:
                info = w.step(op, f"h{i}")
                out["applied"] += 1
            except Inapplicable:
                out["inapplicable"] += 1
                rec.count("inapplicable_steps")
                info = StepInfo()
            except MOutOfDomain:
                out["verdict"] = "out-of-domain"
                return out
            w.walk(info)
    except Violation as v:
        if v.finding is None:
            out.update(verdict="violation", what=v.what, observed=v.observed, expected=v.expected)
            out["nontrivial"], out["tags"] = w.nontrivial, sorted(w.tags)
            return out
        # a known mechanism that poisons the rest of the history: stop judging here
    except MOutOfDomain:
        out["verdict"] = "out-of-domain"
        return out
    except Exception as exc:  # noqa: BLE001
        out.update(verdict="violation", what=f"unexpected {type(exc).__name__} while applying the operation / walking the tree",
                   observed=_tb(exc), expected="no exception")
        out["nontrivial"], out["tags"] = w.nontrivial, sorted(w.tags)
        return out
    out["nontrivial"], out["tags"] = w.nontrivial, sorted(w.tags)
    if w.known:
        fid, what, obs, exp = w.known[0]
        out.update(verdict="known", finding=fid, what=what, observed=obs, expected=exp)
        for k in {k[0] for k in w.known}:
            rec.count("histories_meeting_" + k)
    return out


def report(rec, ops: list, out: dict) -> None:  # noqa: ANN001
    case = {"ops": ops}
    for k, n in _COUNTS.items():
        if n:
            rec.count(f"contract_{k}_evals", n)
            _COUNTS[k] = 0
    if out["verdict"] == "ok":
        rec.ok(case, nontrivial=out["nontrivial"], tags=out["tags"])
    elif out["verdict"] == "out-of-domain":
        rec.skip("history leaves the modelled domain (string target path crossing an alias)")
    else:
        rec.fail(case, f"step {out['step']} {ops[out['step']] if out['step'] is not None and out['step'] < len(ops) else ''}: {out['what']}",
                 observed=out["observed"], expected=out["expected"], finding=out["finding"], nontrivial=out["nontrivial"],
                 tags=out["tags"], tried=ALL_FINDINGS)


# -- module pairs: the implicit stubs merge, enumerated ---------------------------------------------
CONCRETE_PROBES = ["absent", "function", "attribute", "class", "alias->function", "alias->class", "alias_obj->attribute",
                   "alias unresolvable", "alias cyclic"]
STUB_PROBES = ["absent", "function", "attribute", "class", "alias->attribute", "alias unresolvable", "alias cyclic"]


def _probe_members(what: str, at: str, mod_path: str, side: str) -> list:
    """The member(s) that put one probe name of the given flavour into a module ('at': "p" or "C.p")."""
    pre = at.rsplit(".", 1)[0] + "." if "." in at else ""
    partner = pre + "q" + side      # the second link of a cyclic pair lives next to the probe
    table = {
        "absent": [],
        "function": [["function", at, {}]],
        "attribute": [["attribute", at, {}]],
        "class": [["class", at, {}], ["function", f"{at}.m{side}", {}]],
        "alias->function": [["alias_str", at, {"target": "a.g"}]],
        "alias->class": [["alias_str", at, {"target": "b.L"}]],
        "alias->attribute": [["alias_str", at, {"target": "b.z"}]],
        "alias_obj->attribute": [["alias_obj", at, {"target": "a.y"}]],
        "alias unresolvable": [["alias_str", at, {"target": "ext.impl.p"}]],
        "alias cyclic": [["alias_str", at, {"target": f"{mod_path}.{partner}"}], ["alias_str", partner, {"target": f"{mod_path}.{at}"}]],
    }
    return table[what]


def merge_histories():  # noqa: ANN201
    """Every pair (regular module, stubs module) of a small grid - one probe name whose flavour varies independently on both
    sides (every kind; resolvable, unresolvable and cyclic aliases), at the top of the module or below a class both sides have,
    at every position among stub-only / runtime-only / shared members - stored one over the other in both orders, at the
    collection level and as a submodule, through set_member (merge) and __setitem__ (plain replacement), with an alias
    pointing at the module in between and a mutation below an adopted stub-only class afterwards."""
    for where, key, mp in (("coll", "c", "c"), ("a", "s", "a.s")):
        for at in ("p", "C.p"):
            for cp in CONCRETE_PROBES:
                for sp in STUB_PROBES:
                    for pos in (0, 1, 2):
                        reg = [["class", "C", {}], *_probe_members(cp, at, mp, "r"), ["function", "r", {}], ["function", "C.m", {}],
                               ["function", "both", {}]]
                        sprobe = _probe_members(sp, at, mp, "s")
                        head = [["class", "C", {}]]
                        fill = [["class", "E", {}], ["function", "E.z", {}], ["alias_str", "E.ea", {"target": "a.g"}],
                                ["function", "C.only", {}], ["attribute", "both", {}], ["function", "t", {}]]
                        stb = head + (sprobe + fill if pos == 0 else fill[:3] + sprobe + fill[3:] if pos == 1 else fill + sprobe)
                        for first in ("regular", "stubs"):
                            for api in ("set_member", "setitem"):
                                one = ["set", "set_member", where, key, "module", {"members": reg}]
                                two = ["set", api, where, key, "stub", {"members": stb}]
                                if first == "stubs":
                                    one, two = ["set", "set_member", where, key, "stub", {"members": stb}], ["set", api, where, key, "module", {"members": reg}]
                                yield [one, ["set", "set_member", "b", "am", "alias_obj", {"target": mp}], two, ["resolve", "b.am"],
                                       ["set", "set_member", "coll", f"{mp}.E.z", "function", {}], ["get", "get_member", "coll", f"{mp}.C"]]


# -- random long histories ------------------------------------------------------------------------
def gen_history(rng: random.Random, rec, length: int) -> tuple[list, dict]:  # noqa: ANN001, C901, PLR0912, PLR0915
    """Generate a history op by op against the evolving state (so that most operations are applicable) and judge it."""
    w = World(rec)
    for k, op in enumerate(UNIVERSE):
        w.step(op, f"u{k}")
    ops: list = []
    out = {"verdict": "ok", "step": None, "what": None, "observed": None, "expected": None, "finding": None,
           "nontrivial": False, "tags": [], "applied": 0, "inapplicable": 0}

    def containers():  # noqa: ANN202
        return [(parts, n) for parts, n, _c in w.tree.walk() if n.kind in ("module", "class")]

    def address(parts: tuple, through: list | None = None):  # noqa: ANN202
        """Pick a receiver among the ancestors of ``parts`` and the key form."""
        cut = rng.randint(0, len(parts) - 1)
        where = ".".join(parts[:cut]) if cut else "coll"
        rel = list(parts[cut:])
        if through:
            where, rel = through[0], through[1]
        r = rng.random()
        key = rel if r < 0.35 else ".".join(rel)
        return where, key

    def member_specs(nodes):  # noqa: ANN001, ANN202
        """Literal member list of a value that is built bottom-up (before it is stored anywhere).  One level only: the
        recorder keeps literals up to a fixed nesting depth (deeper bottom-up trees come from storing into detached containers)."""
        specs, used = [], set()
        for _ in range(rng.randint(1, 3)):
            kind = rng.choice(["function", "attribute", "alias_str", "alias_obj", "alias_obj", "class"])
            name = rng.choice(CLASS_NAMES if kind == "class" else LEAF_NAMES)
            if name in used:
                continue
            used.add(name)
            opt: dict = {}
            if kind == "alias_str":
                opt = {"target": rng.choice([t for t in STRING_TARGETS if not t.endswith("." + name)])}
            elif kind == "alias_obj":
                if not nodes:
                    continue
                opt = {"target": ".".join(rng.choice(nodes)[0]), "ctor_parent": rng.random() < 0.5}
            specs.append([kind, name, opt])
        return specs

    def module_specs(dest: tuple, there, nodes):  # noqa: ANN001, ANN202
        """Members of a fresh module / stubs module stored at ``dest``: any kind, nested below classes listed earlier, names shared
        with the module that is there now (if any) or not; aliases that resolve, do not resolve, or form a cycle inside the module."""
        specs: list = []
        classes: list[str] = []
        used: set[str] = set()
        pool = list(there.members) if there is not None else []
        below = {c: list(m.members) for c, m in there.members.items() if m.kind == "class"} if there is not None else {}
        mp = ".".join(dest)
        for _ in range(rng.randint(0, 6)):
            kind = rng.choice(["function", "attribute", "class", "class", "alias_str", "alias_str", "alias_obj"])
            pre = rng.choice(classes) if classes and rng.random() < 0.35 else None
            names = (below.get(pre, []) if pre else pool)
            leaf = rng.choice(names) if names and rng.random() < 0.6 else rng.choice(CLASS_NAMES if kind == "class" else LEAF_NAMES)
            dotted = f"{pre}.{leaf}" if pre else leaf
            if dotted in used or dotted.count(".") > 1:
                continue
            opt: dict = {}
            if kind == "alias_str":
                r0 = rng.random()
                siblings = [u.rsplit(".", 1)[-1] for u in used if (u.rsplit(".", 1)[0] if "." in u else None) == pre]
                if r0 < 0.25:
                    opt = {"target": "ext.impl." + leaf}                                  # nothing there: unresolvable
                elif r0 < 0.45 and siblings:
                    opt = {"target": f"{mp}.{(pre + '.') if pre else ''}{rng.choice(sorted(siblings))}"}   # a member next to it (cycles possible)
                elif r0 < 0.55:
                    opt = {"target": f"{mp}.{(pre + '.') if pre else ''}{rng.choice(LEAF_NAMES)}"}   # a later member, or nothing
                else:
                    opt = {"target": rng.choice(STRING_TARGETS)}
                if opt["target"] == f"{mp}.{dotted}":
                    continue
            elif kind == "alias_obj":
                if not nodes:
                    continue
                opt = {"target": ".".join(rng.choice(nodes)[0]), "ctor_parent": rng.random() < 0.5}
            used.add(dotted)
            if kind == "class":
                classes.append(dotted)
            specs.append([kind, dotted, opt])
        return specs

    def pick_op():  # noqa: ANN202, C901, PLR0911, PLR0912, PLR0915
        conts = containers()
        aliases = [(parts, n) for parts, n, _c in w.tree.walk() if n.kind == "alias"]
        nodes = [(parts, n) for parts, n, _c in w.tree.walk()]
        labelled = list(w.labels.values())
        loose_conts = [n for n in labelled if n.kind in ("module", "class") and n.suffix == ".py" and not w.tree.in_tree(n)]
        if loose_conts and rng.random() < 0.07:    # work on a container that hangs outside the tree (deleted, replaced, not yet attached)
            c = rng.choice(loose_conts)
            where, r0 = "@" + c.label, rng.random()
            inner = [n for n in c.members.values() if n.kind == "class"]
            pre = [rng.choice(inner).name] if inner and rng.random() < 0.3 else []
            if r0 < 0.55:
                kind = rng.choice(["function", "attribute", "class", "alias_str", "alias_obj", "alias_obj"])
                name = rng.choice(CLASS_NAMES if kind == "class" else LEAF_NAMES)
                opt: dict = {}
                if kind == "alias_str":
                    opt = {"target": rng.choice(STRING_TARGETS)}
                elif kind == "alias_obj":
                    if not nodes:
                        return ["get", "get_member", where, name]
                    opt = {"target": ".".join(rng.choice(nodes)[0]), "ctor_parent": rng.random() < 0.5}
                parts = [*pre, name]
                return ["set", "set_member" if rng.random() < 0.65 else "setitem", where, parts if rng.random() < 0.35 else ".".join(parts), kind, opt]
            names = list(c.members) or ["nope"]
            if r0 < 0.8:
                return ["del", "del_member" if rng.random() < 0.5 else "delitem", where, rng.choice(names)]
            return ["get", "get_member" if rng.random() < 0.5 else "getitem", where, rng.choice(names)]
        if rng.random() < 0.04:                    # a value created without being stored (aliases: with any container as constructor parent)
            kind = rng.choice(["function", "class", "class", "module", "alias_str", "alias_obj", "alias_obj"])
            name = rng.choice(CLASS_NAMES if kind == "class" else MODULE_NAMES if kind == "module" else LEAF_NAMES)
            opt = {}
            if kind in ("class", "module") and rng.random() < 0.6:
                opt = {"members": member_specs(nodes)}
            if kind.startswith("alias"):
                if kind == "alias_obj" and not nodes:
                    return ["new", "function", name, {}]
                opt = {"target": rng.choice(STRING_TARGETS) if kind == "alias_str" else ".".join(rng.choice(nodes)[0])}
                r0 = rng.random()
                if r0 < 0.4 and conts:
                    opt["parent"] = ".".join(rng.choice(conts)[0])
                elif r0 < 0.7 and loose_conts:
                    opt["parent"] = "@" + rng.choice(loose_conts).label
            return ["new", kind, name, opt]
        r = rng.random()
        if r < 0.40 or not nodes:     # insertion / replacement
            api = "set_member" if rng.random() < 0.65 else "setitem"
            r2 = rng.random()
            if r2 < 0.14 or not conts:
                mods = [(parts, n) for parts, n in conts if n.kind == "module"]
                if mods and rng.random() < 0.3:          # as a submodule
                    hparts, host = rng.choice(mods)
                    name = rng.choice(SUBMODULE_NAMES)
                    dest, there = (*hparts, name), host.members.get(name)
                    where, key = address(dest)
                else:
                    name = rng.choice(MODULE_NAMES)
                    dest, there = (name,), w.tree.root.get(name)
                    where, key = "coll", (name if rng.random() < 0.8 else [name])
                if there is not None and there.kind != "module":
                    there = None
                kind = "stub" if rng.random() < 0.25 else "module"
                if there is not None and rng.random() < 0.6:
                    kind = "module" if there.suffix == ".pyi" else "stub"       # the other half of a (regular, stubs) pair
                    api = "set_member" if rng.random() < 0.85 else api
                r3 = rng.random()
                opt = {} if r3 < (0.25 if there is not None else 0.6) else {"members": module_specs(dest, there, nodes)}
                return ["set", api, where, key, kind, opt]
            if r2 < 0.20 and aliases:   # through an alias
                aparts, _a = rng.choice(aliases)
                where, key = address((*aparts, rng.choice(LEAF_NAMES)))
                return ["set", api, where, key, "function", {}]
            if r2 < 0.38:               # a value that is not fresh: put back / moved / attached at last, or stored again where it is
                loose = [n for n in labelled if n.suffix == ".py" and w.tree.is_detached_root(n)]
                if loose and rng.random() < 0.65:
                    n = rng.choice(loose)
                    if n.kind == "module":
                        return ["set", api, "coll", n.name if rng.random() < 0.8 else [n.name], "existing", {"ref": n.label}]
                    if n.up is not None and w.tree.in_tree(n.up) and rng.random() < 0.55:
                        cparts = tuple(n.up.path().split("."))      # back to where it was (or where its constructor parent is)
                    else:
                        cparts = rng.choice(conts)[0]
                    where, key = address((*cparts, n.name))
                    return ["set", api, where, key, "existing", {"ref": n.label}]
                placed = [n for n in labelled if n.suffix == ".py" and w.tree.in_tree(n)]
                if placed:
                    n = rng.choice(placed)
                    where, key = address(tuple(n.path().split(".")))
                    return ["set", api, where, key, "existing", {"ref": n.label if rng.random() < 0.5 else "=" + n.path()}]
            cparts, _c = rng.choice(conts)
            # bias towards replacing what exists (and what aliases point at)
            existing = [n for n in _c.members]
            kind = rng.choice(["function", "attribute", "class", "alias_str", "alias_obj", "alias_obj"])
            if kind == "class":
                name = rng.choice(CLASS_NAMES)
            else:
                leafs = [n for n in existing if n in LEAF_NAMES]
                name = rng.choice(leafs) if leafs and rng.random() < 0.6 else rng.choice(LEAF_NAMES)
            where, key = address((*cparts, name))
            opt: dict = {}
            if kind == "alias_str":
                # (a string alias naming its own path is never generated: the constructor accepts it, nothing can ever be
                # said about what it points at, and what "pointed at the replaced object" means for it is undefined)
                own = ".".join((*cparts, name))
                opt = {"target": rng.choice([t for t in STRING_TARGETS if t != own])}
            elif kind == "alias_obj":
                tparts, _t = rng.choice(nodes)
                there = _c.members.get(name)
                if (there is not None and there.kind == "alias" and there.target is not None and w.tree.in_tree(there.target)
                        and rng.random() < 0.35):
                    tparts = tuple(there.target.path().split("."))   # a twin of the alias in place: same path, same target
                opt = {"target": ".".join(tparts), "ctor_parent": rng.random() < 0.4}
            elif kind == "class" and rng.random() < 0.3:
                opt = {"members": member_specs(nodes)}
            return ["set", api, where, key, kind, opt]
        if r < 0.58:                  # deletion
            api = "del_member" if rng.random() < 0.5 else "delitem"
            if rng.random() < 0.1 and aliases:
                aparts, _a = rng.choice(aliases)
                where, key = address((*aparts, rng.choice(LEAF_NAMES)))
                return ["del", api, where, key]
            if rng.random() < 0.1:
                cparts, _c = rng.choice(conts) if conts else (("a",), None)
                where, key = address((*cparts, "nope"))
                return ["del", api, where, key]
            deep = [p for p, _n in nodes if len(p) > 1] or [p for p, _n in nodes]
            parts = rng.choice(deep if rng.random() < 0.93 else [p for p, _n in nodes])
            where, key = address(parts)
            return ["del", api, where, key]
        if r < 0.72 and aliases:      # retarget
            aparts, _a = rng.choice(aliases)
            r3 = rng.random()
            spec = "self" if r3 < 0.15 else "samepath" if r3 < 0.3 else ".".join(rng.choice(nodes)[0])
            return ["retarget", ".".join(aparts), spec]
        if r < 0.82 and aliases:
            return ["resolve", ".".join(rng.choice(aliases)[0])]
        if r < 0.97:                  # lookups (through aliases too)
            api = "get_member" if rng.random() < 0.5 else "getitem"
            if aliases and rng.random() < 0.5:
                aparts, _a = rng.choice(aliases)
                where, key = address((*aparts, rng.choice(LEAF_NAMES)))
            else:
                where, key = address(rng.choice(nodes)[0])
            return ["get", api, where, key]
        bad = rng.choice([["set", "set_member", "a", "", "function", {}], ["del", "delitem", "coll", []],
                          ["get", "getitem", "b", ""], ["set", "setitem", "coll", "zz.q.r", "function", {}],
                          ["get", "get_member", "coll", ["a", "nope", "x"]]])
        return bad

    try:
        for i in range(length):
            op = pick_op()
            ops.append(op)
            out["step"] = i
            try:
                info = w.step(op, f"h{i}")
                out["applied"] += 1
            except Inapplicable:
                out["inapplicable"] += 1
                rec.count("inapplicable_steps")
                info = StepInfo()
            w.walk(info)
    except Violation as v:
        if v.finding is None:
            out.update(verdict="violation", what=v.what, observed=v.observed, expected=v.expected)
            out["nontrivial"], out["tags"] = w.nontrivial, sorted(w.tags)
            return ops, out
    except MOutOfDomain:
        out["verdict"] = "out-of-domain"
        return ops, out
    except Exception as exc:  # noqa: BLE001
        out.update(verdict="violation", what=f"unexpected {type(exc).__name__} while applying the operation / walking the tree",
                   observed=_tb(exc), expected="no exception")
        out["nontrivial"], out["tags"] = w.nontrivial, sorted(w.tags)
        return ops, out
    out["nontrivial"], out["tags"] = w.nontrivial, sorted(w.tags)
    if w.known:
        fid, what, obs, exp = w.known[0]
        out.update(verdict="known", finding=fid, what=what, observed=obs, expected=exp)
        for k in {k[0] for k in w.known}:
            rec.count("histories_meeting_" + k)
    rec.maximum("longest_history_applied_steps", out["applied"])
    return ops, out


def outside_any_collection(obj) -> bool:  # noqa: ANN001
    """The object's tree has no modules collection at its root (read from the real objects, not from the model)."""
    cur = obj
    for _ in range(100):
        if getattr(cur, "is_collection", False):
            return False
        parent = getattr(cur, "parent", None)
        if parent is None:
            return getattr(cur, "_modules_collection", None) is None
        cur = parent
    return False


# ==================================================================================================
def shards(tier: str, seed: int) -> list[dict]:
    nsh = 12
    out = [{"kind": "exhaustive", "maxlen": 3, "alphabet": "full", "part": p, "parts": nsh} for p in range(nsh)]
    if tier == "thorough":
        out += [{"kind": "exhaustive", "maxlen": 4, "minlen": 4, "alphabet": "sub", "part": p, "parts": 8} for p in range(8)]
        out += [{"kind": "random", "count": 1250} for _ in range(40)]
    else:
        out += [{"kind": "random", "count": 200} for _ in range(10)]
    out.append({"kind": "inherit", "count": 400 if tier == "quick" else 6000})
    out += [{"kind": "merge", "part": p, "parts": 2} for p in range(2)]
    return out


def run_shard(spec: dict, rec) -> None:  # noqa: ANN001
    install_contracts(rec)
    rng = random.Random(spec["seed"])
    if spec["kind"] == "inherit":
        from vf.checks import c16_inherit

        c16_inherit.run(rec, spec["seed"], spec["count"])
        return
    if spec["kind"] == "merge":
        idx = 0
        for ops in merge_histories():
            idx += 1
            if idx % spec["parts"] == spec["part"]:
                report(rec, ops, run_history(rec, ops))
        rec.maximum("module_pairs_enumerated", idx)
        return
    if spec["kind"] == "exhaustive":
        alphabet = ALPHABET if spec["alphabet"] == "full" else [ALPHABET[i] for i in SUB_ALPHABET]
        rec.maximum(f"alphabet_size_{spec['alphabet']}", len(alphabet))
        idx = 0
        for n in range(spec.get("minlen", 1), spec["maxlen"] + 1):
            for seq in itertools.product(alphabet, repeat=n):
                idx += 1
                if idx % spec["parts"] != spec["part"]:
                    continue
                ops = [list(o) for o in seq]
                report(rec, ops, run_history(rec, ops))
        rec.maximum("exhaustive_histories_enumerated", idx)
    else:
        for _ in range(spec["count"]):
            ops, out = gen_history(rng, rec, rng.randint(5, 40))
            report(rec, ops, out)


def run_replay(inp: dict, rec) -> None:  # noqa: ANN001
    if inp.get("kind") == "inheritance-lookups":
        from vf.checks import c16_inherit

        c16_inherit.replay(rec, inp)
        return
    install_contracts(rec)
    ops = inp["ops"]
    report(rec, ops, run_history(rec, ops, walk_universe=True))


def run_pinned(findings: list[dict], rec) -> dict:  # noqa: ANN001
    from vf.core.rec import Recorder

    install_contracts(rec)
    res = {}
    for f in findings:
        sub = Recorder(PROP, {})
        ops = f["witness"]["ops"]
        out = run_history(sub, ops, walk_universe=True)
        met = {k[len("histories_meeting_"):] for k in sub.counters if k.startswith("histories_meeting_")}
        if out["verdict"] == "violation":
            res[f["id"]] = {"reproduced": True, "detail": f"fails, but as an unclassified violation: {out['what']}"}
        else:
            res[f["id"]] = {"reproduced": f["id"] in met, "detail": out["what"] if f["id"] in met else f"passes ({out['verdict']})"}
    return res
