"""C19 — Merging stubs loses nothing and prefers stub types.

Workload: generated (module, stubs) source pairs with random overlap of member names, kind mismatches
(attribute / function / class / import), nested classes, imports (aliases) on either side, overload
groups in the stubs (with and without implementation, with and without a runtime member of that name), classes
deriving from other classes (earlier classes of the module and their nested classes, earlier classes of the same class
body, classes imported from the un-stubbed ``pkg._impl``, names nobody defines) so that the stubs of a class name members
its runtime counterpart only *inherits*; four placements of the same pair:

Every signature draws its own parameter kinds (``/``, ``*``, ``*args``, ``**kw``), defaults, method flavour (instance /
classmethod / staticmethod / property) and async-ness; the stub signature of a runtime function shares its parameter *names*
only.

* ``inpkg``    : ``pkg/__init__.py`` + ``pkg/__init__.pyi`` and ``pkg/mod.py`` + ``pkg/mod.pyi``,
                 the ``.py`` / ``.pyi`` file met first or second (M-INJ-LS custom order);
* ``stubspkg`` : ``pkg`` and a separate ``pkg-stubs`` package in two search paths (both path orders),
                 ``find_stubs_package=True``;
* ``sibling``  : top-level ``m0.py`` + ``m0.pyi`` (and ``m1``) in one search path;
* ``api``      : ``merge_stubs(a, b)`` called directly with both argument orders.

Oracle: the expected merged tree is computed from the two *sources* (parsed with ``ast``, independently
of Griffe) by the rules of the statement; the module nobody writes stubs for (``pkg._impl``, generated per case, holds the
imported base classes) must come out exactly as its source says; canonical JSON must be equal for both discovery orders;
window monitor on ``Alias.resolve_target`` while ``merge_stubs`` is on the stack (alias resolution is off).
"""
from __future__ import annotations

import ast
import json
import os
import random
import shutil
import tempfile
import traceback
from pathlib import Path

from vf.core.util import case_watchdog
from vf.mon import listing

PROP = "C19"
LEVEL = "exploration"
ANCHORS = ["merger.py"]
RULE = ("seeded random pairs of (runtime module, stubs) sources built jointly per scope: every name of a small pool is absent / "
        "attribute / function / class / import on each side (55% same kind, 25% mismatched kind, stub-only and runtime-only "
        "names), classes nest to depth 3, functions get 0-4 parameters with annotations from disjoint vocabularies (R*, S*); "
        "every signature (runtime, stub, each @overload) draws its own valid sequence of parameter kinds (positional-only `/`, "
        "positional-or-keyword, `*name`, keyword-only after `*` / `*name`, `**name`) and its own defaults (stubs mostly `...`), "
        "and the stub signature of a runtime function is drawn INDEPENDENTLY over the same parameter names: kinds re-assigned, "
        "names dropped / added / rarely reordered, method flavour (instance / @classmethod+cls / @staticmethod without self / "
        "@property) and async-ness re-drawn, so a shared parameter is routinely spelled with another kind, default or position "
        "on the two sides and a method may be a property (= attribute) on one side only, "
        "docstrings present or missing on either side, stubs carry @overload groups with or without implementation and with or "
        "without a runtime member of that name, runtime functions too may exist as @overload signatures only; classes derive (1-2 bases) from class expressions visible per Python scoping "
        "- earlier module classes and their nested classes (dotted), earlier classes of the same class body, classes imported "
        "from a generated un-stubbed module pkg._impl (B1, B2(B1) with members named from every nested pool) - or from an "
        "undefined name; a runtime class that derives declares fewer names itself, so its stubs name inherited members; per "
        "loader placement two further request spellings drawn from {dotted sub-module, dotted object path, Path of directory, "
        "Path of file, relative path} with a random discovery order; two "
        "pairs (package __init__ and a sub-module) per case, placed as .pyi inside the package, as a -stubs package, as "
        "top-level sibling .pyi, and merged through the API; both discovery orders each. distinct = digest of placement + "
        "sources; non-trivial = >=1 same-named pair of mismatched kinds and >=1 class nested in a class")
LEVEL_TEXT = ("Each generated pair is written to disk in every placement and loaded by the real GriffeLoader with the .py/.pyi "
              "(or the two search paths / the two merge_stubs arguments) met in both orders; the merged tree is compared "
              "member by member with the expectation derived from the two sources (runtime members kept with their kind, "
              "stub annotations / returns / overload lists on same-kind members - a parameter is shared when both signatures "
              "have that NAME, whatever kind, default or position each side gives it; the merged function keeps the runtime's "
              "parameter names, order, kinds and defaults, read from CPython's ast of the source; a @property is an attribute -, "
              "runtime docstring unless missing, stub-only "
              "members added with runtime=False - also when the runtime class inherits that name -, mismatched kinds untouched, "
              "no exception; the `overloads` dict of every stub-only class - at any depth, in top-level modules, which the loader "
              "merges twice, and in sub-modules - must hold exactly the @overload-only functions of the stub source, and a runtime "
              "scope keeps its own), through the API the same pair is merged a second time and judged again (idempotence: same "
              "expectation, same canonical JSON), every loader placement is additionally loaded through other spellings of the "
              "request (dotted sub-module, dotted path of an object of the merged tree incl. stub-only and nested ones, absolute "
              "Path of the package directory / of a .py or .pyi file, the same paths relative to the working directory as str or "
              "Path, with and without find_stubs_package) and the WHOLE package in the collection is judged by the same oracle "
              "and must have the canonical JSON of the by-name load, the un-stubbed module pkg._impl that holds imported base classes is compared the same way with "
              "an empty stub side (a member the stubs say nothing about must not change), canonical JSON must be equal "
              "across orders, and every Alias.resolve_target call made while merge_stubs is on the stack (explicit merge in "
              "_load_package, implicit merge in set_member, direct API call) must be on a runtime-side import that has a "
              "same-named non-import stub member or stub @overload group - the only object merger.py dereferences "
              "(obj.get_member(name).kind / per-kind merge / .overloads=); a stub-side import must never be dereferenced.")
LEVEL_NOTE = ("trusted: the ast-based reading of the generated sources (restricted forms: simple annotations, one-line "
              "docstrings, absolute imports, the decorators overload / staticmethod / classmethod / property); the `()` / `{}` "
              "Griffe shows as default of a variadic parameter is a placeholder, not a default; labels are not judged; "
              "where the stub gives no annotation but the runtime does, and for the content of "
              "the *target* of a runtime alias that has same-named stubs, either outcome is accepted (statement silent)")
TECHNIQUE = ("runtime monitoring: model-based oracle (expected merged tree from the two sources) + injected discovery orders + "
             "window monitor on Alias.resolve_target")
REQUIRED_COUNTERS = ["placements_judged", "runtime_members_checked", "same_kind_pairs_checked", "kind_mismatches_checked",
                     "stub_only_members_checked", "stub_annotations_checked", "docstring_rule_checked", "overload_lists_checked",
                     "orders_compared", "alias_resolution_windows", "merge_stubs_calls_in_window", "aliases_state_checked", "nested_class_pairs_checked",
                     "merge_into_alias_target_seen", "listings_with_py_pyi_pair_stub_first",
                     "listings_with_py_pyi_pair_runtime_first", "bystander_modules_judged", "merged_classes_inheriting_names",
                     "inherited_name_stub_overloads_only", "inherited_name_stub_member", "stub_overloads_only_no_runtime_member",
                     "stub_only_scopes_overload_dict_checked", "stub_only_overload_only_functions_checked",
                     "runtime_overload_only_functions_checked", "modules_merged_twice_by_loader", "api_second_merges_judged",
                     "request_dotted_module_judged", "request_dotted_object_judged", "request_path_dir_judged",
                     "request_path_file_judged", "request_relative_path_judged", "request_forms_compared",
                     "param_kinds_checked", "variadic_params_checked", "shared_params_same_kind_checked",
                     "shared_params_other_kind_checked", "stub_annotation_on_param_of_other_kind_checked",
                     "stub_default_on_param_without_runtime_default_checked", "runtime_only_params_checked",
                     "function_pairs_decorators_differ_checked", "function_pairs_async_vs_sync_checked",
                     "function_pairs_shared_params_reordered_checked", "stub_overloads_with_kind_markers_checked",
                     "property_members_checked", "property_vs_plain_attribute_pairs_checked",
                     "property_vs_other_kind_mismatches_checked"]
EXHAUSTIVE = {"quick": False, "thorough": False}
ASSUMPTIONS = ["the alias monitor's window is the dynamic extent of merge_stubs (every reference to it in merger, loader and mixins "
               "is wrapped); what the loader resolves outside of merging (expand_exports / expand_wildcards) is not this property",
               "stub has no annotation where the runtime has one: keeping or dropping the runtime annotation both accepted",
               "a runtime import with same-named non-import stubs: the documented 'merge into the alias target' is allowed "
               "to resolve that alias; what the target then looks like is not judged",
               "a function present in the stubs only as @overload signatures and not declared by the runtime scope is not a "
               "member of Griffe's stub tree (visitor design): whether the merged scope gets such a member is not judged; "
               "everything else (declared members of the scope, of its base classes, of other modules) is",
               "objects of pkg._impl that a runtime import with same-named non-import stubs points at are not judged (merge "
               "into the alias target); every other member of pkg._impl is",
               "the `overloads` dict of a runtime scope is compared without the names the stubs declare by overloads only "
               "(whether those land there is not decided); empty lists the visitor leaves behind are ignored",
               "the merge monitor counts merge_stubs calls per module path during a load; 'merged twice' in the classifier of "
               "C19-second-merge-empties-overloads-of-stub-only-class is that observation (or the explicit second API call)",
               "a path into the <pkg>-stubs directory itself denotes a package named '<pkg>-stubs' and is not a request for the "
               "runtime package: not generated",
               "the inheritance counters use the oracle's own reading of the sources (Python scoping of base expressions); "
               "verdicts never depend on them",
               "flags of the children of a stub-only class (runtime=True/False) are not judged, only the member itself",
               "a parameter is shared by NAME (the documented rule of _merge_function_stubs and the only reading under which "
               "typeshed-style stubs with `/` and `*` markers describe the runtime def); the merged signature keeps the runtime's "
               "names, order, kinds and defaults; a stub that reorders shared names is judged by the same rule",
               "a function decorated with @property is an attribute (Griffe's documented object model): property vs def of the "
               "same name is a kind mismatch (left untouched), property vs annotated attribute is a same-kind pair; labels "
               "(async, staticmethod, classmethod, property) of a merged member are not judged"]
SHARD_TIMEOUT = {"quick": 600, "thorough": 3600}

IMPL = ('class T1:\n    """R doc T1"""\n    def meth(self, a: R1) -> R2:\n        """R doc meth"""\n'
        'def t_func(a: R1, b: R2 = 0) -> R3:\n    """R doc t_func"""\n'
        't_attr: R1 = 1\n')
ALIAS_FORMS = [("from pkg._impl import T1 as {n}", "pkg._impl.T1"), ("from pkg._impl import t_func as {n}", "pkg._impl.t_func"),
               ("from pkg._impl import t_attr as {n}", "pkg._impl.t_attr"), ("from typing import Any as {n}", "typing.Any"),
               ("import pathlib as {n}", "pathlib"), ("from pkg._impl import B1 as {n}", "pkg._impl.B1"),
               ("from pkg._impl import B2 as {n}", "pkg._impl.B2"), ("from pkg._impl import B1 as {n}", "pkg._impl.B1")]
IMPL_CLASSES = ("pkg._impl.T1", "pkg._impl.B1", "pkg._impl.B2")     # import targets that can be named as a base class
NAMES = {0: ["n1", "n2", "n3", "n4", "n5", "n6"], 1: ["m1", "m2", "m3", "m4"], 2: ["k1", "k2", "k3"], 3: ["j1", "j2"]}


# ------------------------------------------------------------------------------------------
# generator (model -> source)
def _ann(rng: random.Random, side: str, p: float = 0.8) -> str | None:
    if rng.random() > p:
        return None
    i = rng.randint(1, 3)
    return rng.choice([f"{side}{i}", f"{side}{i}", f"list[{side}{i}]", f"{side}{i} | None"])


def _doc(rng: random.Random, side: str, what: str, p: float) -> str | None:
    return f"{side} doc {what}" if rng.random() < p else None


PKINDS = {"po": "positional-only", "pk": "positional or keyword", "va": "variadic positional", "ko": "keyword-only",
          "vk": "variadic keyword"}
PKIND_CODES = {v: k for k, v in PKINDS.items()}
FLAVORS = {"instance": ("self", None), "classmethod": ("cls", "classmethod"), "staticmethod": (None, "staticmethod"),
           "property": ("self", "property"), "plain": (None, None)}


def assign_kinds(rng: random.Random, n: int, plain: float) -> list[str]:
    """A valid sequence of parameter kinds for n parameters: positional-only*, positional-or-keyword*, [variadic positional],
    keyword-only*, [variadic keyword] - drawn without looking at any other signature."""
    if n == 0 or rng.random() < plain:
        return ["pk"] * n
    i = min(rng.choice([0, 0, 1, 1, 2, n]), n)
    j = rng.randint(i, n)
    tail = ["ko"] * (n - j)
    if tail and rng.random() < 0.3:
        tail[0] = "va"
    if tail and tail[-1] == "ko" and rng.random() < 0.25:
        tail[-1] = "vk"
    return ["po"] * i + ["pk"] * (j - i) + tail


def build_params(rng: random.Random, side: str, names: list[str], plain: float, first: str | None, ann=None) -> list:  # noqa: ANN001
    """[name, annotation, default, kind] per parameter; defaults valid per Python (no non-default after a default among the
    positional ones; keyword-only ones free; none on variadic ones); stubs mostly spell a default as `...`."""
    kinds = assign_kinds(rng, len(names), plain)
    params = []
    seen_default = False
    for p, k in zip(names, kinds):
        default = None
        if k in ("po", "pk"):
            if seen_default or rng.random() < 0.3:
                default = "x"
            seen_default = seen_default or default is not None
        elif k == "ko" and rng.random() < 0.5:
            default = "x"
        if default is not None:
            default = rng.choice(["...", "...", "...", "...", "0"]) if side == "S" else rng.choice(["0", "0", "None"])
        params.append([p, ann(p) if ann else _ann(rng, side), default, k])
    if first:
        params.insert(0, [first, _ann(rng, side, 0.06), None, "po" if "po" in kinds or rng.random() < 0.06 else "pk"])
    return params


def gen_func(rng: random.Random, side: str, name: str, in_class: bool, like: dict | None = None) -> dict:
    """A function / method.  With ``like`` (the runtime function of that name) the signature is drawn over the same parameter
    NAMES but otherwise independently: every kind re-assigned, defaults re-drawn, parameters dropped / added / (rarely)
    reordered, the method flavour (instance / classmethod / staticmethod / property) and async-ness drawn again."""
    flavor = "plain"
    if in_class:
        if like is not None and rng.random() < 0.7:
            flavor = like["flavor"]
        else:
            flavor = rng.choices(["instance", "classmethod", "staticmethod", "property"], [7, 1, 1, 1])[0]
    if like is None:
        pnames = [p for p in ("a", "b", "c", "d") if rng.random() < 0.5]
    else:
        pnames = [p[0] for p in like["params"] if p[0] not in ("self", "cls") and rng.random() < 0.88]
        if rng.random() < 0.1:
            rng.shuffle(pnames)
        # parameters that exist on one side only, at any position (renamed / legacy-spelled / stub-only keywords)
        for extra in ("z", "_y"):
            if rng.random() < 0.15:
                pnames.insert(rng.randint(0, len(pnames)), extra)
    if flavor == "property":
        pnames = []
    params = build_params(rng, side, pnames, 0.45, FLAVORS[flavor][0])
    f = {"kind": "func", "name": name, "params": params, "ret": _ann(rng, side, 0.75), "flavor": flavor,
         "async": flavor != "property" and rng.random() < 0.12,
         "doc": _doc(rng, side, name, 0.6 if side == "R" else 0.4), "overloads": [], "impl": True}
    return f


def gen_overloads(rng: random.Random, side: str, f: dict, in_class: bool) -> None:  # noqa: ARG001
    if f["flavor"] == "property":
        return
    for i in range(rng.randint(2, 3)):
        names = ["a"] + [p for p in ("b", "c") if rng.random() < 0.35]
        params = build_params(rng, side, names, 0.6, FLAVORS[f["flavor"]][0], ann=lambda p, i=i: f"{side}ov{i}" + (p if p != "a" else ""))
        f["overloads"].append({"params": params, "ret": f"{side}ov{i}"})


def gen_attr(rng: random.Random, side: str, name: str) -> dict:
    ann = _ann(rng, side, 0.6 if side == "R" else 0.9)
    value = str(rng.randint(1, 9)) if (side == "R" and rng.random() < 0.85) or ann is None else None
    return {"kind": "attr", "name": name, "ann": ann, "value": value, "doc": _doc(rng, side, name, 0.4 if side == "R" else 0.3)}


def gen_alias(rng: random.Random, name: str) -> dict:
    stmt, target = rng.choice(ALIAS_FORMS)
    return {"kind": "alias", "name": name, "stmt": stmt.format(n=name), "target": target}


def gen_bases(rng: random.Random, side: str, visible: list[str]) -> list[str]:
    """Base-class expressions: none, a name nobody defines, or one / two class expressions visible at this point per Python
    scoping (earlier classes of the module and their nested classes, imported classes, earlier classes of the same class body)."""
    r = rng.random()
    if not visible or r < 0.3:
        return rng.choice([[], [], [f"{side}Base"]])
    if r < 0.9 or len(visible) < 2:
        return [rng.choice(visible)]
    return rng.sample(visible, 2)


def _class_exprs(name: str, members: list) -> list[str]:
    out = [name]
    for m in members:
        if m["kind"] == "class":
            out += [f"{name}.{e}" for e in _class_exprs(m["name"], m["members"])]
    return out


def gen_impl(rng: random.Random) -> str:
    """The module nobody writes stubs for: the fixed import targets plus two base classes (B2 usually derives from B1) whose
    members carry names of every nested pool, so that classes of the pairs that derive from them inherit names the stubs use."""
    pool = NAMES[1] + NAMES[2] + NAMES[3]

    def body(p: float) -> list:
        ms: list[dict] = []
        for name in pool:
            r = rng.random()
            if r < p * 0.55:
                ms.append(gen_func(rng, "R", name, True))
                if rng.random() < 0.1:
                    gen_overloads(rng, "R", ms[-1], True)
            elif r < p * 0.85:
                ms.append(gen_attr(rng, "R", name))
            elif r < p:
                ms.append({"kind": "class", "name": name, "doc": _doc(rng, "R", name, 0.5), "bases": [],
                           "members": [gen_func(rng, "R", n, True) for n in NAMES[3] if rng.random() < 0.6]})
        return ms

    classes = [{"kind": "class", "name": "B1", "doc": "R doc B1", "members": body(0.7), "bases": []},
               {"kind": "class", "name": "B2", "doc": _doc(rng, "R", "B2", 0.5), "members": body(0.45),
                "bases": rng.choice([["B1"], ["B1"], ["T1"], ["B1", "T1"], []])}]
    return ("from typing import overload\n" if _uses_overload(classes) else "") + IMPL + "\n".join(render_members(classes, "", False)) + "\n"


def gen_scope(rng: random.Random, depth: int, in_class: bool, sides: str = "RS", glob: dict | None = None,
              derived: bool = False) -> tuple[list, list]:
    """Jointly generate the members of one scope for both sides.  ``glob``: per side, the class expressions of the module scope
    defined so far (the only enclosing scope a class body can see); a class body additionally sees its own earlier names.
    ``derived``: the runtime class derives from a visible class - it then declares fewer names itself (the rest is inherited)
    while the stubs spell members out as usual."""
    rm: list[dict] = []
    sm: list[dict] = []
    glob = {"R": [], "S": []} if glob is None else glob
    local = glob if depth == 0 else {"R": [], "S": []}
    kinds = ["attr", "func", "class", "alias"]
    for name in NAMES[depth]:
        w = [3, 3, 2 if depth < 3 else 0, 1 if depth == 0 else 0]
        rk = rng.choices([None, *kinds], [6 if derived else 2, *w])[0] if "R" in sides else None
        if "S" not in sides:
            sk = None
        elif rk is None:
            sk = rng.choices([None, *kinds], [3, *w])[0]
        else:
            r = rng.random()
            if r < 0.55:
                sk = rk
            elif r < 0.75:
                sk = None
            else:
                sk = rng.choices([k for k in kinds if k != rk], [x for k, x in zip(kinds, w) if k != rk])[0] \
                    if any(x for k, x in zip(kinds, w) if k != rk) else None
        r_m = s_m = None
        if rk == "attr":
            r_m = gen_attr(rng, "R", name)
        elif rk == "func":
            r_m = gen_func(rng, "R", name, in_class)
            if rng.random() < 0.1:
                gen_overloads(rng, "R", r_m, in_class)
                r_m["impl"] = rng.random() < 0.7       # a runtime function that exists as @overload signatures only
        elif rk == "alias":
            r_m = gen_alias(rng, name)
        if sk == "attr":
            s_m = gen_attr(rng, "S", name)
        elif sk == "func":
            s_m = gen_func(rng, "S", name, in_class, like=r_m if rk == "func" else None)
            if rng.random() < 0.35:
                gen_overloads(rng, "S", s_m, in_class)
                # overload-only: with a runtime member of that name (any kind), or without one (then the runtime scope may
                # still inherit the name from a base class)
                s_m["impl"] = rng.random() < (0.2 if rk is not None else 0.4)
        elif sk == "alias":
            s_m = gen_alias(rng, name)
        if rk == "class" or sk == "class":
            both = rk == "class" and sk == "class"
            visible = {x: glob[x] + (local[x] if local is not glob else []) for x in "RS"}
            if rk == "class":
                r_m = {"kind": "class", "name": name, "doc": _doc(rng, "R", name, 0.6), "bases": gen_bases(rng, "R", visible["R"])}
            if sk == "class":
                s_m = {"kind": "class", "name": name, "doc": _doc(rng, "S", name, 0.4),
                       "bases": list(r_m["bases"]) if both and rng.random() < 0.5 else gen_bases(rng, "S", visible["S"])}
            r_sub, s_sub = gen_scope(rng, depth + 1, True, "RS" if both else ("R" if rk == "class" else "S"), glob,
                                     derived=rk == "class" and any(b in visible["R"] for b in r_m["bases"])) \
                if depth < 3 else ([], [])
            if rk == "class":
                r_m["members"] = r_sub
                local["R"] += _class_exprs(name, r_sub)
            if sk == "class":
                s_m["members"] = s_sub
                local["S"] += _class_exprs(name, s_sub)
        if r_m and r_m["kind"] == "alias" and r_m["target"] in IMPL_CLASSES:
            local["R"].append(name)
        if s_m and s_m["kind"] == "alias" and s_m["target"] in IMPL_CLASSES:
            local["S"].append(name)
        if r_m:
            rm.append(r_m)
        if s_m:
            sm.append(s_m)
    return rm, sm


def _sig(params: list, ret: str | None) -> str:
    parts = []
    kinds = [p[3] for p in params]
    for i, (name, ann, default, kind) in enumerate(params):
        if kind == "ko" and "va" not in kinds and kinds.index("ko") == i:
            parts.append("*")
        t = {"va": "*", "vk": "**"}.get(kind, "") + name + (f": {ann}" if ann else "")
        if default is not None:
            t += (" = " if ann else "=") + default
        parts.append(t)
        if kind == "po" and (i + 1 == len(params) or kinds[i + 1] != "po"):
            parts.append("/")
    return "(" + ", ".join(parts) + ")" + (f" -> {ret}" if ret else "")


def render_members(members: list, ind: str, stub: bool) -> list[str]:
    out: list[str] = []
    for m in members:
        if m["kind"] == "alias":
            out.append(ind + m["stmt"])
        elif m["kind"] == "attr":
            line = m["name"] + (f": {m['ann']}" if m["ann"] else "") + (f" = {m['value']}" if m["value"] is not None else "")
            out.append(ind + line)
            if m["doc"]:
                out.append(f'{ind}"""{m["doc"]}"""')
        elif m["kind"] == "func":
            deco = FLAVORS[m["flavor"]][1]
            kw = "async def" if m["async"] else "def"
            for ov in m["overloads"]:
                out.append(ind + "@overload")
                if deco:
                    out.append(f"{ind}@{deco}")
                out.append(f"{ind}{kw} {m['name']}{_sig(ov['params'], ov['ret'])}: ...")
            if m["impl"]:
                if deco:
                    out.append(f"{ind}@{deco}")
                out.append(f"{ind}{kw} {m['name']}{_sig(m['params'], m['ret'])}:")
                if m["doc"]:
                    out.append(f'{ind}    """{m["doc"]}"""')
                if stub or not m["doc"]:
                    out.append(ind + "    ...")
                else:
                    out.append(ind + "    return None")
        else:
            out.append(f"{ind}class {m['name']}" + (f"({', '.join(m['bases'])})" if m["bases"] else "") + ":")
            if m["doc"]:
                out.append(f'{ind}    """{m["doc"]}"""')
            body = render_members(m["members"], ind + "    ", stub)
            out.extend(body or ([] if m["doc"] else [ind + "    pass"]))
    return out


def _uses_overload(members: list) -> bool:
    return any((m["kind"] == "func" and m["overloads"]) or (m["kind"] == "class" and _uses_overload(m["members"])) for m in members)


def render_module(doc: str | None, members: list, stub: bool) -> str:
    lines = [f'"""{doc}"""'] if doc else []
    if _uses_overload(members):
        lines.append("from typing import overload")
    lines += render_members(members, "", stub)
    return "\n".join(lines) + "\n"


def gen_pair(rng: random.Random, label: str) -> tuple[str, str]:
    rm, sm = gen_scope(rng, 0, False)
    return (render_module(_doc(rng, "R", label, 0.6), rm, stub=False), render_module(_doc(rng, "S", label, 0.4), sm, stub=True))


# ------------------------------------------------------------------------------------------
# the oracle's own reading of a source (ast; independent of Griffe)
def _is_overload(dec: ast.expr) -> bool:
    return (isinstance(dec, ast.Name) and dec.id == "overload") or \
        (isinstance(dec, ast.Attribute) and dec.attr == "overload" and isinstance(dec.value, ast.Name) and dec.value.id == "typing")


def _fsig(node: ast.FunctionDef | ast.AsyncFunctionDef) -> dict:
    """[name, annotation, default, kind] in source order, read from CPython's own parse of the signature."""
    a = node.args
    pos = [(x, "po") for x in a.posonlyargs] + [(x, "pk") for x in a.args]
    defaults = [None] * (len(pos) - len(a.defaults)) + [ast.unparse(d) for d in a.defaults]
    params = [[arg.arg, ast.unparse(arg.annotation) if arg.annotation else None, d, k] for (arg, k), d in zip(pos, defaults)]
    if a.vararg:
        params.append([a.vararg.arg, ast.unparse(a.vararg.annotation) if a.vararg.annotation else None, None, "va"])
    for arg, d in zip(a.kwonlyargs, a.kw_defaults):
        params.append([arg.arg, ast.unparse(arg.annotation) if arg.annotation else None, None if d is None else ast.unparse(d), "ko"])
    if a.kwarg:
        params.append([a.kwarg.arg, ast.unparse(a.kwarg.annotation) if a.kwarg.annotation else None, None, "vk"])
    return {"params": params, "ret": ast.unparse(node.returns) if node.returns else None}


def _decorators(node: ast.FunctionDef | ast.AsyncFunctionDef) -> list[str]:
    return sorted(ast.unparse(d) for d in node.decorator_list if not _is_overload(d))


def parse_scope(body: list[ast.stmt]) -> dict:
    scope: dict = {"doc": None, "members": {}, "overload_only": {}}
    pending: dict[str, list] = {}
    for i, st in enumerate(body):
        if i == 0 and isinstance(st, ast.Expr) and isinstance(st.value, ast.Constant) and isinstance(st.value.value, str):
            scope["doc"] = st.value.value
        elif isinstance(st, ast.ImportFrom):
            for al in st.names:
                scope["members"][al.asname or al.name] = {"kind": "alias", "target": f"{st.module}.{al.name}"}
        elif isinstance(st, ast.Import):
            for al in st.names:
                if al.asname:
                    scope["members"][al.asname] = {"kind": "alias", "target": al.name}
                else:
                    top = al.name.split(".", 1)[0]
                    scope["members"][top] = {"kind": "alias", "target": top}
        elif isinstance(st, (ast.AnnAssign, ast.Assign)):
            target = st.target if isinstance(st, ast.AnnAssign) else st.targets[0]
            if not isinstance(target, ast.Name):
                continue
            doc = None
            if i + 1 < len(body) and isinstance(body[i + 1], ast.Expr) and isinstance(body[i + 1].value, ast.Constant) \
                    and isinstance(body[i + 1].value.value, str):
                doc = body[i + 1].value.value
            scope["members"][target.id] = {"kind": "attr", "doc": doc,
                                           "ann": ast.unparse(st.annotation) if isinstance(st, ast.AnnAssign) else None,
                                           "value": ast.unparse(st.value) if st.value is not None else None}
        elif isinstance(st, (ast.FunctionDef, ast.AsyncFunctionDef)):
            if any(_is_overload(d) for d in st.decorator_list):
                pending.setdefault(st.name, []).append(_fsig(st))
            elif "property" in _decorators(st):
                # a property is an attribute of the class (its type is what the getter returns, it has no value expression)
                scope["members"][st.name] = {"kind": "attr", "doc": ast.get_docstring(st), "value": None, "property": True,
                                             "ann": ast.unparse(st.returns) if st.returns else None}
            else:
                scope["members"][st.name] = {"kind": "func", "doc": ast.get_docstring(st), **_fsig(st),
                                             "overloads": pending.pop(st.name, []), "deco": _decorators(st),
                                             "async": isinstance(st, ast.AsyncFunctionDef)}
        elif isinstance(st, ast.ClassDef):
            sub = parse_scope(st.body)
            scope["members"][st.name] = {"kind": "class", "bases": [ast.unparse(b) for b in st.bases], **sub}
    scope["overload_only"] = pending
    return scope


def parse_source(src: str) -> dict:
    return parse_scope(ast.parse(src).body)


EMPTY = {"doc": None, "members": {}, "overload_only": {}}


# ------------------------------------------------------------------------------------------
# reference model of inheritance (Python scoping on the oracle's own reading of the sources): which names a runtime class
# inherits.  Used to show in the evidence that stubs naming *inherited* members are exercised; verdicts never depend on it.
def link(scope: dict, parent: dict | None = None, module: dict | None = None) -> dict:
    scope["_parent"], scope["_module"] = parent, module or scope
    for m in scope["members"].values():
        if m["kind"] == "class":
            link(m, scope, scope["_module"])
    return scope


def lookup_class(expr: str, scope: dict, impl: dict | None) -> dict | None:
    """The class a base expression written in a class statement of ``scope`` denotes: names of that scope, then globals
    (class bodies do not nest as scopes); imports are followed into ``impl`` (the loaded pkg._impl) when it is given."""
    parts = expr.split(".")
    cur = scope["members"].get(parts[0]) or scope["_module"]["members"].get(parts[0])
    for part in parts[1:] + [None]:
        if cur is not None and cur["kind"] == "alias":
            tgt = cur["target"].split(".")
            cur = impl["members"].get(tgt[2]) if impl is not None and tgt[:2] == ["pkg", "_impl"] and len(tgt) == 3 else None
        if cur is None or cur["kind"] != "class":
            return None
        if part is not None:
            cur = cur["members"].get(part)
    return cur


def inherited_names(cls: dict, impl: dict | None, seen: tuple = ()) -> set[str]:
    out: set[str] = set()
    if any(cls is c for c in seen):
        return out
    for expr in cls["bases"]:
        base = lookup_class(expr, cls["_parent"], impl)
        if base is not None:
            out |= set(base["members"]) | inherited_names(base, impl, (*seen, cls))
    return out


def count_inheritance(rec, r: dict, s: dict, impl: dict | None) -> None:  # noqa: ANN001
    """Counters over one (runtime scope, stub scope) pair that gets merged, recursively through same-named classes."""
    for name in s["overload_only"]:
        if name not in r["members"]:
            rec.count("stub_overloads_only_no_runtime_member")
    for name, rm in r["members"].items():
        sm = s["members"].get(name)
        if rm["kind"] != "class" or sm is None or sm["kind"] != "class":
            continue
        inh = inherited_names(rm, impl) - set(rm["members"])
        if inh:
            rec.count("merged_classes_inheriting_names")
        for n in inh:
            if n in sm["overload_only"]:
                rec.count("inherited_name_stub_overloads_only")
            elif n in sm["members"]:
                rec.count("inherited_name_stub_member")
        count_inheritance(rec, rm, sm, impl)


def merged_alias_targets(r: dict, s: dict) -> set[str]:
    """Targets of the runtime imports that have a same-named non-import stub member (or stub overloads): the documented
    'merge into the alias target' may write into these objects."""
    out = set()
    for name, rm in r["members"].items():
        sm = s["members"].get(name)
        if rm["kind"] == "alias" and ((sm is not None and sm["kind"] != "alias") or name in s["overload_only"]):
            out.add(rm["target"])
        if rm["kind"] == "class" and sm is not None and sm["kind"] == "class":
            out |= merged_alias_targets(rm, sm)
    return out


def has_mismatch(r: dict, s: dict) -> bool:
    for name, rm in r["members"].items():
        sm = s["members"].get(name)
        if sm and sm["kind"] != rm["kind"]:
            return True
        if name in s["overload_only"] and rm["kind"] != "func":
            return True
        if sm and rm["kind"] == "class" and sm["kind"] == "class" and has_mismatch(rm, sm):
            return True
    return False


def has_nested_class(scope: dict, depth: int = 0) -> bool:
    return any(m["kind"] == "class" and (depth >= 1 or has_nested_class(m, depth + 1)) for m in scope["members"].values())


# ------------------------------------------------------------------------------------------
# comparison of the merged Griffe tree with the expectation
KIND = {"attr": "attribute", "func": "function", "class": "class"}


class Judge:
    def __init__(self, rec) -> None:  # noqa: ANN001
        self.rec = rec
        self.problems: list[dict] = []

    def bad(self, kind: str, path: str, what: str, observed=None, expected=None) -> None:  # noqa: ANN001
        self.problems.append({"kind": kind, "path": path, "what": f"{path}: {what}", "observed": observed, "expected": expected})

    # -- leaves ------------------------------------------------------------------------------
    def ann(self, path: str, got, r_ann, s_ann, s_present: bool, what: str) -> None:  # noqa: ANN001
        got = None if got is None else str(got)
        if s_present and s_ann is not None:
            self.rec.count("stub_annotations_checked")
            if got != s_ann:
                self.bad("annotation-not-from-stubs", path, f"{what} not taken from the stubs", got, s_ann)
        elif s_present and r_ann is not None:
            self.rec.count("stub_silent_runtime_annotated_not_judged")
            if got not in (None, r_ann):
                self.bad("annotation-invented", path, f"{what} is neither the runtime's nor absent", got, [r_ann, None])
        elif got != r_ann:
            self.bad("runtime-annotation-lost", path, f"{what} of the runtime member changed although the stubs say nothing", got, r_ann)

    def doc(self, path: str, g, r_doc, s_doc) -> None:  # noqa: ANN001
        self.rec.count("docstring_rule_checked")
        got = g.docstring.value if g.docstring is not None else None
        want = r_doc if r_doc is not None else s_doc
        if got != want:
            kind = "docstring-overwritten" if r_doc is not None else "docstring-not-filled"
            self.bad(kind, path, "docstring: runtime one must be kept unless missing, then the stub's", got, want)

    @staticmethod
    def sigs(functions) -> list:  # noqa: ANN001
        """Signatures in the oracle's form [name, annotation, default, kind]; the placeholder defaults Griffe shows for
        variadic parameters (`()` / `{}`) are not defaults of the source."""
        out = []
        for f in functions or []:
            params = []
            for p in f.parameters:
                kind = PKIND_CODES.get(getattr(p.kind, "value", p.kind), str(p.kind))
                default = None if p.default is None or kind in ("va", "vk") else str(p.default)
                params.append([p.name, None if p.annotation is None else str(p.annotation), default, kind])
            out.append({"params": params, "ret": None if f.returns is None else str(f.returns)})
        return out

    def func(self, path: str, g, r: dict, s: dict | None, s_overloads: list | None) -> None:  # noqa: ANN001, C901
        gp = list(g.parameters)
        if [p.name for p in gp] != [p[0] for p in r["params"]]:
            self.bad("parameters-changed", path, "parameter names/order differ from the runtime function", [p.name for p in gp],
                     [p[0] for p in r["params"]])
            return
        sp = {p[0]: p for p in s["params"]} if s else {}
        if s:
            if s["deco"] != r["deco"]:
                self.rec.count("function_pairs_decorators_differ_checked")
            if s["async"] != r["async"]:
                self.rec.count("function_pairs_async_vs_sync_checked")
            if [p[0] for p in s["params"] if p[0] in {q[0] for q in r["params"]}] != \
                    [p[0] for p in r["params"] if p[0] in sp]:
                self.rec.count("function_pairs_shared_params_reordered_checked")
        for p, (name, r_ann, r_default, r_kind) in zip(gp, r["params"]):
            self.rec.count("param_kinds_checked")
            got_kind = getattr(p.kind, "value", p.kind)
            if got_kind != PKINDS[r_kind]:
                self.bad("parameter-kind-changed", f"{path}({name})", "kind of the runtime parameter changed", str(got_kind),
                         PKINDS[r_kind])
            if r_kind in ("va", "vk"):
                self.rec.count("variadic_params_checked")
            if name in sp:
                # a parameter both signatures have, whatever kind / default / position each side gives it
                same = sp[name][3] == r_kind
                self.rec.count("shared_params_same_kind_checked" if same else "shared_params_other_kind_checked")
                if not same and sp[name][1] is not None:
                    self.rec.count("stub_annotation_on_param_of_other_kind_checked")
                if sp[name][2] is not None and r_default is None:
                    self.rec.count("stub_default_on_param_without_runtime_default_checked")
            elif s:
                self.rec.count("runtime_only_params_checked")
            self.ann(f"{path}({name})", p.annotation, r_ann, sp[name][1] if name in sp else None, name in sp, "parameter annotation")
            got_default = None if p.default is None else str(p.default)
            if r_kind in ("va", "vk"):
                if got_default not in (None, "()" if r_kind == "va" else "{}"):
                    self.bad("default-changed", f"{path}({name})", "a variadic parameter got a default", got_default, None)
            elif got_default != r_default:
                self.bad("default-changed", f"{path}({name})", "default value changed", got_default, r_default)
        self.ann(path, g.returns, r["ret"], s["ret"] if s else None, s is not None, "return annotation")
        self.doc(path, g, r["doc"], s["doc"] if s else None)
        self.rec.count("overload_lists_checked")
        got = self.sigs(g.overloads)
        if s_overloads:
            if any(p[3] != "pk" for o in s_overloads for p in o["params"]):
                self.rec.count("stub_overloads_with_kind_markers_checked")
            if got != s_overloads:
                self.bad("overloads-not-from-stubs", path, "overload list not taken from the stubs", got, s_overloads)
        elif got != r["overloads"]:
            self.bad("runtime-overloads-lost", path, "overload list of the runtime function changed", got, r["overloads"])

    def attr(self, path: str, g, r: dict, s: dict | None) -> None:  # noqa: ANN001
        if r.get("property") or (s and s.get("property")):
            self.rec.count("property_members_checked")
            if s and bool(r.get("property")) != bool(s.get("property")):
                self.rec.count("property_vs_plain_attribute_pairs_checked")
        self.ann(path, g.annotation, r["ann"], s["ann"] if s else None, s is not None, "attribute annotation")
        got = None if g.value is None else str(g.value)
        if got != r["value"]:
            self.bad("value-changed", path, "attribute value changed", got, r["value"])
        self.doc(path, g, r["doc"], s["doc"] if s else None)

    # -- containers --------------------------------------------------------------------------
    def overload_dict(self, path: str, g, r: dict, s: dict, stub_side_only: bool) -> None:  # noqa: ANN001
        """The ``overloads`` dict of a module / class: functions of this scope that exist as @overload signatures only.
        A scope that comes from the stubs alone must show exactly what the stub source says; a runtime scope keeps its own
        entries (names the stubs declare by overloads only without a runtime member are not judged, see ASSUMPTIONS)."""
        raw = g.overloads
        if not isinstance(raw, dict):
            self.bad("overloads-dict-malformed", path, "the overloads of a module / class is not a dict", type(raw).__name__, "dict")
            return
        open_names = set() if stub_side_only else set(s["overload_only"])
        got = {n: self.sigs(v) for n, v in raw.items() if v and n not in open_names}       # the visitor leaves empty lists behind
        want = {n: v for n, v in r["overload_only"].items() if n not in open_names}
        if stub_side_only:
            self.rec.count("stub_only_scopes_overload_dict_checked")
            self.rec.count("stub_only_overload_only_functions_checked", len(want))
            if got != want:
                self.bad("stub-only-overloads-lost", path, "stub-only class: its @overload-only functions differ from the stub source",
                         got, want)
        else:
            self.rec.count("runtime_overload_only_functions_checked", len(want))
            if got != want:
                self.bad("runtime-overloads-dict-changed", path, "the @overload-only functions of the runtime scope changed", got, want)

    def container(self, path: str, g, r: dict, s: dict, stub_side_only: bool = False,  # noqa: ANN001, C901, PLR0912
                  ignore: frozenset = frozenset()) -> None:
        """g: merged module/class; r: runtime scope; s: stub scope (EMPTY when nothing is merged); ignore: member names of
        this level that are not judged (on either side)."""
        self.doc(path, g, r["doc"], s["doc"])
        self.overload_dict(path, g, r, s, stub_side_only)
        if ignore:
            r = dict(r, members={n: m for n, m in r["members"].items() if n not in ignore})
        members = {n: m for n, m in g.members.items() if n not in ignore and
                   (m.is_alias or not m.is_module or n in r["members"] or n in s["members"])}     # sub-modules are not members here
        expected_names = set(r["members"]) | set(s["members"])
        if set(members) != expected_names:
            missing_rt = sorted(set(r["members"]) - set(members))
            missing_st = sorted(set(s["members"]) - set(members) - set(r["members"]))
            # a stub function that only exists as @overload signatures and has no runtime counterpart: whether it becomes a
            # member is not decided by the statement (Griffe's visitor does not make it one)
            extra = sorted(n for n in set(members) - expected_names if n not in s["overload_only"])
            if missing_rt:
                self.bad("runtime-member-lost", path, "runtime member(s) missing after the merge", missing_rt, sorted(r["members"]))
            if missing_st:
                self.bad("stub-only-member-missing", path, "stub-only member(s) not added", missing_st, sorted(s["members"]))
            if extra:
                self.bad("unexpected-member", path, "member(s) from nowhere", extra, sorted(expected_names))
        for name, rm in r["members"].items():
            g_m = members.get(name)
            if g_m is None:
                continue
            sub = f"{path}.{name}"
            self.rec.count("runtime_members_checked")
            sm = s["members"].get(name)
            s_ov = s["overload_only"].get(name)
            if rm["kind"] == "alias":
                if not g_m.is_alias or g_m.target_path != rm["target"]:
                    self.bad("runtime-member-rekinded", sub, "runtime import is no longer that alias",
                             f"{'alias -> ' + g_m.target_path if g_m.is_alias else g_m.kind.value}", "alias -> " + rm["target"])
                elif g_m.runtime is not True and not stub_side_only:
                    self.bad("runtime-flag", sub, "runtime import marked runtime=False", g_m.runtime, True)
                if sm is not None and sm["kind"] != "alias" or s_ov:
                    self.rec.count("runtime_alias_with_stub_member")
                continue
            if g_m.is_alias or g_m.kind.value != KIND[rm["kind"]]:
                self.bad("runtime-member-rekinded", sub, "runtime member changed kind",
                         "alias" if g_m.is_alias else g_m.kind.value, KIND[rm["kind"]])
                continue
            if not stub_side_only and g_m.runtime is not True:
                self.bad("runtime-flag", sub, "runtime member marked runtime=False", g_m.runtime, True)
            same = sm is not None and sm["kind"] == rm["kind"]
            if sm is not None and not same:
                self.rec.count("kind_mismatches_checked")
                if rm.get("property") or sm.get("property"):
                    self.rec.count("property_vs_other_kind_mismatches_checked")
            if s_ov and rm["kind"] != "func":
                self.rec.count("kind_mismatches_checked")
            if same:
                self.rec.count("same_kind_pairs_checked")
            if rm["kind"] == "func":
                ovs = (sm["overloads"] if same and sm["overloads"] else None) or s_ov
                self.func(sub, g_m, rm, sm if same else None, ovs)
            elif rm["kind"] == "attr":
                self.attr(sub, g_m, rm, sm if same else None)
            else:
                if same:
                    self.rec.count("nested_class_pairs_checked")
                if [str(b) for b in g_m.bases] != rm["bases"]:
                    self.bad("bases-changed", sub, "class bases changed", [str(b) for b in g_m.bases], rm["bases"])
                self.container(sub, g_m, rm, sm if same else EMPTY, stub_side_only)
        for name, sm in s["members"].items():
            if name in r["members"]:
                continue
            g_m = members.get(name)
            if g_m is None:
                continue
            sub = f"{path}.{name}"
            self.rec.count("stub_only_members_checked")
            if g_m.runtime is not False:
                self.bad("stub-only-not-marked", sub, "stub-only member not marked runtime=False", g_m.runtime, False)
            if sm["kind"] == "alias":
                if not g_m.is_alias or g_m.target_path != sm["target"]:
                    self.bad("stub-only-member-wrong", sub, "stub-only import is not that alias", repr(g_m), "alias -> " + sm["target"])
                continue
            if g_m.is_alias or g_m.kind.value != KIND[sm["kind"]]:
                self.bad("stub-only-member-wrong", sub, "stub-only member has another kind",
                         "alias" if g_m.is_alias else g_m.kind.value, KIND[sm["kind"]])
                continue
            if sm["kind"] == "func":
                self.func(sub, g_m, sm, None, None)
            elif sm["kind"] == "attr":
                self.attr(sub, g_m, sm, None)
            else:
                self.container(sub, g_m, sm, EMPTY, stub_side_only=True)


# ------------------------------------------------------------------------------------------
# alias window monitor: Alias.resolve_target calls made while a merge_stubs call is on the stack
_WINDOW: list | None = None
_DEPTH = 0


def install_alias_monitor() -> None:
    import _griffe.loader as gl
    import _griffe.merger as gm
    import _griffe.mixins as gx
    from _griffe.models import Alias

    if getattr(Alias.resolve_target, "_vf", False):
        return
    orig = Alias.resolve_target

    def wrapper(self):  # noqa: ANN001
        if _WINDOW is None or _DEPTH == 0:
            return orig(self)
        stub_side = self.runtime is False
        try:
            fp = self.parent.filepath if self.parent is not None else None
            stub_side = stub_side or (fp is not None and not isinstance(fp, list) and str(fp).endswith(".pyi"))
        except Exception:  # noqa: BLE001
            pass
        try:
            path = self.path
        except Exception:  # noqa: BLE001
            path = "?." + self.name
        was = self.resolved
        try:
            return orig(self)
        finally:
            _WINDOW.append((path, stub_side, self.target_path, (not was) and self.resolved))

    wrapper._vf = True  # type: ignore[attr-defined]
    Alias.resolve_target = wrapper

    real_merge = gm.merge_stubs

    def merge_window(mod1, mod2):  # noqa: ANN001
        global _DEPTH
        _DEPTH += 1
        try:
            return real_merge(mod1, mod2)
        finally:
            _DEPTH -= 1
            if _WINDOW is not None and _DEPTH == 0:
                try:
                    _MERGES.append(str(mod1.path))
                except Exception:  # noqa: BLE001
                    _MERGES.append("?")

    # merge_stubs is captured by name in the loader and in set_member's module: replace every reference
    for mod in (gm, gl, gx):
        if getattr(mod, "merge_stubs", None) is real_merge:
            mod.merge_stubs = merge_window


_MERGES: list = []


def alias_states(module) -> list[tuple[str, bool, bool]]:  # noqa: ANN001
    """(path, resolved, stub_side) of every alias in the tree, without resolving anything."""
    out = []
    stack = [module]
    while stack:
        obj = stack.pop()
        for m in obj.members.values():
            if m.is_alias:
                out.append((m.path, m.resolved, m.runtime is False))
            elif m.kind.value in ("module", "class"):
                stack.append(m)
    return out


def allowed_resolutions(prefix: str, r: dict, s: dict) -> set[str]:
    """Runtime aliases that have a same-named non-import stub member (or stub overloads) in the corresponding stub scope."""
    out = set()
    for name, rm in r["members"].items():
        sm = s["members"].get(name)
        if rm["kind"] == "alias" and ((sm is not None and sm["kind"] != "alias") or name in s["overload_only"]):
            out.add(f"{prefix}.{name}")
        if rm["kind"] == "class" and sm is not None and sm["kind"] == "class":
            out |= allowed_resolutions(f"{prefix}.{name}", rm, sm)
    return out


# ------------------------------------------------------------------------------------------
# placements
PAIRS_ORDERED = {"stub_first": 0, "runtime_first": 0}


def stub_first_policy(stub_first: bool):  # noqa: ANN201
    """Listing order: names sorted, but of x.py / x.pyi the stub comes first (or second). Nothing else moves."""
    def policy(directory, names):  # noqa: ANN001, ARG001
        def key(n):  # noqa: ANN001
            stem, ext = os.path.splitext(n)
            return (stem, {".py": 1 if stub_first else 0, ".pyi": 0 if stub_first else 1}.get(ext, 2), ext)
        out = sorted(names, key=key)
        for i, n in enumerate(out[:-1]):
            if {os.path.splitext(n)[1], os.path.splitext(out[i + 1])[1]} == {".py", ".pyi"} \
                    and os.path.splitext(n)[0] == os.path.splitext(out[i + 1])[0]:
                PAIRS_ORDERED["stub_first" if n.endswith(".pyi") else "runtime_first"] += 1
        return out
    return policy


def write_files(root: str, files: dict[str, str]) -> None:
    for rel, content in files.items():
        p = os.path.join(root, rel)
        os.makedirs(os.path.dirname(p), exist_ok=True)
        with open(p, "w") as fh:
            fh.write(content)


def layout(placement: str, src: dict) -> tuple[dict[str, str], list[tuple[str, str, str]]]:
    """files + [(dotted path of merged module, runtime source key, stub source key)]."""
    impl = src.get("I", IMPL)
    if placement == "inpkg":
        return ({"sp/pkg/__init__.py": src["R0"], "sp/pkg/__init__.pyi": src["S0"], "sp/pkg/_impl.py": impl,
                 "sp/pkg/mod.py": src["R1"], "sp/pkg/mod.pyi": src["S1"]}, [("pkg", "R0", "S0"), ("pkg.mod", "R1", "S1")])
    if placement == "stubspkg":
        return ({"rt/pkg/__init__.py": src["R0"], "rt/pkg/_impl.py": impl, "rt/pkg/mod.py": src["R1"],
                 "st/pkg-stubs/__init__.pyi": src["S0"], "st/pkg-stubs/mod.pyi": src["S1"]},
                [("pkg", "R0", "S0"), ("pkg.mod", "R1", "S1")])
    if placement == "sibling":
        return ({"sp/m0.py": src["R0"], "sp/m0.pyi": src["S0"], "sp/m1.py": src["R1"], "sp/m1.pyi": src["S1"]},
                [("m0", "R0", "S0"), ("m1", "R1", "S1")])
    return ({}, [("m0", "R0", "S0"), ("m1", "R1", "S1")])


REQUEST_FORMS = ["dotted_module", "dotted_object", "path_dir", "path_file", "relative_path"]


def request_spec(req: dict, root: str):  # noqa: ANN201
    """The objspec handed to GriffeLoader.load for a request: a dotted name, an absolute Path, or a path relative to the
    working directory (the case's root) given as str or as Path."""
    if req["form"] in ("dotted_module", "dotted_object"):
        return req["arg"]
    if req["form"] in ("path_dir", "path_file"):
        return Path(root, req["arg"])
    return req["arg"] if req.get("as_str", True) else Path(req["arg"])


def requested_path(req: dict) -> str:
    """Dotted path of the object a request denotes (own rule: drop the search-path directory, the suffix and __init__)."""
    if req["form"] in ("dotted_module", "dotted_object"):
        return req["arg"]
    parts = req["arg"].split("/")[1:]
    parts[-1] = parts[-1].rsplit(".", 1)[0] if parts[-1].endswith((".py", ".pyi")) else parts[-1]
    return ".".join(x for x in parts if x != "__init__")


def load_once(placement: str, root: str, order: int, target: str, req: dict | None = None):  # noqa: ANN201
    """Returns (top module, what load returned). order 0: runtime file / path / argument first; 1: stubs first.
    req: the spelling of the request (None: the bare top-level name); whatever is requested, the whole package is loaded and
    merged, and it is the top-level module of the collection that gets judged."""
    import griffe

    top_name = target or "pkg"
    spec = top_name if req is None else request_spec(req, root)
    if placement == "stubspkg":
        paths = [os.path.join(root, "rt"), os.path.join(root, "st")]
        loader = griffe.GriffeLoader(search_paths=paths[::-1] if order else paths, allow_inspection=False)
        ret = loader.load(spec, find_stubs_package=True)
    else:
        with listing.shuffled(order, 0, only_under=root, policy=stub_first_policy(bool(order))):
            loader = griffe.GriffeLoader(search_paths=[os.path.join(root, "sp")], allow_inspection=False)
            ret = loader.load(spec, find_stubs_package=bool(req and req.get("fsp")))
    top = loader.modules_collection.members.get(top_name)
    if top is None:
        raise AssertionError(f"after load({spec!r}) the collection has no module {top_name!r}: {sorted(loader.modules_collection.members)}")
    return top, ret


def merged_object_paths(prefix: str, r: dict, s: dict) -> list[str]:
    """Dotted paths of the objects the merged tree must have per the statement: runtime members and stub-only members, through
    classes (imports are not entered)."""
    out = []
    for name, m in r["members"].items():
        out.append(f"{prefix}.{name}")
        if m["kind"] == "class":
            sm = s["members"].get(name)
            out += merged_object_paths(f"{prefix}.{name}", m, sm if sm is not None and sm["kind"] == "class" else EMPTY)
    for name, m in s["members"].items():
        if name not in r["members"]:
            out.append(f"{prefix}.{name}")
            if m["kind"] == "class":
                out += merged_object_paths(f"{prefix}.{name}", m, EMPTY)
    return out


def gen_requests(rng: random.Random, placement: str, src: dict) -> list[dict]:
    """Two further spellings of the request per loader placement (per target for top-level sibling modules: one each)."""
    if placement == "api":
        return []
    parsed = {k: parse_source(src[k]) for k in ("R0", "S0", "R1", "S1")}
    _files, pairs = layout(placement, src)
    sp = "rt" if placement == "stubspkg" else "sp"
    out = []

    def one(form: str, target: str | None, objects: list[str]) -> dict | None:
        if form == "dotted_module":
            req = {"form": form, "arg": "pkg.mod"}
        elif form == "dotted_object":
            if not objects:
                return None
            req = {"form": form, "arg": rng.choice(objects)}
        elif form == "path_dir":
            req = {"form": form, "arg": f"{sp}/pkg"}
        else:
            exts = [".py"] if placement == "stubspkg" else [".py", ".pyi"]
            files = [f"{sp}/{target}{e}" for e in exts] if target else \
                [f"{sp}/pkg/{stem}{e}" for stem in ("mod", "__init__") for e in exts]
            choices = files + ([f"{sp}/pkg"] if form == "relative_path" and not target else [])
            req = {"form": form, "arg": rng.choice(choices)}
            if form == "relative_path":
                req["as_str"] = rng.random() < 0.5
        req["order"] = rng.randint(0, 1)
        if placement != "stubspkg":
            req["fsp"] = rng.random() < 0.5       # searching for a -stubs package that does not exist changes nothing
        if target:
            req["target"] = target
        return req

    if placement == "sibling":
        for dotted, rk, sk in pairs:
            objects = merged_object_paths(dotted, parsed[rk], parsed[sk])
            req = one(rng.choice(["dotted_object", "path_file", "relative_path"]), dotted, objects)
            if req:
                out.append(req)
        return out
    objects = [o for dotted, rk, sk in pairs for o in merged_object_paths(dotted, parsed[rk], parsed[sk])]
    for form in rng.sample(REQUEST_FORMS, 2):
        req = one(form, None, objects)
        if req:
            out.append(req)
    return out


def merge_api(src: dict, name: str, rkey: str, skey: str, order: int):  # noqa: ANN201
    import griffe
    from _griffe.merger import merge_stubs

    coll = griffe.ModulesCollection()
    lines = griffe.LinesCollection()
    rt = griffe.visit(name, filepath=Path(f"/nonexistent-vf/{name}.py"), code=src[rkey], modules_collection=coll, lines_collection=lines)
    coll[name] = rt
    st = griffe.visit(name, filepath=Path(f"/nonexistent-vf/{name}.pyi"), code=src[skey], modules_collection=coll, lines_collection=lines)
    def merge():  # noqa: ANN202
        merged = merge_stubs(st, rt) if order else merge_stubs(rt, st)
        if merged is not rt:
            raise AssertionError("merge_stubs did not return the regular module")
        return merged

    return merge(), merge


# ------------------------------------------------------------------------------------------
FINDINGS = ["C19-stub-overloads-on-unresolvable-import-abort-merge", "C19-overloads-of-implemented-stub-function-not-merged",
            "C19-second-merge-empties-overloads-of-stub-only-class", "C19-stub-overloads-replace-overloads-dict-of-runtime-class"]


ABORT_FALLOUT = {"runtime-module-lost", "annotation-not-from-stubs", "docstring-not-filled", "stub-only-member-missing",
                 "overloads-not-from-stubs"}


def unresolvable_import_with_stub_overloads(r: dict, s: dict, placement: str) -> list[str]:
    """Module-level names that are a runtime import whose target is not loaded at merge time while the stubs hold
    @overload signatures without implementation for the same name."""
    out = []
    for name, rm in r["members"].items():
        if rm["kind"] == "alias" and name in s["overload_only"]:
            loaded = rm["target"].startswith("pkg.") and placement in ("inpkg", "stubspkg")
            if not loaded:
                out.append(name)
    return out


def _scope_at(scope: dict, rel: list[str]) -> dict | None:
    for part in rel:
        m = scope["members"].get(part)
        if m is None or m["kind"] != "class":
            return None
        scope = m
    return scope


def classify(problem: dict, r: dict, s: dict, placement: str, module_path: str) -> str | None:
    """Mechanism classifiers for known findings (see known_findings.d/C19.json)."""
    # C19-second-merge-empties-overloads-of-stub-only-class: the (runtime, stubs) pair of this module went through merge_stubs
    # twice (observed by the merge monitor: the loader does that for a top-level module; or the API was called twice); the
    # first pass moved the stub-only class object into the runtime tree, the second pass merges that object with itself and
    # _merge_stubs_overloads deletes every entry of its overloads dict: the class has @overload-only functions in the stub source
    # and shows none at all.  A partial loss, a loss after a single merge, or any other difference is not this finding.
    # C19-stub-overloads-replace-overloads-dict-of-runtime-class: kind mismatch - the stubs declare a name by @overload signatures
    # only, the runtime member of that name in the merged scope is a class; `obj.get_member(name).overloads = [...]` replaces
    # the class's own overloads *dict* by the stub's list
    if problem["kind"] == "overloads-dict-malformed" and problem["observed"] == "list":
        rel = problem["path"][len(module_path) + 1:].split(".")
        rs, ss = _scope_at(r, rel[:-1]), _scope_at(s, rel[:-1])
        if rs and ss and rs["members"].get(rel[-1], {}).get("kind") == "class" and rel[-1] in ss["overload_only"]:
            return FINDINGS[3]
    if problem["kind"] == "stub-only-overloads-lost" and problem.get("merged_twice") and problem["observed"] == {} \
            and problem["expected"]:
        return FINDINGS[2]
    # C19-overloads-of-implemented-stub-function-not-merged: the stub function of the same name has @overload signatures *and*
    # an implementation signature; the merged function kept the runtime's overload list
    if problem["kind"] == "overloads-not-from-stubs":
        rel = problem["path"][len(module_path) + 1:].split(".")
        rs, ss = _scope_at(r, rel[:-1]), _scope_at(s, rel[:-1])
        if rs and ss:
            rm, sm = rs["members"].get(rel[-1]), ss["members"].get(rel[-1])
            if rm and sm and rm["kind"] == sm["kind"] == "func" and sm["overloads"] and problem["observed"] == rm["overloads"]:
                return FINDINGS[1]
    # C19-stub-overloads-on-unresolvable-import-abort-merge: _merge_stubs_overloads assigns `.overloads` through the runtime
    # import; resolving it raises AliasResolutionError, which aborts the merge of this module after the docstring and before
    # the members: the error propagates from merge_stubs / load (top-level module), or is swallowed by set_member, which then
    # keeps whichever module came second (sub-module), or by the enclosing package merge (stubs package).  The fall-out is
    # therefore: that exception, the runtime module replaced by the stubs module, or stub information missing below the module.
    if unresolvable_import_with_stub_overloads(r, s, placement):
        if problem["kind"] == "exception":
            if "AliasResolutionError" in str(problem["observed"]) and "_merge_stubs_overloads" in str(problem.get("traceback")):
                return FINDINGS[0]
        elif problem["kind"] in ABORT_FALLOUT and (
                problem["path"] == module_path or problem["path"].startswith((module_path + ".", module_path + "("))):
            return FINDINGS[0]
    return None


def run_case(rec, case: dict) -> None:  # noqa: ANN001, C901, PLR0912, PLR0915
    global _WINDOW
    install_alias_monitor()
    listing.install()
    placement, src = case["placement"], case["sources"]
    files, pairs = layout(placement, src)
    parsed = {k: link(parse_source(v)) for k, v in src.items()}
    parsed.setdefault("I", link(parse_source(IMPL)))
    parsed["-"] = EMPTY
    impl_loaded = placement in ("inpkg", "stubspkg")      # pkg._impl is in the collection while the pairs are merged
    for _p, rk, sk in pairs:
        count_inheritance(rec, parsed[rk], parsed[sk], parsed["I"] if impl_loaded else None)
    nt = any(has_mismatch(parsed[r], parsed[s]) for _p, r, s in pairs) and \
        any(has_nested_class(parsed[k]) for _p, r, s in pairs for k in (r, s))
    root = os.path.realpath(tempfile.mkdtemp(prefix="vf19-"))
    old_cwd = os.getcwd()
    judge = Judge(rec)
    try:
        with case_watchdog(120):
            write_files(root, files)
            os.chdir(root)
            targets = [None] if placement in ("inpkg", "stubspkg") else [p[0] for p in pairs]
            for target in targets:
                dumps = []
                # both discovery orders with the bare top-level name, then the other spellings of the request
                runs = [(0, None), (1, None)]
                if placement != "api":
                    runs += [(int(q.get("order", 0)), q) for q in case.get("requests", ()) if q.get("target") == target]
                for order, req in runs:
                    tag = f"order {order}" + (f", requested as {req['form']} {req['arg']!r}" if req else "")
                    _WINDOW = []
                    del _MERGES[:]
                    redo = None
                    try:
                        if placement == "api":
                            pair = next(p for p in pairs if p[0] == target)
                            top, redo = merge_api(src, target, pair[1], pair[2], order)
                        else:
                            top, returned = load_once(placement, root, order, target, req)
                    except Exception as exc:  # noqa: BLE001
                        _WINDOW = None
                        tb = "".join(traceback.format_exception(type(exc), exc, exc.__traceback__))[-4000:]
                        fid = None
                        for dotted, rk, sk in pairs:
                            if target is None or dotted == target:
                                fid = fid or classify({"kind": "exception", "observed": f"{type(exc).__name__}: {exc}", "traceback": tb,
                                                       "path": dotted}, parsed[rk], parsed[sk], placement, dotted)
                        rec.fail(case, f"exception while loading / merging ({placement}, {tag}): never raises, whatever the "
                                 "kinds", observed=f"{type(exc).__name__}: {exc}"[:500], expected="no exception", finding=fid,
                                 nontrivial=nt, tags=(placement,), tb=tb, tried=FINDINGS)
                        return
                    window, _WINDOW = _WINDOW, None
                    rec.count("alias_resolution_windows")
                    if req is not None:
                        rec.count("request_" + req["form"] + "_judged")
                        want_path = requested_path(req)
                        got_path = getattr(returned, "path", None)
                        if got_path != want_path:
                            judge.bad("request-returned-wrong-object", want_path, f"({tag}) load returned another object", got_path,
                                      want_path)
                    states = alias_states(top)
                    these = [p for p in pairs if target is None or p[0] == target]
                    allowed = set()
                    for dotted, rk, sk in these:
                        allowed |= allowed_resolutions(dotted, parsed[rk], parsed[sk])
                    rec.count("merge_stubs_calls_in_window", len(_MERGES))
                    # modules whose (runtime, stubs) pair went through merge_stubs more than once during this load (the loader
                    # does that for a top-level module: set_member of the collection, then _load_package)
                    twice = {m for m in _MERGES if _MERGES.count(m) >= 2}
                    if placement != "api":
                        rec.count("modules_merged_twice_by_loader", len(twice))
                    del _MERGES[:]
                    for path, stub_side, target_path, flipped in window:
                        rec.count("aliases_state_checked")
                        if stub_side:
                            judge.bad("stub-alias-resolved", path, f"({tag}) resolve_target called on a stub-side import "
                                      f"-> {target_path} inside merge_stubs", {"flipped_to_resolved": flipped}, "never")
                        elif path not in allowed:
                            judge.bad("alias-resolved-by-merge", path, f"({tag}) resolve_target called inside merge_stubs on "
                                      "an import that has no same-named non-import stub member", {"flipped_to_resolved": flipped},
                                      sorted(allowed))
                        else:
                            rec.count("merge_into_alias_target_seen")
                    for path, _resolved, stub_side in states:
                        rec.count("aliases_state_checked")
                        if stub_side and placement == "api" and _resolved:
                            judge.bad("stub-alias-resolved", path, f"({tag}) stub-side import resolved after merge_stubs",
                                      True, False)
                    def judge_pairs(second_pass: bool = False) -> None:
                        for dotted, rk, sk in these:
                            before = len(judge.problems)
                            g = top
                            if dotted != top.path:
                                g = top.members.get(dotted.split(".", 1)[1])
                            if g is None or g.is_alias or not g.is_module or (dotted == top.path and str(g.filepath).endswith(".pyi")) \
                                    or (g is not top and str(g.filepath).endswith(".pyi")):
                                judge.bad("runtime-module-lost", dotted, f"({tag}) the merged module is missing from the tree "
                                          "or is the stubs module", None if g is None else str(g.filepath), "the runtime module")
                            else:
                                try:
                                    judge.container(dotted, g, parsed[rk], parsed[sk])
                                except Exception as exc:  # noqa: BLE001
                                    judge.bad("malformed-tree", dotted, f"({tag}) the merged tree cannot be read: "
                                              f"{type(exc).__name__}: {exc}"[:300], None, "a well-formed tree")
                            for p in judge.problems[before:]:
                                p["order"] = order
                                p["pair"] = [rk, sk]
                                p["merged_twice"] = second_pass or dotted in twice
                                if second_pass:
                                    p["what"] = "(after merging the same pair a second time) " + p["what"]
                                if req is not None:
                                    p["request"] = req
                                    p["what"] = f"(package requested as {req['form']} {req['arg']!r}) " + p["what"]

                    judge_pairs()
                    if impl_loaded:
                        # the bystander: nobody writes stubs for pkg._impl, so merging the pairs must leave it exactly as its
                        # source says - except the objects a runtime import with same-named stubs points at (merge into the
                        # alias target, not judged)
                        before = len(judge.problems)
                        touched = set()
                        for _d, rk, sk in these:
                            touched |= {t.split(".")[2] for t in merged_alias_targets(parsed[rk], parsed[sk])
                                        if t.startswith("pkg._impl.")}
                        g = top.members.get("_impl")
                        if g is None or g.is_alias or not g.is_module:
                            judge.bad("runtime-module-lost", "pkg._impl", f"({tag}) the module without stubs is missing",
                                      None if g is None else repr(g), "the runtime module")
                        else:
                            rec.count("bystander_modules_judged")
                            rec.count("bystander_members_not_judged_alias_targets", len(touched))
                            try:
                                judge.container("pkg._impl", g, parsed["I"], EMPTY, ignore=frozenset(touched))
                            except Exception as exc:  # noqa: BLE001
                                judge.bad("malformed-tree", "pkg._impl", f"({tag}) the tree cannot be read: "
                                          f"{type(exc).__name__}: {exc}"[:300], None, "a well-formed tree")
                        for p in judge.problems[before:]:
                            p["order"] = order
                            p["pair"] = ["I", "-"]
                    dumps.append(top.as_json(full=False, sort_keys=True))
                    if redo is not None:
                        # idempotence: the loader merges the stubs of a top-level module twice; doing the same through the API
                        # must leave a tree that still satisfies the whole expectation, and the same canonical JSON
                        rec.count("api_second_merges_judged")
                        before = len(judge.problems)
                        try:
                            redo()
                        except Exception as exc:  # noqa: BLE001
                            judge.bad("second-merge-raised", target, f"({tag}) merging the same pair a second time raised",
                                      f"{type(exc).__name__}: {exc}"[:300], "no exception")
                        else:
                            judge_pairs(second_pass=True)
                            if top.as_json(full=False, sort_keys=True) != dumps[-1]:
                                judge.bad("merge-not-idempotent", target, f"({tag}) merging the same pair a second time "
                                          "changes the canonical JSON", None, "identical canonical JSON")
                        for p in judge.problems[before:]:
                            p.setdefault("order", order)
                            p.setdefault("pair", [pair[1], pair[2]])
                            p.setdefault("merged_twice", True)
                rec.count("orders_compared")
                for i in range(1, len(dumps)):
                    if i > 1:
                        rec.count("request_forms_compared")
                    if dumps[0] != dumps[i]:
                        from vf.checks.c14 import _first_diff

                        d = _first_diff(json.loads(dumps[0]), json.loads(dumps[i]))
                        if i == 1:
                            judge.bad("order-dependence", target or "pkg", "the two discovery orders give different trees",
                                      {"at": d[0], "runtime_first": json.dumps(d[1], sort_keys=True)[:300],
                                       "stubs_first": json.dumps(d[2], sort_keys=True)[:300]} if d else None, "identical canonical JSON")
                        else:
                            q = runs[i][1]
                            judge.bad("request-form-dependence", target or "pkg", f"the package requested as {q['form']} {q['arg']!r} "
                                      f"(order {runs[i][0]}) differs from the package requested by its name",
                                      {"at": d[0], "by_name": json.dumps(d[1], sort_keys=True)[:300],
                                       "by_this_request": json.dumps(d[2], sort_keys=True)[:300]} if d else None,
                                      "identical canonical JSON")
            rec.count("placements_judged")
            for k in PAIRS_ORDERED:
                rec.count("listings_with_py_pyi_pair_" + k, PAIRS_ORDERED[k])
                PAIRS_ORDERED[k] = 0
    finally:
        _WINDOW = None
        os.chdir(old_cwd)
        shutil.rmtree(root, ignore_errors=True)
    tags = [placement]
    problems = judge.problems
    module_of = {rk: dotted for dotted, rk, _sk in pairs}
    module_of["I"] = "pkg._impl"
    for p in problems:
        if "pair" in p:
            rk, sk = p["pair"]
            p["finding"] = classify(p, parsed[rk], parsed[sk], placement, module_of[rk])
        else:       # order dependence of the whole tree: explained when a module of the case has an aborting merge
            p["finding"] = next((FINDINGS[0] for _d, rk, sk in pairs
                                 if unresolvable_import_with_stub_overloads(parsed[rk], parsed[sk], placement)), None)
    unknown = [p for p in problems if not p["finding"]]
    if unknown:
        p = unknown[0]
        rec.fail(case, p["what"], observed={"first": p["observed"], "all_problems": problems[:10]}, expected=p["expected"],
                 nontrivial=nt, tags=tags, tried=FINDINGS)
    elif problems:
        seen: set[str] = set()
        for p in problems:
            if p["finding"] in seen:
                continue
            seen.add(p["finding"])
            if len(seen) == 1:
                rec.fail(case, p["what"], observed=p["observed"], expected=p["expected"], finding=p["finding"], nontrivial=nt,
                         tags=tags, tried=FINDINGS)
                if p["finding"] not in rec.known:
                    return
            else:
                from vf.core.rec import known_findings

                entry = known_findings().get(p["finding"])
                if entry is None or entry.get("status") != "known":
                    rec.fail(case, p["what"], observed=p["observed"], expected=p["expected"], finding=p["finding"], nontrivial=nt,
                             tried=FINDINGS)
                    return
                k = rec.known.setdefault(p["finding"], {"count": 0, "first": None})
                k["count"] += 1
                if k["first"] is None:
                    k["first"] = {"input": case, "what": p["what"], "observed": p["observed"], "expected": p["expected"]}
    else:
        rec.ok(case, nontrivial=nt, tags=tags)


PLACEMENTS = ["inpkg", "stubspkg", "sibling", "api"]


def shards(tier: str, seed: int) -> list[dict]:
    return [{"count": 64 if tier == "quick" else 940} for _ in range(16)]


def run_shard(spec: dict, rec) -> None:  # noqa: ANN001
    rng = random.Random(spec["seed"])
    for _ in range(spec["count"]):
        r0, s0 = gen_pair(rng, "pkg")
        r1, s1 = gen_pair(rng, "mod")
        src = {"R0": r0, "S0": s0, "R1": r1, "S1": s1, "I": gen_impl(rng)}
        for placement in PLACEMENTS:
            run_case(rec, {"placement": placement, "sources": src, "requests": gen_requests(rng, placement, src)})


def run_replay(inp: dict, rec) -> None:  # noqa: ANN001
    run_case(rec, inp)


def run_pinned(findings: list[dict], rec) -> dict:  # noqa: ANN001
    from vf.core.rec import Recorder

    out = {}
    for f in findings:
        sub = Recorder(PROP, {})
        run_case(sub, f["witness"])
        hit = f["id"] in sub.known
        detail = (sub.known[f["id"]]["first"]["what"] if hit else
                  sub.fails[0]["what"] + " (NOT classified as this finding)" if sub.fails else
                  "other finding(s): " + ", ".join(sub.known) if sub.known else "passes")
        out[f["id"]] = {"reproduced": hit or bool(sub.n_fail), "detail": detail}
    return out
