"""C20 — Loading from Git leaves repository and filesystem untouched on every path.

Workload: generated histories in scratch repositories (4-6 commits: package absent, two API versions, a commit
whose ``__init__`` has a syntax error, optionally one whose submodule has; lightweight and annotated tags, tags and
branches with slashes, a side branch; the user's tree has a modified tracked file, a staged file, untracked
files, optionally a stash, a detached HEAD, a pre-existing ``griffe-<ref>`` branch).  Around every
``load_git`` / ``check`` the repository is snapshotted (HEAD, symbolic ref, all refs, porcelain-v2 status, worktree
list, stash list, index entries, content hash of the working tree, ``.git/worktrees``) and a private ``TMPDIR`` is
listed.  Faults are *enumerated*: every git step before the load fails / cannot start / is interrupted before or
after it ran; unknown ref; absent package; syntax errors; an extension raising (exception, KeyboardInterrupt, a
real SIGINT) at its n-th event for every n of the recorded trace; dynamic analysis with bytecode writing on; an
extension writing into the checkout; ``check()`` with and without ``base_ref``.
"""
from __future__ import annotations

import contextlib
import io
import json
import os
import random
import shutil
import signal
import sys
import tempfile
from pathlib import Path

from vf.core.util import case_watchdog
from vf.mon import gitstate as gs

PROP = "C20"
LEVEL = "fault_enumeration"
ANCHORS = ["git.py", "loader.py", "cli.py", "diff.py"]
RULE = ("seeded scratch repositories (4-6 commits incl. package-absent, two API versions, syntax-error commits; lightweight / "
        "annotated / slashed tags, slashed branches, a side branch; dirty tracked file, staged file, untracked files, "
        "optional stash, detached-HEAD variants, optional pre-existing griffe-<ref> branch, optional linked worktree of the user, repository directory names "
        "with a space or non-ASCII letter, flat and src layouts); per repository the operation x fault space is "
        "enumerated: successful load_git of every ref form (tag, annotated slashed tag, slashed branches, side branch, "
        "HEAD, main~1, full and short sha); each git step of load_git/check before the load x {non-zero status, OSError, "
        "KeyboardInterrupt before, KeyboardInterrupt after}; unknown ref; absent package; syntax error in __init__ / in a "
        "submodule; extension raising RuntimeError at event n for EVERY n of the recorded trace, KeyboardInterrupt at "
        "every n (every 3rd n in the quick tier) and a real SIGINT at every 7th n; forced inspection without and with "
        "bytecode writing; an extension writing an untracked / an ignored file into the checkout; the checkout directory "
        "vanishing during the load; a stale (prunable) worktree entry of the user's own in the repository; check() with explicit "
        "and implicit `against`, with and without base_ref, each with all git-step faults and extension faults at three "
        "trace positions. distinct = (history, operation, fault); non-trivial = the fault fires after the temporary "
        "worktree exists")
LEVEL_TEXT = ("For every generated repository every enumerated fault point of load_git/check is exercised once and the "
              "repository snapshot and the private TMPDIR listing are compared before/after; the cleanup commands themselves "
              "are never made to fail and never interrupted (domain restriction of the design). Histories are sampled (seeded).")
LEVEL_NOTE = ("trusted: git 2.39 plumbing used for the snapshots (run with GIT_OPTIONAL_LOCKS=0 so that the monitor itself never "
              "writes the index); failpoints are placed on _griffe.git's view of subprocess only; faults no in-process code can "
              "survive (SIGKILL, power loss) are out of reach; the three cleanup commands are never failed nor interrupted")
TECHNIQUE = ("runtime monitoring: repository / filesystem snapshots around the real load_git and check, with enumerated failpoints "
             "on git subprocess steps and on extension events (incl. real SIGINT)")
REQUIRED_COUNTERS = ["snapshots_compared", "tmpdir_listings_checked", "git_step_faults_fired", "extension_faults_fired",
                     "interrupts_delivered", "sigint_delivered", "usability_probes", "source_lines_compared",
                     "check_runs", "cleanup_commands_observed", "bytecode_written_in_worktree", "checkout_vanished_cases", "user_stale_worktree_cases", "preexisting_branch_cases",
                     "unknown_ref_cases", "absent_package_cases", "syntax_error_cases", "faults_after_worktree_exists",
                     "successful_loads"]
EXHAUSTIVE = {"quick": False, "thorough": False}
ASSUMPTIONS = ["the three cleanup commands (worktree remove / worktree prune / branch -D) are never failed nor interrupted; "
               "their real exit statuses are recorded",
               "SIGKILL / power loss are out of reach of any in-process technique",
               "'exactly as it was' is read as equality of: HEAD, symbolic ref, for-each-ref, status --porcelain=v2 "
               "--untracked-files=all, worktree list --porcelain, stash list, index entries, content hash of the working "
               "tree, .git/worktrees listing; plus an empty private TMPDIR",
               "fault points are enumerated completely per repository; repositories are sampled"]
SHARD_TIMEOUT = {"quick": 900, "thorough": 7200}
NO_REACH = False

GIT_KINDS = ["fail", "raise", "int-before", "int-after"]

API = [
    'def f(a, b=1):\n    """Doc of f."""\n    return a\n\n\ndef g():\n    return 1\n',
    'def f(a):\n    """Doc of f."""\n    return a\n\n\ndef g():\n    return 1\n',
    'def f(a):\n    """Doc of f."""\n    return a\n\n\ndef g():\n    return 1\n\n\ndef h(x, *, y=None):\n    return x\n',
]
SUB = 'class K:\n    """K."""\n\n    x: int = 1\n\n    def m(self, y=0):\n        return y\n\n\ndef helper(z):\n    return z\n'


# ------------------------------------------------------------------------------------------
# histories (literal)
def pkg_files(prefix: str, name: str, variant: int) -> dict:
    init = (f'"""Package {name}, API variant {variant}."""\nfrom .sub import helper\nfrom {name}.sub import K as Klass\n'
            f'__all__ = ["f", "g", "helper", "Klass"]\n\n\n' + API[variant])
    return {f"{prefix}{name}/__init__.py": init, f"{prefix}{name}/sub.py": SUB}


def gen_history(rng: random.Random, tag: str) -> dict:
    name = f"vfgit{tag}"
    layout = rng.choice(["flat", "flat", "src"])
    prefix = "src/" if layout == "src" else ""
    gitignore = rng.random() < 0.5
    commits = []
    if rng.random() < 0.6:
        commits.append({"files": {"README.md": "readme\n"}, "tags": ["v0.0.0"], "state": "absent"})
    c1 = {"files": {"README.md": "readme v1\n", **pkg_files(prefix, name, 0)}, "tags": ["v0.1.0"], "branches": ["feature/one"],
          "state": 0}
    if gitignore:
        c1["files"][".gitignore"] = "__pycache__/\n*.log\n"
    commits.append(c1)
    commits.append({"files": pkg_files(prefix, name, 1), "tags": ["v0.2.0"], "annotated_tags": ["rel/0.2"],
                    "branches": ["release/0.x/maint"], "state": 1})
    bad_init = dict(pkg_files(prefix, name, 1))
    bad_init[f"{prefix}{name}/__init__.py"] = '"""Broken."""\ndef f(a:\n    return a\n'
    commits.append({"files": bad_init, "tags": ["broken-init"], "state": "broken-init"})
    if rng.random() < 0.5:
        bad_sub = dict(pkg_files(prefix, name, 1))
        bad_sub[f"{prefix}{name}/sub.py"] = "class K:\n    def m(self, y=0:\n        return y\n"
        commits.append({"files": bad_sub, "tags": ["broken-sub"], "state": "broken-sub"})
    last_variant = rng.choice([1, 2])
    commits.append({"files": pkg_files(prefix, name, last_variant), "state": last_variant,
                    "tags": ["v0.3.0"] if rng.random() < 0.5 else []})
    i1 = commits.index(c1)
    hist = {
        "name": name, "layout": layout, "gitignore": gitignore, "commits": commits,
        "dirname": rng.choice(["proj", "my proj", "r\u00e9po", "proj.git-x"]),
        "side": [{"branch": "topic/deep/er", "from": i1, "files": pkg_files(prefix, name, 2), "state": 2}],
        "head": rng.choice([{"mode": "branch", "at": "main"}, {"mode": "branch", "at": "main"},
                            {"mode": "branch", "at": "release/0.x/maint"}, {"mode": "detached", "at": "v0.2.0"},
                            {"mode": "detached", "at": "main~1"}]),
        "dirty": {"README.md": "readme with a local edit\n"},
        "untracked": {"notes/todo.txt": "remember\n", f"{prefix}{name}/scratch_untracked.py": "X = 1\n"},
        "staged": {"setup.cfg": "[metadata]\nname = x\n"} if rng.random() < 0.6 else {},
        "stash": {"README.md": "stashed edit\n"} if rng.random() < 0.4 else {},
        "pre_branches": rng.choice([[], [], ["griffe-v0-1-0"], ["griffe-v0-1-0", "griffe-topic-deep-er"]]),
        "worktrees": [{"branch": "wt/live", "dir": "user worktree", "at": "v0.2.0"}] if rng.random() < 0.4 else [],
    }
    return hist


def ref_table(hist: dict) -> list[dict]:
    """Ref forms and the commit state each one designates."""
    commits = hist["commits"]
    idx = {t: i for i, c in enumerate(commits) for t in c.get("tags", []) + c.get("annotated_tags", []) + c.get("branches", [])}
    out = [{"ref": {"name": n}, "state": commits[i]["state"], "commit": i} for n, i in idx.items()]
    out.append({"ref": {"name": "topic/deep/er"}, "state": 2, "commit": None, "side": 0})
    out.append({"ref": {"name": "main"}, "state": commits[-1]["state"], "commit": len(commits) - 1})
    out.append({"ref": {"name": "main~1"}, "state": commits[-2]["state"], "commit": len(commits) - 2})
    i1 = idx["v0.1.0"]
    out.append({"ref": {"sha_of": i1, "short": False}, "state": 0, "commit": i1})
    out.append({"ref": {"sha_of": idx["v0.2.0"], "short": True}, "state": 1, "commit": idx["v0.2.0"]})
    head = hist["head"]["at"]
    for r in list(out):
        if r["ref"].get("name") == head:
            out.append({"ref": {"name": "HEAD"}, "state": r["state"], "commit": r["commit"]})
            break
    return out


def files_at(hist: dict, entry: dict) -> dict:
    files: dict = {}
    upto = entry["commit"] if entry.get("commit") is not None else hist["side"][entry["side"]]["from"]
    for c in hist["commits"][: upto + 1]:
        files.update(c["files"])
    if entry.get("commit") is None:
        files.update(hist["side"][entry["side"]]["files"])
    return {k: v for k, v in files.items() if v is not None}


def normalize(ref: str) -> str:
    import re
    import unicodedata

    value = unicodedata.normalize("NFKC", ref)
    value = re.sub(r"[^\w]+", "-", value)
    return re.sub(r"[-\s]+", "-", value).strip("-")


# ------------------------------------------------------------------------------------------
# extension failpoints (M-EXT as failpoint carrier)
def make_extension(fault: dict | None, state: dict):  # noqa: ANN201
    import griffe

    def tick(self, event, kwargs):  # noqa: ANN001, ANN202
        state["events"] += 1
        if fault is None:
            return
        if fault["type"] == "ext" and state["events"] == fault["n"]:
            state["fired"] = event
            if fault["exc"] == "RuntimeError":
                raise RuntimeError(f"injected failure of an extension at event {fault['n']} ({event})")
            if fault["exc"] == "KeyboardInterrupt":
                raise KeyboardInterrupt
            if fault["exc"] == "SIGINT":
                signal.raise_signal(signal.SIGINT)
                for _ in range(1000):  # the interpreter delivers the pending interrupt at a bytecode boundary
                    pass
        if fault["type"] == "ext-rmtree" and event == "on_package_loaded" and not state.get("fired"):
            fp = kwargs["pkg"].filepath
            if not isinstance(fp, list):
                loc = Path(fp)
                while loc.parent != loc and not loc.parent.name.startswith("griffe-worktree-"):
                    loc = loc.parent
                if loc.parent != loc:
                    shutil.rmtree(loc)
                    state["fired"] = "removed the checkout directory"
                    if fault.get("then") == "raise":
                        raise RuntimeError("injected failure after the checkout directory vanished")
        if fault["type"] == "ext-write" and event == "on_package_loaded" and not state.get("fired"):
            pkg = kwargs["pkg"]
            fp = pkg.filepath
            if not isinstance(fp, list):
                target = Path(fp).parent / fault["name"]
                target.write_text("written by an extension\n")
                state["fired"] = str(target)

    ns = {}
    for name in dir(griffe.Extension):
        if name.startswith("on_"):
            ns[name] = (lambda ev: lambda self, **kw: tick(self, ev, kw))(name)
    return type("VfFailpointExtension", (griffe.Extension,), ns)()


# ------------------------------------------------------------------------------------------
class Ctx:
    def __init__(self, rec) -> None:  # noqa: ANN001
        self.rec = rec
        self.base = os.path.realpath(tempfile.mkdtemp(prefix="vf-c20-"))
        self.serial = 0
        self.child_tmp = os.environ.get("TMPDIR")
        gs.export_env()
        signal.signal(signal.SIGINT, signal.default_int_handler)


class Repo:
    """A pristine build of a history plus a working copy that is re-copied whenever a case changed it."""

    def __init__(self, ctx: Ctx, hist: dict) -> None:
        self.ctx = ctx
        self.hist = hist
        ctx.serial += 1
        self.home = os.path.join(ctx.base, f"h{ctx.serial}")
        self.pristine = os.path.join(self.home, "pristine", hist["dirname"])
        os.makedirs(os.path.dirname(self.pristine))
        gs.build_repo(hist, self.pristine)
        self.path = os.path.join(self.home, "user", hist["dirname"])
        self.before: dict | None = None
        self.fresh()

    def fresh(self) -> None:
        shutil.rmtree(os.path.dirname(self.path), ignore_errors=True)
        os.makedirs(os.path.dirname(self.path))
        gs.copy_repo(self.pristine, self.path)
        for wt in self.hist.get("worktrees", []):  # the user's own linked worktrees (absolute paths: created after the copy)
            gs.git(self.path, "worktree", "add", "-q", "-b", wt["branch"], os.path.join(os.path.dirname(self.path), wt["dir"]), wt["at"])
        self.before = gs.snapshot(self.path)

    def add_stale_worktree(self) -> None:
        """The user once had a linked worktree and deleted its directory by hand: git keeps a prunable entry."""
        loc = os.path.join(os.path.dirname(self.path), "old-worktree")
        gs.git(self.path, "worktree", "add", "-q", "-b", "wt/stale", loc, "main~1")
        shutil.rmtree(loc)
        self.before = gs.snapshot(self.path)

    def resolve(self, ref: dict) -> str:
        if "name" in ref:
            return ref["name"]
        n = len(self.hist["commits"]) - 1 - ref["sha_of"]
        sha = gs.git(self.path, "rev-parse", f"main~{n}").strip()
        return sha[:9] if ref.get("short") else sha

    def remove(self) -> None:
        shutil.rmtree(self.home, ignore_errors=True)


@contextlib.contextmanager
def bytecode_window(allowed_prefix: str, blocked: list):
    """Behave like a user's interpreter (bytecode writing on) but never let a .pyc land outside the scratch area."""
    import importlib.machinery as mach

    orig = mach.SourceFileLoader.set_data

    def guarded(self, path, data, *, _mode=0o666):  # noqa: ANN001, ANN202
        if os.path.realpath(path).startswith(allowed_prefix):
            return orig(self, path, data, _mode=_mode)
        blocked.append(path)
        return None

    prev = sys.dont_write_bytecode
    mach.SourceFileLoader.set_data = guarded
    sys.dont_write_bytecode = False
    try:
        yield
    finally:
        sys.dont_write_bytecode = prev
        mach.SourceFileLoader.set_data = orig


def walk(obj, seen=None):  # noqa: ANN001
    seen = seen if seen is not None else set()
    if id(obj) in seen:
        return
    seen.add(id(obj))
    yield obj
    for m in obj.members.values():
        if not m.is_alias:
            yield from walk(m, seen)


def usability(rec, result, hist: dict, expected_files: dict | None, inspected: bool) -> list[str]:  # noqa: ANN001
    """The returned objects must be fully usable after the temporary checkout is gone."""
    problems = []
    rec.count("usability_probes")
    try:
        top = result.package if hasattr(result, "package") else result
        for o in walk(top):
            _ = o.source
            _ = o.lines
            if o.docstring is not None:
                _ = o.docstring.value
        doc = json.loads(top.as_json(full=True))
        if not doc.get("members"):
            problems.append("as_json(full=True) of the returned package has no members")
        if expected_files is not None:
            prefix = "src/" if hist.get("layout") == "src" else ""
            want = expected_files[f"{prefix}{hist['name']}/__init__.py"].splitlines()
            rec.count("source_lines_compared")
            if top.lines != want:
                problems.append(f"module lines differ from the file at that ref: {top.lines[:3]!r} vs {want[:3]!r}")
            f = top.members.get("f")
            if f is not None and not inspected:
                rec.count("source_lines_compared")
                if not f.source.startswith("def f(") or '"""Doc of f."""' not in f.source:
                    problems.append(f"source of f not available after cleanup: {f.source[:80]!r}")
            fp = top.filepath
            if not isinstance(fp, list) and os.path.exists(fp):
                problems.append(f"temporary checkout still on disk: {fp}")
    except Exception as exc:  # noqa: BLE001
        problems.append(f"returned object not usable after cleanup: {type(exc).__name__}: {exc}"[:300])
    return problems


# ------------------------------------------------------------------------------------------
def classify(op: dict, diff: dict, leftovers: list, fp: gs.GitFailpoints, before: dict | None) -> tuple[str | None, list[str]]:
    """Mechanism classifiers for listed findings: predicates over the operation, the observed git trace and the diff."""
    tried = ["C20-unclean-worktree-leak", "C20-interrupt-after-worktree-add", "C20-prune-drops-user-stale-worktree"]
    if leftovers or not diff:
        return None, tried
    if set(diff) <= {"worktree-list", "admin-worktrees"} and before is not None:
        # the only change: worktree entries that were ALREADY prunable before the operation are gone, and the
        # repository-wide `git worktree prune` of the cleanup ran successfully
        wl = diff.get("worktree-list", {"added": [], "removed": []})
        adm = diff.get("admin-worktrees", {"added": [], "removed": []})
        stale_paths = set()
        lines = before["worktree-list"]
        for i, line in enumerate(lines):
            if line.startswith("prunable"):
                j = i
                while j >= 0 and not lines[j].startswith("worktree "):
                    j -= 1
                stale_paths.add(lines[j])
        removed_entries = [x for x in wl["removed"] if x.startswith("worktree ")]
        pruned = any(e["cmd"] == "worktree prune" and e["status"] == 0 for e in fp.cleanup_issued())
        if (pruned and not wl["added"] and not adm["added"] and removed_entries and set(removed_entries) <= stale_paths
                and len(adm["removed"]) == len(removed_entries)):
            return "C20-prune-drops-user-stale-worktree", tried
        return None, tried
    # both mechanisms leave exactly: temporary branch(es) griffe-* and prunable worktree entries; nothing else may differ
    allowed_keys = {"for-each-ref", "worktree-list", "admin-worktrees"}
    if set(diff) - allowed_keys:
        return None, tried
    fer = diff.get("for-each-ref", {"added": [], "removed": []})
    if fer["removed"] or not all(x.startswith("refs/heads/griffe-") for x in fer["added"]):
        return None, tried
    wl = diff.get("worktree-list", {"added": [], "removed": []})
    if wl["removed"] or diff.get("admin-worktrees", {"removed": []})["removed"]:
        return None, tried
    removes = [e for e in fp.cleanup_issued() if e["cmd"] == "worktree remove"]
    if removes and any(e["status"] != 0 for e in removes) and fp.unclean_before_remove:
        return "C20-unclean-worktree-leak", tried
    fault = op.get("fault") or {}
    if (fault.get("type") == "git" and fault.get("kind") == "int-after" and fp.fired and fp.fired["cmd"] == "worktree add"
            and fp.fired.get("status") == 0):
        # no cleanup command may have been issued for that worktree: the interrupt arrived before the try block
        adds = [i for i, e in enumerate(fp.log) if e is fp.fired]
        after = fp.log[adds[0] + 1:] if adds else []
        if not any(e["cleanup"] for e in after):
            return "C20-interrupt-after-worktree-add", tried
    return None, tried


def run_case(ctx: Ctx, repo: Repo, op: dict) -> dict:  # noqa: C901, PLR0912, PLR0915
    """Run one operation (with its fault) against the user's repository and judge it. Returns observations."""
    import _griffe.git as ggit
    import griffe

    rec = ctx.rec
    hist = repo.hist
    case = {"history": hist, "op": op}
    fault = op.get("fault")
    if op.get("pre") == "stale-worktree":
        repo.add_stale_worktree()
        rec.count("user_stale_worktree_cases")
    before = repo.before
    private_tmp = tempfile.mkdtemp(prefix="tmp-", dir=ctx.base)
    os.environ["TMPDIR"] = private_tmp
    tempfile.tempdir = None
    fp = gs.GitFailpoints(fault["at"], fault["kind"]) if fault and fault["type"] == "git" else gs.GitFailpoints()
    ext_state = {"events": 0, "fired": None}
    ext = make_extension(fault if fault and fault["type"].startswith("ext") else None, ext_state)
    ref = repo.resolve(op["ref"]) if op.get("ref") else None
    opts = dict(op.get("opts", {}))
    search = ["src"] if hist.get("layout") == "src" else None
    cwd = os.getcwd()
    repo_arg: object = repo.path
    if op.get("repo_form") == "path":
        repo_arg = Path(repo.path)
    elif op.get("repo_form") == "dot" or op["op"] == "check":
        os.chdir(repo.path)
        if op["op"] != "check":
            repo_arg = "."
    result = None
    exc: BaseException | None = None
    blocked: list = []
    real_sub = ggit.subprocess
    ggit.subprocess = fp
    # the scratch area lives below the child's TMPDIR, which is also sys.path[0] of `python -m vf.child`; a user's
    # repository does not sit below an import path entry, so such entries are hidden while the operation runs
    saved_path = list(sys.path)
    sys.path[:] = [p for p in sys.path if not (ctx.base + os.sep).startswith(os.path.join(os.path.realpath(p or cwd), ""))]
    stderr = io.StringIO()
    try:
        with case_watchdog(300), contextlib.ExitStack() as stack:
            if op.get("bytecode"):
                stack.enter_context(bytecode_window(ctx.base, blocked))
            try:
                if op["op"] == "load_git":
                    result = griffe.load_git(op.get("objspec", hist["name"]), ref=ref, repo=repo_arg, search_paths=search,
                                             extensions=griffe.load_extensions(ext), **opts)
                else:
                    from _griffe import cli

                    against = repo.resolve(op["against"]) if op.get("against") else None
                    base_ref = repo.resolve(op["base_ref"]) if op.get("base_ref") else None
                    with contextlib.redirect_stderr(stderr):
                        try:
                            result = cli.check(hist["name"], against, base_ref=base_ref, extensions=[ext], search_paths=search,
                                               **opts)
                        finally:
                            import colorama

                            colorama.deinit()
            except BaseException as e:  # noqa: BLE001
                if type(e).__name__ in ("CaseTimeout", "StepBudgetExceeded"):
                    raise
                exc = e
    finally:
        ggit.subprocess = real_sub
        sys.path[:] = saved_path
        os.chdir(cwd)
        for k in [k for k in sys.modules if k.partition(".")[0] == hist["name"]]:
            del sys.modules[k]
        if ctx.child_tmp is None:
            os.environ.pop("TMPDIR", None)
        else:
            os.environ["TMPDIR"] = ctx.child_tmp
        tempfile.tempdir = None
    # ---- observe -------------------------------------------------------------------------
    after = gs.snapshot(repo.path)
    rec.count("snapshots_compared")
    diff = gs.snapshot_diff(before, after)
    leftovers = sorted(os.listdir(private_tmp))
    rec.count("tmpdir_listings_checked")
    shutil.rmtree(private_tmp, ignore_errors=True)
    for e in fp.log:
        rec.add_to_set("git_commands_and_statuses", f"{e['cmd']} -> {e.get('status')}" + (f" [{e['fault']}]" if e.get("fault") else "")
                       + (" then KeyboardInterrupt" if e.get("then") else ""))
        if e["cleanup"]:
            rec.count("cleanup_commands_observed")
    worktree_existed = any(e["cmd"] == "worktree add" and e.get("status") == 0 for e in fp.log)
    fault_fired = False
    if fault:
        if fault["type"] == "git":
            fault_fired = fp.fired is not None
            if fault_fired:
                rec.count("git_step_faults_fired")
                rec.add_to_set("fault_points", f"{op['op']}{'+base_ref' if op.get('base_ref') else ''}: git step {fault['at']} "
                                               f"({fp.fired['cmd']}) {fault['kind']}")
                if fault["kind"].startswith("int"):
                    rec.count("interrupts_delivered")
        elif fault["type"] == "ext":
            fault_fired = bool(ext_state["fired"])
            if fault_fired:
                rec.count("extension_faults_fired")
                rec.add_to_set("fault_points", f"{op['op']}: extension {fault['exc']} at event n (all n enumerated)")
                rec.maximum("max_extension_fault_index", fault["n"])
                if fault["exc"] != "RuntimeError":
                    rec.count("interrupts_delivered")
                if fault["exc"] == "SIGINT" and isinstance(exc, KeyboardInterrupt):
                    rec.count("sigint_delivered")
        elif fault["type"] == "ext-rmtree":
            fault_fired = bool(ext_state["fired"])
            if fault_fired:
                rec.count("checkout_vanished_cases")
            rec.add_to_set("fault_points", f"{op['op']}: the checkout directory vanishes during the load (removed by an extension), "
                                           f"then {fault.get('then', 'return')}")
        else:
            fault_fired = bool(ext_state["fired"])
            rec.add_to_set("fault_points", f"{op['op']}: extension writes {'an ignored' if fault['name'].endswith('.log') else 'an untracked'} file into the checkout")
    if fp.unclean_before_remove and any("__pycache__" in x or x.endswith(".pyc") for x in fp.unclean_before_remove):
        rec.count("bytecode_written_in_worktree")
    if blocked:
        rec.count("bytecode_writes_outside_scratch_blocked", len(blocked))
        rec.note(f"bytecode write outside the scratch area was blocked by the harness guard: {blocked[0]}")
    outcome = "returned" if exc is None else type(exc).__name__
    rec.add_to_set(f"outcomes[{op['op']}:{op.get('expect', 'ok')}{':' + fault['type'] if fault else ''}]", outcome)
    nontrivial = bool(fault and fault_fired and worktree_existed and (fault["type"] != "git" or _after_worktree(fp)))
    if nontrivial:
        rec.count("faults_after_worktree_exists")
    # ---- judge ---------------------------------------------------------------------------
    problems: list[tuple[str, object]] = []
    if diff:
        problems.append(("the user's repository differs after the operation: " + ", ".join(sorted(diff)), diff))
    if leftovers:
        problems.append((f"TMPDIR is not empty afterwards: {leftovers[:4]}", leftovers))
    expect = op.get("expect", "ok")
    if not fault or not fault_fired:
        if expect == "ok" and exc is not None:
            problems.append((f"operation on a valid reference failed: {type(exc).__name__}: {exc}"[:300], None))
        if expect != "ok" and exc is None and op["op"] == "load_git" and expect != "broken-sub":
            problems.append((f"operation expected to fail ({expect}) returned normally", None))
    if exc is None and op["op"] == "load_git" and result is not None:
        exp_files = files_at(hist, op["entry"]) if op.get("entry") and expect in ("ok",) else None
        for p in usability(rec, result, hist, exp_files, bool(opts.get("force_inspection"))):
            problems.append((p, None))
        rec.count("successful_loads")
    if op["op"] == "check":
        rec.count("check_runs")
        if exc is None:
            rec.add_to_set("check_exit_codes", str(result))
            if result not in (0, 1, 2):
                problems.append((f"check() returned {result!r}, not an exit code", None))
            if ctx.base in stderr.getvalue():
                rec.count("check_output_mentions_temporary_checkout")
    for key, name in (("unknown-ref", "unknown_ref_cases"), ("absent", "absent_package_cases"),
                      ("broken-init", "syntax_error_cases"), ("broken-sub", "syntax_error_cases"),
                      ("pre-existing-branch", "preexisting_branch_cases")):
        if expect == key:
            rec.count(name)
    obs = {"outcome": outcome, "error": (str(exc)[:300] if exc else None), "diff": diff, "tmpdir": leftovers,
           "git_trace": fp.log, "unclean_before_remove": fp.unclean_before_remove, "events": ext_state["events"]}
    tags = (op["op"], "fault:" + (fault["type"] if fault else "none"))
    if problems:
        fid, tried = classify(op, diff, leftovers, fp, before) if len(problems) == 1 and diff else (None, [])
        rec.fail(case, problems[0][0], observed=obs, expected="repository snapshot and TMPDIR identical before/after; "
                 "returned objects usable", finding=fid, tried=tried, nontrivial=True, tags=tags)
        repo.fresh()
    else:
        rec.ok(case, nontrivial=nontrivial, tags=tags)
        repo.before = after
        if op.get("pre"):
            repo.fresh()
    obs["problems"] = [p[0] for p in problems]
    return obs


def _after_worktree(fp: gs.GitFailpoints) -> bool:
    """True when the fired git fault came at or after a successful `worktree add`."""
    for e in fp.log:
        if e["cmd"] == "worktree add" and e.get("status") == 0:
            return True
        if e is fp.fired:
            return False
    return False


# ------------------------------------------------------------------------------------------
# enumeration of operations x faults for one history
def enumerate_static_ops(hist: dict, rng: random.Random) -> list[dict]:
    table = ref_table(hist)
    pre = set(hist["pre_branches"])
    ops: list[dict] = []
    opt_cycle = [{}, {"resolve_aliases": True}, {"submodules": False}, {"docstring_parser": "google"},
                 {"resolve_aliases": True, "resolve_implicit": True, "resolve_external": False}, {"allow_inspection": False}]
    forms = ["str", "path", "dot"]
    good = None
    for i, entry in enumerate(table):
        name = entry["ref"].get("name")
        state = entry["state"]
        expect = "ok" if isinstance(state, int) else state
        if name and "griffe-" + normalize(name) in pre:
            expect = "pre-existing-branch"
        op = {"op": "load_git", "ref": entry["ref"], "opts": opt_cycle[i % len(opt_cycle)], "repo_form": forms[i % 3],
              "expect": expect, "entry": entry}
        ops.append(op)
        if expect == "ok" and name and good is None and "/" in name:
            good = entry
    good = good or next(e for e in table if isinstance(e["state"], int) and "griffe-" + normalize(e["ref"].get("name", "x")) not in pre
                        and "name" in e["ref"])
    hist_good = {"ref": good["ref"], "entry": good}
    # git-step faults of load_git
    for at in (1, 2):
        for kind in GIT_KINDS:
            ops.append({"op": "load_git", **hist_good, "fault": {"type": "git", "at": at, "kind": kind}, "expect": "ok"})
    ops.append({"op": "load_git", "ref": {"name": "no/such-ref"}, "expect": "unknown-ref"})
    ops.append({"op": "load_git", "ref": {"name": "v9.9.9"}, "expect": "unknown-ref", "repo_form": "dot"})
    ops.append({"op": "load_git", **hist_good, "objspec": "vf_no_such_package", "expect": "absent"})
    # inspection: without, then with bytecode writing (the default of a real interpreter)
    ops.append({"op": "load_git", **hist_good, "opts": {"force_inspection": True}, "expect": "ok"})
    ops.append({"op": "load_git", **hist_good, "opts": {"force_inspection": True}, "bytecode": True, "expect": "ok"})
    ops.append({"op": "load_git", **hist_good, "opts": {"force_inspection": True, "resolve_aliases": True}, "bytecode": True,
                "repo_form": "dot", "expect": "ok"})
    # the same ref again: a leak of the previous case would make this one fail
    ops.append({"op": "load_git", **hist_good, "expect": "ok"})
    ops.append({"op": "load_git", **hist_good, "fault": {"type": "ext-write", "name": "notes-from-extension.txt"}, "expect": "ok"})
    ops.append({"op": "load_git", **hist_good, "fault": {"type": "ext-write", "name": "debug.log"}, "expect": "ok"})
    ops.append({"op": "load_git", **hist_good, "expect": "ok"})
    # the checkout directory disappears under the loader (the only situation in which `worktree prune` has work to do)
    ops.append({"op": "load_git", **hist_good, "fault": {"type": "ext-rmtree", "then": "return"}, "expect": "ok"})
    ops.append({"op": "load_git", **hist_good, "fault": {"type": "ext-rmtree", "then": "raise"}, "expect": "ok"})
    ops.append({"op": "load_git", **hist_good, "expect": "ok"})
    # the user's repository has a stale (prunable) worktree entry of its own
    ops.append({"op": "load_git", **hist_good, "pre": "stale-worktree", "expect": "ok"})
    ops.append({"op": "load_git", **hist_good, "pre": "stale-worktree", "fault": {"type": "ext", "n": 1, "exc": "RuntimeError"}, "expect": "ok"})
    ops.append({"op": "load_git", **hist_good, "pre": "stale-worktree", "fault": {"type": "git", "at": 2, "kind": "fail"}, "expect": "ok"})
    return ops


def check_ops(hist: dict, tier: str) -> list[dict]:
    pre = set(hist["pre_branches"])
    old = {"name": "v0.1.0"} if "griffe-v0-1-0" not in pre else {"name": "feature/one"}
    variants = [{"against": old, "base_ref": None}, {"against": old, "base_ref": {"name": "release/0.x/maint"}},
                {"against": None, "base_ref": None}, {"against": {"name": "rel/0.2"}, "base_ref": {"name": "main"}}]
    head_state = None
    for e in ref_table(hist):
        if e["ref"].get("name") == "HEAD":
            head_state = e["state"]
    last_tag_state = [c["state"] for c in hist["commits"] if c.get("tags") or c.get("annotated_tags")][-1]
    ops = []
    for v in variants:
        expect = "ok"
        if v["against"] is None and not isinstance(last_tag_state, int):
            expect = str(last_tag_state)
        if v["base_ref"] is None and not isinstance(head_state, int):
            expect = str(head_state)
        if v["base_ref"] and v["base_ref"]["name"] == "main" and not isinstance(hist["commits"][-1]["state"], int):
            expect = "broken"
        base = {"op": "check", **v, "expect": expect}
        ops.append(dict(base))
        nsteps = (1 if v["against"] is None else 0) + 1 + 2 + (2 if v["base_ref"] else 0)
        for at in range(1, nsteps + 1):
            for kind in GIT_KINDS:
                ops.append({**base, "fault": {"type": "git", "at": at, "kind": kind}})
    return ops


def ext_fault_ops(hist: dict, base_op: dict, trace_len: int, tier: str) -> list[dict]:
    ops = []
    for n in range(1, trace_len + 1):
        ops.append({**base_op, "fault": {"type": "ext", "n": n, "exc": "RuntimeError"}})
        if tier == "thorough" or n % 3 == 1 or n == trace_len:
            ops.append({**base_op, "fault": {"type": "ext", "n": n, "exc": "KeyboardInterrupt"}})
        if n % 7 == 3 or n == trace_len:
            ops.append({**base_op, "fault": {"type": "ext", "n": n, "exc": "SIGINT"}})
    return ops


def run_history(ctx: Ctx, hist: dict, rng: random.Random, tier: str) -> None:
    repo = Repo(ctx, hist)
    try:
        ops = enumerate_static_ops(hist, rng)
        trace_len = None
        base_for_ext = None
        for op in ops:
            obs = run_case(ctx, repo, op)
            if (trace_len is None and op.get("expect") == "ok" and not op.get("fault") and not op.get("opts")
                    and obs["outcome"] == "returned"):
                trace_len = obs["events"]
                base_for_ext = {k: v for k, v in op.items() if k not in ("fault",)}
        if trace_len is None:
            good = next(o for o in ops if o.get("expect") == "ok" and not o.get("fault"))
            base_for_ext = {"op": "load_git", "ref": good["ref"], "entry": good["entry"], "expect": "ok"}
            trace_len = run_case(ctx, repo, base_for_ext)["events"]
        ctx.rec.maximum("extension_trace_length", trace_len)
        for op in ext_fault_ops(hist, base_for_ext, trace_len, tier):
            run_case(ctx, repo, op)
        cops = check_ops(hist, tier)
        check_trace = None
        for op in cops:
            obs = run_case(ctx, repo, op)
            if check_trace is None and not op.get("fault") and op.get("base_ref") and obs["outcome"] == "returned":
                check_trace = (obs["events"], {k: v for k, v in op.items() if k != "fault"})
        if check_trace:
            total, base = check_trace
            for n in sorted({1, max(1, total // 4), max(1, total // 2), max(1, (3 * total) // 4), total}):
                for kind in ("RuntimeError", "KeyboardInterrupt"):
                    run_case(ctx, repo, {**base, "fault": {"type": "ext", "n": n, "exc": kind}})
    finally:
        repo.remove()


# ------------------------------------------------------------------------------------------
def shards(tier: str, seed: int) -> list[dict]:  # noqa: ARG001
    if tier == "quick":
        return [{"histories": 1} for _ in range(16)]
    return [{"histories": 7} for _ in range(32)]


def run_shard(spec: dict, rec) -> None:  # noqa: ANN001
    rng = random.Random(spec["seed"])
    ctx = Ctx(rec)
    try:
        for h in range(spec["histories"]):
            hist = gen_history(rng, f"{spec['seed'] % 100003}s{spec['shard']}h{h}")
            run_history(ctx, hist, rng, spec["tier"])
    finally:
        shutil.rmtree(ctx.base, ignore_errors=True)


def replay_one(inp: dict, rec) -> dict:  # noqa: ANN001
    ctx = Ctx(rec)
    try:
        repo = Repo(ctx, inp["history"])
        try:
            for pre_op in inp.get("before", []):
                run_case(ctx, repo, pre_op)
            return run_case(ctx, repo, inp["op"])
        finally:
            repo.remove()
    finally:
        shutil.rmtree(ctx.base, ignore_errors=True)


def run_replay(inp: dict, rec) -> None:  # noqa: ANN001
    replay_one(inp, rec)


def run_pinned(findings: list[dict], rec) -> dict:  # noqa: ANN001
    from vf.core.rec import Recorder

    out = {}
    for f in findings:
        sub = Recorder(PROP, {})
        obs = replay_one(f["witness"], sub)
        reproduced = bool(sub.n_fail or sub.known)
        matched = f["id"] in sub.known
        detail = "; ".join(obs.get("problems", [])) or "passes"
        if reproduced and not matched:
            detail = "fails, but not by the listed mechanism: " + detail
        out[f["id"]] = {"reproduced": reproduced, "detail": detail[:300]}
    return out
