"""C20 — Loading from Git leaves repository and filesystem untouched on every path.

Workload: generated histories in scratch repositories (4-6 commits: package absent, two API versions, a commit
whose ``__init__`` has a syntax error, optionally one whose submodule has; lightweight and annotated tags, tags and
branches with slashes, a side branch; the user's tree has a modified tracked file, a staged file, untracked
files, optionally a stash, a detached HEAD, a pre-existing ``griffe-<ref>`` branch).  Around every
``load_git`` / ``check`` the repository is snapshotted (HEAD, symbolic ref, all refs, porcelain-v2 status, worktree
list, stash list, index entries, content hash of the working tree, ``.git/worktrees``) and a private ``TMPDIR`` is
listed.  Faults are *enumerated*: every git step before the load fails / cannot start / is interrupted before or
after it ran; unknown ref; absent package; syntax errors; an extension raising (exception, KeyboardInterrupt, a
real SIGINT) at its n-th event for every n of the recorded trace; dynamic analysis with bytecode writing on; an
extension writing into the checkout; ``check()`` with and without ``base_ref``.

Histories also carry tracked symbolic links (a module that is a link to a sibling module, retargeted between refs and
turning into a regular file; a sub-package reachable through a link to its directory; a module that is a link, through a
second link, to a file outside the package; a dangling link), modules whose file names / identifiers / docstrings are not
ASCII, and every module text differs between refs.  The repository is also reached through a symbolic link and TMPDIR may
be one.  "Remain fully usable" is judged statefully: ``lines`` / ``source`` / ``docstring.source`` of EVERY object of every
returned package (and of the packages ``check()`` worked on, captured by the extension) are compared with the blobs git
stores at the commit the reference designated before the call (spans from CPython's ``ast``), after the checkout is gone,
again while a later load of another ref is in progress (inside its ``on_package_loaded``), and after every later
operation, faulted ones included.  The package being loaded is never read inside its own checkout's lifetime (that could
fill caches and hide a dependency on the checkout).

Repository content also includes stubs: ``.pyi`` beside a module, ``__init__.pyi``, a stub-only in-package module, and a
``<pkg>-stubs`` package (stubs of existing modules, a stub-only module, a stub-only sub-package, a stub module that is a
tracked link), all differing between refs; loads use ``find_stubs_package`` True/False, ``submodules`` True/False, several
``docstring_parser`` values, and ``tmp_worktree`` + ``load(store_source=True/False)`` directly (``load_git`` has no
``store_source``).  Stub-originated objects are judged against the ``.pyi`` blob; a docstring merged from stubs onto a
concrete object against the ``.pyi`` it was written in; with ``store_source=False`` the expectation after cleanup is
``lines == []`` and ``source == ""`` for every object, without an exception.
"""
from __future__ import annotations

import contextlib
import io
import json
import os
import random
import shutil
import signal
import sys
import tempfile
from pathlib import Path

from vf.core.util import case_watchdog
from vf.mon import gitstate as gs

PROP = "C20"
LEVEL = "fault_enumeration"
ANCHORS = ["git.py", "loader.py", "cli.py", "diff.py"]
RULE = ("seeded scratch repositories (4-6 commits incl. package-absent, two API versions, syntax-error commits; lightweight / "
        "annotated / slashed tags, slashed branches, a side branch; dirty tracked file, staged file, untracked files, "
        "optional stash, detached-HEAD variants, optional pre-existing griffe-<ref> branch, optional linked worktree of the user, repository directory names "
        "with a space or non-ASCII letter, flat and src layouts); per repository the operation x fault space is "
        "enumerated: successful load_git of every ref form (tag, annotated slashed tag, slashed branches, side branch, "
        "HEAD, main~1, full and short sha); each git step of load_git/check before the load x {non-zero status, OSError, "
        "KeyboardInterrupt before, KeyboardInterrupt after}; unknown ref; absent package; syntax error in __init__ / in a "
        "submodule; extension raising RuntimeError at event n for EVERY n of the recorded trace, KeyboardInterrupt at "
        "every n (every 3rd n in the quick tier) and a real SIGINT at every 7th n; forced inspection without and with "
        "bytecode writing; an extension writing an untracked / an ignored file into the checkout; the checkout directory "
        "vanishing during the load; a stale (prunable) worktree entry of the user's own in the repository; check() with explicit "
        "and implicit `against`, with and without base_ref, each with all git-step faults and extension faults at three "
        "trace positions. Every history has tracked symbolic links (module -> sibling module, retargeted between refs and a "
        "regular file in the last API variant; directory link to a sub-package; module -> link -> file outside the package; "
        "dangling link), often a module with a non-ASCII file name, identifiers and docstrings, module texts that differ "
        "between refs, an untracked link / non-ASCII untracked module in the user's tree; the repository path is also given "
        "as a symbolic link and TMPDIR is a symbolic link in a third of the histories; two loads share one caller-supplied "
        "lines collection. The last two successful results are kept alive: lines / source / docstring.source of every "
        "object are compared with git's blobs at the pre-resolved commit after cleanup, inside the next loads "
        "(on_package_loaded, another checkout alive) and after every later operation; check()'s packages are captured by "
        "the extension and judged the same way (the working-tree package against the files on disk). In the quick tier a "
        "trace longer than 56 events is faulted at its first and last ten events and 36 evenly spread positions. "
        "Six of seven histories carry stubs, different at every ref: .pyi beside a module + __init__.pyi (absent at one "
        "variant) + a stub-only in-package module, and/or a <pkg>-stubs package with stubs of existing modules, a stub-only "
        "module, a stub-only sub-package and (one variant) a stub module that is a tracked link; load options cycle over "
        "find_stubs_package True/False x submodules True/False x docstring_parser (none, google, numpy, sphinx) x "
        "resolve_aliases / allow_inspection; check() runs with and without find_stubs_package; tmp_worktree + "
        "load(store_source=True|False) is used directly (load_git has no store_source); the load whose extension events are "
        "faulted uses find_stubs_package when the history has a stubs package. "
        "distinct = (history, operation, fault); non-trivial = the fault fires after the temporary worktree exists")
LEVEL_TEXT = ("For every generated repository every enumerated fault point of load_git/check is exercised once and the "
              "repository snapshot and the private TMPDIR listing are compared before/after; the cleanup commands themselves "
              "are never made to fail and never interrupted (domain restriction of the design). Histories are sampled (seeded).")
LEVEL_NOTE = ("trusted: git 2.39 plumbing used for the snapshots (run with GIT_OPTIONAL_LOCKS=0 so that the monitor itself never "
              "writes the index); failpoints are placed on _griffe.git's view of subprocess only; faults no in-process code can "
              "survive (SIGKILL, power loss) are out of reach; the three cleanup commands are never failed nor interrupted")
TECHNIQUE = ("runtime monitoring: repository / filesystem snapshots around the real load_git and check, with enumerated failpoints "
             "on git subprocess steps and on extension events (incl. real SIGINT)")
REQUIRED_COUNTERS = ["snapshots_compared", "tmpdir_listings_checked", "git_step_faults_fired", "extension_faults_fired",
                     "interrupts_delivered", "sigint_delivered", "usability_probes", "source_lines_compared",
                     "check_runs", "cleanup_commands_observed", "bytecode_written_in_worktree", "checkout_vanished_cases", "user_stale_worktree_cases", "preexisting_branch_cases",
                     "unknown_ref_cases", "absent_package_cases", "syntax_error_cases", "faults_after_worktree_exists",
                     "successful_loads",
                     # sources of returned objects against git's blobs, once the checkout is gone / while another one exists
                     "loaded_packages_verified_after_cleanup", "sources_compared_after_cleanup",
                     "docstring_sources_compared_after_cleanup", "symlinked_sources_compared_after_cleanup",
                     "nonascii_path_sources_compared_after_cleanup", "sources_compared_during_later_load",
                     "symlinked_sources_compared_during_later_load", "held_results_reread", "check_packages_from_refs_verified",
                     "check_packages_from_working_tree_verified", "checkout_commits_observed", "symlinked_tmpdir_cases",
                     "symlinked_repo_path_cases", "loads_into_a_shared_lines_collection",
                     # stub-originated objects and the loader options deciding what is stored
                     "stub_file_sources_compared_after_cleanup", "stub_only_modules_of_a_stubs_package_compared_after_cleanup",
                     "docstrings_taken_from_stubs_compared_after_cleanup", "stub_file_sources_compared_during_later_load",
                     "stub_file_sources_compared_after_later_operations", "loads_without_stored_sources",
                     "objects_read_after_a_load_without_stored_sources"]
EXHAUSTIVE = {"quick": False, "thorough": False}
ASSUMPTIONS = ["the three cleanup commands (worktree remove / worktree prune / branch -D) are never failed nor interrupted; "
               "their real exit statuses are recorded",
               "SIGKILL / power loss are out of reach of any in-process technique",
               "'exactly as it was' is read as equality of: HEAD, symbolic ref, for-each-ref, status --porcelain=v2 "
               "--untracked-files=all, worktree list --porcelain, stash list, index entries, content hash of the working "
               "tree, .git/worktrees listing; plus an empty private TMPDIR",
               "fault points are enumerated completely per repository (quick tier: extension events of a trace longer than "
               "56 are sampled at fixed positions); repositories are sampled",
               "'remain fully usable, including their source lines' is read as: lines / source / docstring.source of every "
               "non-alias object equal the text git stores for the object's file at the commit the reference designated "
               "(symbolic links followed as a checkout would), with spans taken from CPython's ast; objects built by "
               "dynamic inspection are compared over the line numbers they report",
               "tracked links point inside the repository (relative targets); links leaving the repository are not generated",
               "a docstring that the stubs merge put onto a concrete object is judged against the .pyi file of the stub object "
               "it was written for; a stub-only MEMBER moved into a concrete module (griffe attributes it to the .py file "
               "while its line numbers are those of the .pyi, in any kind of load) is compared over the line numbers and file "
               "griffe reports: that mismatch is not specific to Git loading and is left to other properties",
               "store_source=False (only reachable through tmp_worktree + load): after cleanup lines == [] and source == '' "
               "for every object and reading them does not raise; docstring.source is not read in that mode"]
SHARD_TIMEOUT = {"quick": 900, "thorough": 7200}
NO_REACH = False

GIT_KINDS = ["fail", "raise", "int-before", "int-after"]
QUICK_EXT_POINTS = 56

API = [
    'def f(a, b=1):\n    """Doc of f."""\n    return a\n\n\ndef g():\n    return 1\n',
    'def f(a):\n    """Doc of f."""\n    return a\n\n\ndef g():\n    return 1\n',
    'def f(a):\n    """Doc of f."""\n    return a\n\n\ndef g():\n    return 1\n\n\ndef h(x, *, y=None):\n    return x\n',
]
SUB = 'class K:\n    """K."""\n\n    x: int = 1\n\n    def m(self, y=0):\n        return y\n\n\ndef helper(z):\n    return z\n'


# small modules that exist only to be reached through unusual paths; every text differs between the API variants, so
# that a source served from the wrong ref (or from the wrong file) is visible
IMPL = [
    'def run(x):\n    """Run, first shape."""\n    return x\n',
    'def run(x, y=0):\n    """Run, second shape.\n\n    More words.\n    """\n    return x + y\n\n\nLIMIT: int = 3\n"""Doc of LIMIT."""\n',
    'import functools\n\n\n@functools.cache\ndef run(x, y=0, *rest):\n    """Run, third shape."""\n    return x\n\n\nasync def pause(*, seconds=0):\n    return None\n',
]
INNER = [
    'class Inner:\n    """Inner, first."""\n\n    level = 1\n',
    'class Inner:\n    """Inner, second."""\n\n    level = 2\n\n    def up(self):\n        """Up."""\n        return self.level + 1\n',
    '"""Module docstring of inner."""\n\n\nclass Inner:\n    """Inner, third."""\n\n    level = 3\n',
]
NONASCII_STEMS = ["caf\u00e9", "\u043c\u043e\u0434\u0443\u043b\u044c", "\u6a21\u5757_x", "na\u00efve_\u00fc"]
NONASCII = [
    '"""Th\u00e9 \u2603 module."""\n\n\ndef th\u00e9(\u00e5=1):\n    """Sert le th\u00e9 \u2014 \u00e0 17 h."""\n    return \u00e5\n',
    '"""Th\u00e9 \u2603 module, \u4e8c."""\n\n\ndef th\u00e9(\u00e5=1, \u00df=2):\n    """Sert le th\u00e9 \u2014 \u00e0 17 h 30."""\n    return \u00e5\n',
    'def th\u00e9():\n    """\u8336."""\n    return "\U0001f375"\n\n\n\u0394 = 0.5\n"""\u0394 is small."""\n',
]
EXTRA_KINDS = ["module-link", "dir-link", "outside-link", "nonascii", "dangling-link", "inline-stubs", "stubs-package"]


def stub_texts(where: str, v: int) -> dict:
    """Stub (.pyi) texts; ``where`` ('inline' | 'package') and the API variant are written into every text, so that a source
    served from the wrong file or the wrong ref is visible. ``g`` / ``helper`` / ``K.m`` have no docstring in the concrete
    modules: their docstrings come from the stubs and keep pointing into the .pyi file."""
    return {
        "init": (f'def g() -> int:\n    """Doc of g, written in the {where} stubs, variant {v}."""\n\n\n'
                 f'def f(a: int{", b: int = ..." if v == 0 else ""}) -> int: ...\n'),
        "sub": (f'class K:\n    x: int\n\n    def m(self, y: int = ...) -> int:\n        """Doc of m, {where} stubs, variant {v}."""\n\n'
                f'    def only_in_stubs(self) -> None: ...\n\n\ndef helper(z: str) -> str:\n    """Doc of helper, {where} stubs, variant {v}."""\n'),
        "only": (f'"""Compiled helpers ({where} stubs, no concrete module), variant {v}."""\n\n\nclass Buffer:\n    """A buffer, {v}."""\n\n'
                 f'    size: int\n\n    def read(self, n: int = ...) -> bytes:\n        """Read n bytes ({where}, {v})."""\n\n\n'
                 + ("def crc(data: bytes, seed: int = ...) -> int: ...\n" if v == 2 else "def crc(data: bytes) -> int: ...\n")),
        "ext_init": f'"""Stub-only sub-package, variant {v}."""\nLEVEL: int\n"""Doc of LEVEL, {v}."""\n',
        "ext_deep": f'def deep(n: int) -> list[int]:\n    """Deep, variant {v}."""\n',
    }


def extra_files(prefix: str, name: str, variant: int, extras: dict) -> dict:
    """Tracked files beyond the two plain modules. A value ``{"symlink": t}`` is a tracked symbolic link, ``None`` = absent.

    * module-link: an old module name kept alive as a link to a sibling module; the link is retargeted between refs and is
      a regular file in the last variant (the path changes its type).
    * dir-link: a sub-package reachable under two names, one of them a link to the directory.
    * outside-link: a module that is a link to a file outside the package, reached through a second link (a chain).
    * nonascii: a module whose file name, identifiers and docstrings are not ASCII.
    * dangling-link: a tracked link whose target does not exist.
    """
    pk = f"{prefix}{name}/"
    up = "../" * (2 if prefix else 1)
    out: dict = {}
    if "module-link" in extras:
        out[pk + "impl.py"] = None if variant == 0 else IMPL[variant]
        out[pk + "compat.py"] = [{"symlink": "sub.py"}, {"symlink": "impl.py"}, IMPL[0]][variant]
    if "dir-link" in extras:
        real = extras["dir-link"]
        out[pk + real + "/__init__.py"] = f'"""Sub-package, variant {variant}."""\nFLAG = {variant}\n'
        out[pk + real + "/inner.py"] = INNER[variant]
        out[pk + "linked"] = {"symlink": real}
    if "outside-link" in extras:
        out["shared/impl.py"] = IMPL[(variant + 1) % 3]
        out["shared/hop.py"] = {"symlink": "impl.py"}
        out[pk + "outside.py"] = {"symlink": up + "shared/hop.py"} if variant != 1 else {"symlink": up + "shared/impl.py"}
    if "nonascii" in extras:
        out[pk + extras["nonascii"] + ".py"] = NONASCII[variant]
    if "dangling-link" in extras:
        out[pk + "gone.py"] = {"symlink": "nowhere.py"}
    if "inline-stubs" in extras:
        # stubs inside the package: beside a module, for the package itself, and for a module that has no .py at all
        t = stub_texts("inline", variant)
        out[pk + "sub.pyi"] = t["sub"]
        out[pk + "__init__.pyi"] = t["init"] if variant != 1 else None
        out[pk + "_native.pyi"] = t["only"]
    if "stubs-package" in extras:
        # a stubs-only distribution `<pkg>-stubs` next to the package: stubs for existing modules, a stub-only module, a
        # stub-only sub-package, and (one variant) a stub module that is a tracked link to another stub module
        t = stub_texts("package", variant)
        sp = f"{prefix}{name}-stubs/"
        out[sp + "__init__.pyi"] = t["init"]
        out[sp + "sub.pyi"] = t["sub"] if variant != 2 else None
        out[sp + "_speedups.pyi"] = t["only"]
        out[sp + "ext/__init__.pyi"] = t["ext_init"]
        out[sp + "ext/deep.pyi"] = t["ext_deep"]
        out[sp + "_fast.pyi"] = {"symlink": "_speedups.pyi"} if variant == 1 else None
    return out


def pkg_files(prefix: str, name: str, variant: int, extras: dict | None = None) -> dict:
    init = (f'"""Package {name}, API variant {variant}."""\nfrom .sub import helper\nfrom {name}.sub import K as Klass\n'
            f'__all__ = ["f", "g", "helper", "Klass"]\n\n\n' + API[variant])
    return {f"{prefix}{name}/__init__.py": init, f"{prefix}{name}/sub.py": SUB, **extra_files(prefix, name, variant, extras or {})}


def gen_extras(rng: random.Random) -> dict:
    """Which unusual tracked paths a history has: always one kind of link, often a second kind and a non-ASCII name."""
    extras: dict = {}
    kinds = [rng.choice(["module-link", "dir-link", "outside-link"])]
    if rng.random() < 0.35:
        kinds.append(rng.choice(["module-link", "dir-link", "outside-link"]))
    if rng.random() < 0.55:
        kinds.append("nonascii")
    if rng.random() < 0.2:
        kinds.append("dangling-link")
    for k in kinds:
        extras[k] = True
    if "dir-link" in extras:
        extras["dir-link"] = rng.choice(["real", "r\u00e9el"])
    if "nonascii" in extras:
        extras["nonascii"] = rng.choice(NONASCII_STEMS)
    return extras


def gen_history(rng: random.Random, tag: str) -> dict:
    name = f"vfgit{tag}"
    layout = rng.choice(["flat", "flat", "src"])
    prefix = "src/" if layout == "src" else ""
    gitignore = rng.random() < 0.5
    commits = []
    if rng.random() < 0.6:
        commits.append({"files": {"README.md": "readme\n"}, "tags": ["v0.0.0"], "state": "absent"})
    c1 = {"files": {"README.md": "readme v1\n", **pkg_files(prefix, name, 0)}, "tags": ["v0.1.0"], "branches": ["feature/one"],
          "state": 0}
    if gitignore:
        c1["files"][".gitignore"] = "__pycache__/\n*.log\n"
    commits.append(c1)
    commits.append({"files": pkg_files(prefix, name, 1), "tags": ["v0.2.0"], "annotated_tags": ["rel/0.2"],
                    "branches": ["release/0.x/maint"], "state": 1})
    bad_init = dict(pkg_files(prefix, name, 1))
    bad_init[f"{prefix}{name}/__init__.py"] = '"""Broken."""\ndef f(a:\n    return a\n'
    commits.append({"files": bad_init, "tags": ["broken-init"], "state": "broken-init"})
    if rng.random() < 0.5:
        bad_sub = dict(pkg_files(prefix, name, 1))
        bad_sub[f"{prefix}{name}/sub.py"] = "class K:\n    def m(self, y=0:\n        return y\n"
        commits.append({"files": bad_sub, "tags": ["broken-sub"], "state": "broken-sub"})
    last_variant = rng.choice([1, 2])
    commits.append({"files": pkg_files(prefix, name, last_variant), "state": last_variant,
                    "tags": ["v0.3.0"] if rng.random() < 0.5 else []})
    i1 = commits.index(c1)
    hist = {
        "name": name, "layout": layout, "gitignore": gitignore, "commits": commits,
        "dirname": rng.choice(["proj", "my proj", "r\u00e9po", "proj.git-x"]),
        "side": [{"branch": "topic/deep/er", "from": i1, "files": pkg_files(prefix, name, 2), "state": 2}],
        "head": rng.choice([{"mode": "branch", "at": "main"}, {"mode": "branch", "at": "main"},
                            {"mode": "branch", "at": "release/0.x/maint"}, {"mode": "detached", "at": "v0.2.0"},
                            {"mode": "detached", "at": "main~1"}]),
        "dirty": {"README.md": "readme with a local edit\n"},
        "untracked": {"notes/todo.txt": "remember\n", f"{prefix}{name}/scratch_untracked.py": "X = 1\n"},
        "staged": {"setup.cfg": "[metadata]\nname = x\n"} if rng.random() < 0.6 else {},
        "stash": {"README.md": "stashed edit\n"} if rng.random() < 0.4 else {},
        "pre_branches": rng.choice([[], [], ["griffe-v0-1-0"], ["griffe-v0-1-0", "griffe-topic-deep-er"]]),
        "worktrees": [{"branch": "wt/live", "dir": "user worktree", "at": "v0.2.0"}] if rng.random() < 0.4 else [],
    }
    # drawn last (the draws above stay what they were for a given seed): tracked links, non-ASCII names; the user's tree
    # gets an untracked link and an untracked module with a non-ASCII name as well
    extras = gen_extras(rng)
    hist["extras"] = extras
    for c in commits:
        if c["state"] != "absent":
            variant = c["state"] if isinstance(c["state"], int) else 1
            for k, v in extra_files(prefix, name, variant, extras).items():
                c["files"].setdefault(k, v)
    for sd in hist["side"]:
        sd["files"].update(extra_files(prefix, name, sd["state"], extras))
    if rng.random() < 0.5:
        hist["untracked"]["notes/latest"] = {"symlink": "todo.txt"}
    if rng.random() < 0.5:
        hist["untracked"][f"{prefix}{name}/\u00e9bauche.py"] = "Y = 2\n"
    hist["tmpdir"] = rng.choice(["plain", "plain", "symlinked"])
    # stubs (drawn after everything else): inside the package, as a `<pkg>-stubs` package, both, or none
    stubs = rng.choice([["stubs-package"], ["stubs-package"], ["stubs-package"], ["inline-stubs"], ["inline-stubs"],
                        ["inline-stubs", "stubs-package"], []])
    if stubs:
        added = dict.fromkeys(stubs, True)
        extras.update(added)
        for c in commits:
            if c["state"] != "absent":
                variant = c["state"] if isinstance(c["state"], int) else 1
                for k, v in extra_files(prefix, name, variant, added).items():
                    c["files"].setdefault(k, v)
        for sd in hist["side"]:
            sd["files"].update(extra_files(prefix, name, sd["state"], added))
    return hist


def ref_table(hist: dict) -> list[dict]:
    """Ref forms and the commit state each one designates."""
    commits = hist["commits"]
    idx = {t: i for i, c in enumerate(commits) for t in c.get("tags", []) + c.get("annotated_tags", []) + c.get("branches", [])}
    out = [{"ref": {"name": n}, "state": commits[i]["state"], "commit": i} for n, i in idx.items()]
    out.append({"ref": {"name": "topic/deep/er"}, "state": 2, "commit": None, "side": 0})
    out.append({"ref": {"name": "main"}, "state": commits[-1]["state"], "commit": len(commits) - 1})
    out.append({"ref": {"name": "main~1"}, "state": commits[-2]["state"], "commit": len(commits) - 2})
    i1 = idx["v0.1.0"]
    out.append({"ref": {"sha_of": i1, "short": False}, "state": 0, "commit": i1})
    out.append({"ref": {"sha_of": idx["v0.2.0"], "short": True}, "state": 1, "commit": idx["v0.2.0"]})
    head = hist["head"]["at"]
    for r in list(out):
        if r["ref"].get("name") == head:
            out.append({"ref": {"name": "HEAD"}, "state": r["state"], "commit": r["commit"]})
            break
    return out


def files_at(hist: dict, entry: dict) -> dict:
    files: dict = {}
    upto = entry["commit"] if entry.get("commit") is not None else hist["side"][entry["side"]]["from"]
    for c in hist["commits"][: upto + 1]:
        files.update(c["files"])
    if entry.get("commit") is None:
        files.update(hist["side"][entry["side"]]["files"])
    return {k: v for k, v in files.items() if v is not None}


def normalize(ref: str) -> str:
    import re
    import unicodedata

    value = unicodedata.normalize("NFKC", ref)
    value = re.sub(r"[^\w]+", "-", value)
    return re.sub(r"[-\s]+", "-", value).strip("-")


# ------------------------------------------------------------------------------------------
# extension failpoints (M-EXT as failpoint carrier)
def make_extension(fault: dict | None, state: dict):  # noqa: ANN201
    import griffe

    def tick(self, event, kwargs):  # noqa: ANN001, ANN202
        state["events"] += 1
        if event == "on_package_loaded" and state.get("observer") is not None:
            try:  # the monitor looks at the package while the temporary checkout still exists; it never disturbs the load
                state["observer"](kwargs["pkg"])
            except Exception as exc:  # noqa: BLE001
                state.setdefault("observer_errors", []).append(f"{type(exc).__name__}: {exc}"[:300])
        if fault is None:
            return
        if fault["type"] == "ext" and state["events"] == fault["n"]:
            state["fired"] = event
            if fault["exc"] == "RuntimeError":
                raise RuntimeError(f"injected failure of an extension at event {fault['n']} ({event})")
            if fault["exc"] == "KeyboardInterrupt":
                raise KeyboardInterrupt
            if fault["exc"] == "SIGINT":
                signal.raise_signal(signal.SIGINT)
                for _ in range(1000):  # the interpreter delivers the pending interrupt at a bytecode boundary
                    pass
        if fault["type"] == "ext-rmtree" and event == "on_package_loaded" and not state.get("fired"):
            fp = kwargs["pkg"].filepath
            if not isinstance(fp, list):
                loc = Path(fp)
                while loc.parent != loc and not loc.parent.name.startswith("griffe-worktree-"):
                    loc = loc.parent
                if loc.parent != loc:
                    shutil.rmtree(loc)
                    state["fired"] = "removed the checkout directory"
                    if fault.get("then") == "raise":
                        raise RuntimeError("injected failure after the checkout directory vanished")
        if fault["type"] == "ext-write" and event == "on_package_loaded" and not state.get("fired"):
            pkg = kwargs["pkg"]
            fp = pkg.filepath
            if not isinstance(fp, list):
                target = Path(fp).parent / fault["name"]
                target.write_text("written by an extension\n")
                state["fired"] = str(target)

    ns = {}
    for name in dir(griffe.Extension):
        if name.startswith("on_"):
            ns[name] = (lambda ev: lambda self, **kw: tick(self, ev, kw))(name)
    return type("VfFailpointExtension", (griffe.Extension,), ns)()


# ------------------------------------------------------------------------------------------
class Ctx:
    def __init__(self, rec) -> None:  # noqa: ANN001
        self.rec = rec
        self.base = os.path.realpath(tempfile.mkdtemp(prefix="vf-c20-"))
        self.serial = 0
        self.child_tmp = os.environ.get("TMPDIR")
        gs.export_env()
        signal.signal(signal.SIGINT, signal.default_int_handler)


class Repo:
    """A pristine build of a history plus a working copy that is re-copied whenever a case changed it."""

    def __init__(self, ctx: Ctx, hist: dict) -> None:
        self.ctx = ctx
        self.hist = hist
        ctx.serial += 1
        self.home = os.path.join(ctx.base, f"h{ctx.serial}")
        self.pristine = os.path.join(self.home, "pristine", hist["dirname"])
        os.makedirs(os.path.dirname(self.pristine))
        gs.build_repo(hist, self.pristine)
        self.path = os.path.join(self.home, "user", hist["dirname"])
        self.link = os.path.join(self.home, "link to repo")  # the user's repository reached through a symbolic link
        os.symlink(self.path, self.link)
        self.before: dict | None = None
        self.trees: dict[str, gs.GitTree] = {}
        self.held: list[dict] = []  # results of earlier successful loads, kept alive and re-read later on
        self.shared_lines = None
        self.fresh()

    def tree(self, commit: str) -> gs.GitTree:
        """What git stores at a commit (commits never change, so this survives ``fresh``)."""
        if commit not in self.trees:
            self.trees[commit] = gs.GitTree(self.path, commit)
        return self.trees[commit]

    def fresh(self) -> None:
        shutil.rmtree(os.path.dirname(self.path), ignore_errors=True)
        os.makedirs(os.path.dirname(self.path))
        gs.copy_repo(self.pristine, self.path)
        for wt in self.hist.get("worktrees", []):  # the user's own linked worktrees (absolute paths: created after the copy)
            gs.git(self.path, "worktree", "add", "-q", "-b", wt["branch"], os.path.join(os.path.dirname(self.path), wt["dir"]), wt["at"])
        self.before = gs.snapshot(self.path)

    def add_stale_worktree(self) -> None:
        """The user once had a linked worktree and deleted its directory by hand: git keeps a prunable entry."""
        loc = os.path.join(os.path.dirname(self.path), "old-worktree")
        gs.git(self.path, "worktree", "add", "-q", "-b", "wt/stale", loc, "main~1")
        shutil.rmtree(loc)
        self.before = gs.snapshot(self.path)

    def resolve(self, ref: dict) -> str:
        if "name" in ref:
            return ref["name"]
        n = len(self.hist["commits"]) - 1 - ref["sha_of"]
        sha = gs.git(self.path, "rev-parse", f"main~{n}").strip()
        return sha[:9] if ref.get("short") else sha

    def remove(self) -> None:
        shutil.rmtree(self.home, ignore_errors=True)


@contextlib.contextmanager
def bytecode_window(allowed_prefix: str, blocked: list):
    """Behave like a user's interpreter (bytecode writing on) but never let a .pyc land outside the scratch area."""
    import importlib.machinery as mach

    orig = mach.SourceFileLoader.set_data

    def guarded(self, path, data, *, _mode=0o666):  # noqa: ANN001, ANN202
        if os.path.realpath(path).startswith(allowed_prefix):
            return orig(self, path, data, _mode=_mode)
        blocked.append(path)
        return None

    prev = sys.dont_write_bytecode
    mach.SourceFileLoader.set_data = guarded
    sys.dont_write_bytecode = False
    try:
        yield
    finally:
        sys.dont_write_bytecode = prev
        mach.SourceFileLoader.set_data = orig


def walk(obj, seen=None):  # noqa: ANN001
    seen = seen if seen is not None else set()
    if id(obj) in seen:
        return
    seen.add(id(obj))
    yield obj
    for m in obj.members.values():
        if not m.is_alias:
            yield from walk(m, seen)


def usability(rec, result, hist: dict, expected_files: dict | None, inspected: bool) -> list[str]:  # noqa: ANN001
    """The returned objects must be fully usable after the temporary checkout is gone."""
    problems = []
    rec.count("usability_probes")
    try:
        top = result.package if hasattr(result, "package") else result
        for o in walk(top):
            _ = o.source
            _ = o.lines
            if o.docstring is not None:
                _ = o.docstring.value
        doc = json.loads(top.as_json(full=True))
        if not doc.get("members"):
            problems.append("as_json(full=True) of the returned package has no members")
        if expected_files is not None:
            prefix = "src/" if hist.get("layout") == "src" else ""
            want = expected_files[f"{prefix}{hist['name']}/__init__.py"].splitlines()
            rec.count("source_lines_compared")
            if top.lines != want:
                problems.append(f"module lines differ from the file at that ref: {top.lines[:3]!r} vs {want[:3]!r}")
            f = top.members.get("f")
            if f is not None and not inspected:
                rec.count("source_lines_compared")
                if not f.source.startswith("def f(") or '"""Doc of f."""' not in f.source:
                    problems.append(f"source of f not available after cleanup: {f.source[:80]!r}")
            fp = top.filepath
            if not isinstance(fp, list) and os.path.exists(fp):
                problems.append(f"temporary checkout still on disk: {fp}")
    except Exception as exc:  # noqa: BLE001
        problems.append(f"returned object not usable after cleanup: {type(exc).__name__}: {exc}"[:300])
    return problems


# ------------------------------------------------------------------------------------------
# source lines of loaded objects against what git stores (M-SRC): CPython's ast gives the spans, git gives the text
_AST_CACHE: dict[str, dict] = {}


def ast_index(text: str) -> dict:
    """qualified name -> {"span": (first, last line), "doc": (first, last line) | None}; "" is the module itself.

    Spans follow the language, not griffe: a definition starts at its first decorator; the docstring of a name is the string
    statement that opens the body (module, class, function) or follows the assignment. A name bound twice in one scope is
    left out (``None``): which binding a tool reports is not this property's business.
    """
    import ast

    if text in _AST_CACHE:
        return _AST_CACHE[text]
    out: dict = {}
    try:
        tree = ast.parse(text)
    except (SyntaxError, ValueError):
        _AST_CACHE[text] = out
        return out

    def doc_of(body):  # noqa: ANN001, ANN202
        if body and isinstance(body[0], ast.Expr) and isinstance(body[0].value, ast.Constant) and isinstance(body[0].value.value, str):
            return (body[0].value.lineno, body[0].value.end_lineno)
        return None

    def put(name, entry):  # noqa: ANN001, ANN202
        out[name] = None if name in out else entry

    def scope(body, prefix):  # noqa: ANN001, ANN202
        for i, node in enumerate(body):
            if isinstance(node, (ast.FunctionDef, ast.AsyncFunctionDef, ast.ClassDef)):
                first = min([node.lineno, *[d.lineno for d in node.decorator_list]])
                put(prefix + node.name, {"span": (first, node.end_lineno), "doc": doc_of(node.body)})
                if isinstance(node, ast.ClassDef):
                    scope(node.body, prefix + node.name + ".")
            elif isinstance(node, (ast.Assign, ast.AnnAssign)):
                targets = node.targets if isinstance(node, ast.Assign) else [node.target]
                for t in targets:
                    if isinstance(t, ast.Name):
                        put(prefix + t.id, {"span": (node.lineno, node.end_lineno), "doc": doc_of(body[i + 1:i + 2])})

    out[""] = {"span": None, "doc": doc_of(tree.body)}
    scope(tree.body, "")
    _AST_CACHE[text] = out
    return out


def worktree_root(path) -> str | None:  # noqa: ANN001
    """The directory of the temporary checkout a file path lies in (``.../griffe-worktree-*/<ref>``), if any."""
    parts = Path(path).parts
    for i, part in enumerate(parts[:-1]):
        if part.startswith("griffe-worktree-") and i + 2 < len(parts):
            return os.path.join(*parts[:i + 2])
    return None


def verify_sources(rec, pkg, truth: dict, phase: str, label: str, structural_only: bool = False) -> list[str]:  # noqa: ANN001, C901, PLR0912
    """``source`` / ``lines`` / ``docstring.source`` of every object below ``pkg`` against the ground truth.

    ``truth``: {"tree": GitTree, "root": checkout directory the file paths must lie in} for a package loaded from a ref, or
    {"fs": directory} for one loaded from the user's working tree (the files are still there and are the truth).
    """
    from textwrap import dedent

    problems: list[str] = []

    def bad(msg: str) -> None:
        if len(problems) < 6:
            problems.append(f"[{phase}] {label}: {msg}"[:400])

    def module_truth(mod):  # noqa: ANN001, ANN202
        fp = mod.filepath
        if isinstance(fp, list):
            return None
        fp = str(fp)
        if "tree" in truth:
            root = truth["root"]
            if root is None or not fp.startswith(root + os.sep):
                bad(f"module {mod.path} of a package loaded from a ref has its file outside the temporary checkout: {fp}")
                return None
            rel = os.path.relpath(fp, root)
            text, hops = truth["tree"].text(rel)
            if text is None:
                bad(f"module {mod.path} was loaded from {rel}, which git does not have at commit {truth['tree'].commit[:10]}")
                return None
            return text, hops, rel
        if not fp.startswith(truth["fs"] + os.sep):
            bad(f"module {mod.path} of the package loaded from the working tree has its file elsewhere: {fp}")
            return None
        try:
            with open(fp, encoding="utf8") as fh:
                return fh.read(), int(os.path.realpath(fp) != fp), os.path.relpath(fp, truth["fs"])
        except OSError as exc:
            bad(f"file of module {mod.path} in the user's working tree is unreadable: {exc}")
            return None

    def visit(obj, mod, mtruth, seen):  # noqa: ANN001, ANN202
        if id(obj) in seen:
            return
        seen.add(id(obj))
        if obj.is_module:
            mod, mtruth = obj, module_truth(obj)
        if mtruth is not None:
            text, hops, rel = mtruth
            want_all = text.splitlines()
            index = ast_index(text)
            qual = obj.path[len(mod.path) + 1:] if obj is not mod else ""
            entry = index.get(qual)
            rec.count(f"sources_compared_{phase}")
            if hops:
                rec.count(f"symlinked_sources_compared_{phase}")
                rec.maximum("max_symlinks_followed_to_a_source", hops)
            if not rel.isascii():
                rec.count(f"nonascii_path_sources_compared_{phase}")
            if rel.endswith(".pyi"):
                rec.count(f"stub_file_sources_compared_{phase}")
                if obj.is_module and "-stubs/" in rel:
                    rec.count(f"stub_only_modules_of_a_stubs_package_compared_{phase}")
            try:
                lines, source = obj.lines, obj.source
            except Exception as exc:  # noqa: BLE001
                bad(f"{obj.path}: reading lines/source raised {type(exc).__name__}: {exc}")
                lines = source = None
            if lines is not None:
                if obj.is_module:
                    want = want_all
                elif entry and not structural_only:
                    want = want_all[entry["span"][0] - 1:entry["span"][1]]
                elif obj.lineno is not None and obj.endlineno is not None:
                    want = want_all[obj.lineno - 1:obj.endlineno]
                    rec.count("sources_compared_by_reported_line_numbers_only")
                else:
                    want = None
                if want is not None:
                    if lines != want:
                        bad(f"{obj.path} ({rel}{', through a symbolic link' if hops else ''}): lines are {lines[:3]!r} ({len(lines)} lines), git has {want[:3]!r} ({len(want)} lines)")
                    elif source != dedent("\n".join(want)):
                        bad(f"{obj.path} ({rel}): source differs from the text git has")
            doc = obj.docstring
            if doc is not None and doc.lineno is not None and doc.endlineno is not None:
                doc_lines, doc_entry, doc_rel = want_all, entry, rel
                owner = doc.parent
                if owner is not None and owner is not obj:
                    # a docstring taken over from another object (stubs merged into the concrete object): its text lives
                    # in the file of the object it was written for
                    omod = owner
                    while omod is not None and not omod.is_module:
                        omod = omod.parent
                    otruth = module_truth(omod) if omod is not None else None
                    if otruth is None:
                        doc_lines = None
                    else:
                        doc_lines, doc_rel = otruth[0].splitlines(), otruth[2]
                        doc_entry = ast_index(otruth[0]).get(owner.path[len(omod.path) + 1:] if owner is not omod else "")
                        rec.count(f"docstrings_taken_from_stubs_compared_{phase}")
            if doc is not None and doc.lineno is not None and doc.endlineno is not None and doc_lines is not None:
                span = doc_entry["doc"] if doc_entry and not structural_only else None
                if span is None:
                    span = (doc.lineno, doc.endlineno)
                rec.count(f"docstring_sources_compared_{phase}")
                want_doc = "\n".join(doc_lines[span[0] - 1:span[1]])
                try:
                    got = doc.source
                except Exception as exc:  # noqa: BLE001
                    bad(f"{obj.path} ({doc_rel}{', through a symbolic link' if hops else ''}): docstring.source raised {type(exc).__name__}: {exc}")
                else:
                    if got != want_doc:
                        bad(f"{obj.path} ({doc_rel}): docstring.source is {got[:60]!r}, git has {want_doc[:60]!r}")
        for m in obj.members.values():
            if not m.is_alias:
                visit(m, mod, mtruth, seen)

    try:
        visit(pkg, None, None, set())
    except Exception as exc:  # noqa: BLE001
        bad(f"walking the package raised {type(exc).__name__}: {exc}")
    return problems


def verify_nothing_served(rec, pkg, label: str) -> list[str]:  # noqa: ANN001
    """A load that was told NOT to store sources (``store_source=False``), read after its checkout is gone: no text of the
    checkout exists any more, so ``lines`` is ``[]`` and ``source`` is ``""`` for every object, and reading them does not
    raise. (``docstring.source`` is left out: without stored lines it has no defined answer.)"""
    problems: list[str] = []
    for o in walk(pkg):
        rec.count("objects_read_after_a_load_without_stored_sources")
        try:
            lines, source = o.lines, o.source
        except Exception as exc:  # noqa: BLE001
            problems.append(f"{label}: {o.path}: reading lines/source raised {type(exc).__name__}: {exc}"[:300])
            continue
        if lines or source:
            problems.append(f"{label}: {o.path}: sources were not stored and the checkout is gone, yet lines are {lines[:2]!r}"[:300])
    return problems[:4]


# ------------------------------------------------------------------------------------------
def classify(op: dict, diff: dict, leftovers: list, fp: gs.GitFailpoints, before: dict | None) -> tuple[str | None, list[str]]:
    """Mechanism classifiers for listed findings: predicates over the operation, the observed git trace and the diff."""
    tried = ["C20-unclean-worktree-leak", "C20-interrupt-after-worktree-add", "C20-prune-drops-user-stale-worktree"]
    if leftovers or not diff:
        return None, tried
    if set(diff) <= {"worktree-list", "admin-worktrees"} and before is not None:
        # the only change: worktree entries that were ALREADY prunable before the operation are gone, and the
        # repository-wide `git worktree prune` of the cleanup ran successfully
        wl = diff.get("worktree-list", {"added": [], "removed": []})
        adm = diff.get("admin-worktrees", {"added": [], "removed": []})
        stale_paths = set()
        lines = before["worktree-list"]
        for i, line in enumerate(lines):
            if line.startswith("prunable"):
                j = i
                while j >= 0 and not lines[j].startswith("worktree "):
                    j -= 1
                stale_paths.add(lines[j])
        removed_entries = [x for x in wl["removed"] if x.startswith("worktree ")]
        pruned = any(e["cmd"] == "worktree prune" and e["status"] == 0 for e in fp.cleanup_issued())
        if (pruned and not wl["added"] and not adm["added"] and removed_entries and set(removed_entries) <= stale_paths
                and len(adm["removed"]) == len(removed_entries)):
            return "C20-prune-drops-user-stale-worktree", tried
        return None, tried
    # both mechanisms leave exactly: temporary branch(es) griffe-* and prunable worktree entries; nothing else may differ
    allowed_keys = {"for-each-ref", "worktree-list", "admin-worktrees"}
    if set(diff) - allowed_keys:
        return None, tried
    fer = diff.get("for-each-ref", {"added": [], "removed": []})
    if fer["removed"] or not all(x.startswith("refs/heads/griffe-") for x in fer["added"]):
        return None, tried
    wl = diff.get("worktree-list", {"added": [], "removed": []})
    if wl["removed"] or diff.get("admin-worktrees", {"removed": []})["removed"]:
        return None, tried
    removes = [e for e in fp.cleanup_issued() if e["cmd"] == "worktree remove"]
    if removes and any(e["status"] != 0 for e in removes) and fp.unclean_before_remove:
        return "C20-unclean-worktree-leak", tried
    fault = op.get("fault") or {}
    if (fault.get("type") == "git" and fault.get("kind") == "int-after" and fp.fired and fp.fired["cmd"] == "worktree add"
            and fp.fired.get("status") == 0):
        # no cleanup command may have been issued for that worktree: the interrupt arrived before the try block
        adds = [i for i, e in enumerate(fp.log) if e is fp.fired]
        after = fp.log[adds[0] + 1:] if adds else []
        if not any(e["cleanup"] for e in after):
            return "C20-interrupt-after-worktree-add", tried
    return None, tried


def run_case(ctx: Ctx, repo: Repo, op: dict) -> dict:  # noqa: C901, PLR0912, PLR0915
    """Run one operation (with its fault) against the user's repository and judge it. Returns observations."""
    import _griffe.git as ggit
    import griffe

    rec = ctx.rec
    hist = repo.hist
    case = {"history": hist, "op": op}
    fault = op.get("fault")
    if op.get("pre") == "stale-worktree":
        repo.add_stale_worktree()
        rec.count("user_stale_worktree_cases")
    before = repo.before
    tmp_real = tempfile.mkdtemp(prefix="tmp-", dir=ctx.base)
    private_tmp = tmp_real
    if hist.get("tmpdir") == "symlinked":  # a temporary directory that is reached through a symbolic link (/tmp on some systems)
        private_tmp = tmp_real + "-link"
        os.symlink(tmp_real, private_tmp)
        rec.count("symlinked_tmpdir_cases")
    os.environ["TMPDIR"] = private_tmp
    tempfile.tempdir = None
    fp = gs.GitFailpoints(fault["at"], fault["kind"]) if fault and fault["type"] == "git" else gs.GitFailpoints()
    ext_state = {"events": 0, "fired": None}
    ext = make_extension(fault if fault and fault["type"].startswith("ext") else None, ext_state)
    ref = repo.resolve(op["ref"]) if op.get("ref") else None
    opts = dict(op.get("opts", {}))
    search = ["src"] if hist.get("layout") == "src" else None
    structural = bool(opts.get("force_inspection"))
    if op.get("shared_lines"):
        if repo.shared_lines is None:
            repo.shared_lines = griffe.LinesCollection()
        opts["lines_collection"] = repo.shared_lines
        rec.count("loads_into_a_shared_lines_collection")
    # ground truth fixed BEFORE the operation: the commit each reference designates in the user's repository
    against = repo.resolve(op["against"]) if op.get("against") else None
    base_ref = repo.resolve(op["base_ref"]) if op.get("base_ref") else None
    want_commits = [gs.commit_of(repo.path, r) if r else None for r in ((ref,) if op["op"] != "check" else (against, base_ref))]
    captured: list[dict] = []
    later_problems: list[str] = []

    def observer(pkg) -> None:  # noqa: ANN001
        """Runs inside the load (``on_package_loaded``): the temporary checkout of THIS load exists right now."""
        pfp = pkg.filepath
        root = None if isinstance(pfp, list) else worktree_root(pfp)
        item = {"pkg": pkg, "root": root, "head": None}
        if root and os.path.isdir(root):
            item["head"] = gs.git(root, "rev-parse", "--verify", "-q", "HEAD", check=False, optional_locks=False).strip() or None
        # objects returned by EARLIER loads (their checkouts are gone) are read while this load is in progress
        for h in repo.held:
            found_h = verify_sources(rec, h["pkg"], h["truth"], "during_later_load", h["label"], h["structural"])
            h["broken"] = h.get("broken") or bool(found_h)
            later_problems.extend(found_h)
        for prev in captured:  # check(): the package of the first reference while the second one is being loaded
            if prev["head"]:
                later_problems.extend(verify_sources(rec, prev["pkg"], {"tree": repo.tree(prev["head"]), "root": prev["root"]},
                                                     "during_later_load", f"{op['op']} package #{len(captured)}", structural))
        # the package being loaded is NOT read here: reading lines inside the checkout's lifetime could fill caches and hide
        # exactly the dependency on the checkout that is judged after the call returned
        captured.append(item)

    ext_state["observer"] = observer
    cwd = os.getcwd()
    repo_arg: object = repo.path
    if op.get("repo_form") == "path":
        repo_arg = Path(repo.path)
    elif op.get("repo_form") == "link":
        repo_arg = repo.link
        rec.count("symlinked_repo_path_cases")
    elif op.get("repo_form") == "dot" or op["op"] == "check":
        os.chdir(repo.path)
        if op["op"] != "check":
            repo_arg = "."
    result = None
    exc: BaseException | None = None
    blocked: list = []
    real_sub = ggit.subprocess
    ggit.subprocess = fp
    # the scratch area lives below the child's TMPDIR, which is also sys.path[0] of `python -m vf.child`; a user's
    # repository does not sit below an import path entry, so such entries are hidden while the operation runs
    saved_path = list(sys.path)
    sys.path[:] = [p for p in sys.path if not (ctx.base + os.sep).startswith(os.path.join(os.path.realpath(p or cwd), ""))]
    stderr = io.StringIO()
    try:
        with case_watchdog(300), contextlib.ExitStack() as stack:
            if op.get("bytecode"):
                stack.enter_context(bytecode_window(ctx.base, blocked))
            try:
                if op["op"] == "load_git":
                    result = griffe.load_git(op.get("objspec", hist["name"]), ref=ref, repo=repo_arg, search_paths=search,
                                             extensions=griffe.load_extensions(ext), **opts)
                elif op["op"] == "worktree_load":
                    # the documented building block used directly: a temporary worktree, a plain load inside it (the only
                    # way to choose `store_source`, which load_git does not expose), the result used after the block
                    with griffe.tmp_worktree(repo_arg, ref) as wt:
                        result = griffe.load(op.get("objspec", hist["name"]), search_paths=[wt / p for p in search or ["."]],
                                             try_relative_path=False, extensions=griffe.load_extensions(ext),
                                             store_source=op.get("store_source", True), **opts)
                else:
                    from _griffe import cli

                    with contextlib.redirect_stderr(stderr):
                        try:
                            result = cli.check(hist["name"], against, base_ref=base_ref, extensions=[ext], search_paths=search,
                                               **opts)
                        finally:
                            import colorama

                            colorama.deinit()
            except BaseException as e:  # noqa: BLE001
                if type(e).__name__ in ("CaseTimeout", "StepBudgetExceeded"):
                    raise
                exc = e
    finally:
        ggit.subprocess = real_sub
        sys.path[:] = saved_path
        os.chdir(cwd)
        for k in [k for k in sys.modules if k.partition(".")[0] == hist["name"]]:
            del sys.modules[k]
        if ctx.child_tmp is None:
            os.environ.pop("TMPDIR", None)
        else:
            os.environ["TMPDIR"] = ctx.child_tmp
        tempfile.tempdir = None
    # ---- observe -------------------------------------------------------------------------
    after = gs.snapshot(repo.path)
    rec.count("snapshots_compared")
    diff = gs.snapshot_diff(before, after)
    leftovers = sorted(os.listdir(tmp_real))
    rec.count("tmpdir_listings_checked")
    if private_tmp != tmp_real:
        os.unlink(private_tmp)
    shutil.rmtree(tmp_real, ignore_errors=True)
    for e in fp.log:
        rec.add_to_set("git_commands_and_statuses", f"{e['cmd']} -> {e.get('status')}" + (f" [{e['fault']}]" if e.get("fault") else "")
                       + (" then KeyboardInterrupt" if e.get("then") else ""))
        if e["cleanup"]:
            rec.count("cleanup_commands_observed")
    worktree_existed = any(e["cmd"] == "worktree add" and e.get("status") == 0 for e in fp.log)
    fault_fired = False
    if fault:
        if fault["type"] == "git":
            fault_fired = fp.fired is not None
            if fault_fired:
                rec.count("git_step_faults_fired")
                rec.add_to_set("fault_points", f"{op['op']}{'+base_ref' if op.get('base_ref') else ''}: git step {fault['at']} "
                                               f"({fp.fired['cmd']}) {fault['kind']}")
                if fault["kind"].startswith("int"):
                    rec.count("interrupts_delivered")
        elif fault["type"] == "ext":
            fault_fired = bool(ext_state["fired"])
            if fault_fired:
                rec.count("extension_faults_fired")
                rec.add_to_set("fault_points", f"{op['op']}: extension {fault['exc']} at event n (all n enumerated)")
                rec.maximum("max_extension_fault_index", fault["n"])
                if fault["exc"] != "RuntimeError":
                    rec.count("interrupts_delivered")
                if fault["exc"] == "SIGINT" and isinstance(exc, KeyboardInterrupt):
                    rec.count("sigint_delivered")
        elif fault["type"] == "ext-rmtree":
            fault_fired = bool(ext_state["fired"])
            if fault_fired:
                rec.count("checkout_vanished_cases")
            rec.add_to_set("fault_points", f"{op['op']}: the checkout directory vanishes during the load (removed by an extension), "
                                           f"then {fault.get('then', 'return')}")
        else:
            fault_fired = bool(ext_state["fired"])
            rec.add_to_set("fault_points", f"{op['op']}: extension writes {'an ignored' if fault['name'].endswith('.log') else 'an untracked'} file into the checkout")
    if fp.unclean_before_remove and any("__pycache__" in x or x.endswith(".pyc") for x in fp.unclean_before_remove):
        rec.count("bytecode_written_in_worktree")
    if blocked:
        rec.count("bytecode_writes_outside_scratch_blocked", len(blocked))
        rec.note(f"bytecode write outside the scratch area was blocked by the harness guard: {blocked[0]}")
    outcome = "returned" if exc is None else type(exc).__name__
    rec.add_to_set(f"outcomes[{op['op']}:{op.get('expect', 'ok')}{':' + fault['type'] if fault else ''}]", outcome)
    nontrivial = bool(fault and fault_fired and worktree_existed and (fault["type"] != "git" or _after_worktree(fp)))
    if nontrivial:
        rec.count("faults_after_worktree_exists")
    # ---- judge ---------------------------------------------------------------------------
    problems: list[tuple[str, object]] = []
    is_load = op["op"] in ("load_git", "worktree_load")
    stored = op.get("store_source", True)
    if diff:
        problems.append(("the user's repository differs after the operation: " + ", ".join(sorted(diff)), diff))
    if leftovers:
        problems.append((f"TMPDIR is not empty afterwards: {leftovers[:4]}", leftovers))
    expect = op.get("expect", "ok")
    if not fault or not fault_fired:
        if expect == "ok" and exc is not None:
            problems.append((f"operation on a valid reference failed: {type(exc).__name__}: {exc}"[:300], None))
        if expect != "ok" and exc is None and is_load and expect != "broken-sub":
            problems.append((f"operation expected to fail ({expect}) returned normally", None))
    if exc is None and is_load and result is not None:
        exp_files = files_at(hist, op["entry"]) if op.get("entry") and expect in ("ok",) and stored else None
        for p in usability(rec, result, hist, exp_files, bool(opts.get("force_inspection"))):
            problems.append((p, None))
        rec.count("successful_loads")
    # ---- source lines of every object, now that every temporary checkout is gone -----------------------------------------
    src_problems: list[str] = list(ext_state.get("observer_errors", []))
    new_hold = None
    if exc is None and is_load and result is not None and not stored:
        rec.count("loads_without_stored_sources")
        src_problems.extend(verify_nothing_served(rec, result, f"{op['op']}(ref={ref!r}, store_source=False)"))
    elif exc is None and is_load and result is not None and want_commits[0]:
        top = result.package if hasattr(result, "package") else result
        tfp = top.filepath
        root = None if isinstance(tfp, list) else worktree_root(tfp)
        label = f"{op['op']}(ref={ref!r}{', find_stubs_package' if opts.get('find_stubs_package') else ''})"
        if captured and captured[-1]["head"]:
            rec.count("checkout_commits_observed")
            if captured[-1]["head"] != want_commits[0]:
                src_problems.append(f"{label}: the temporary checkout was at commit {captured[-1]['head'][:10]}, the reference "
                                    f"designates {want_commits[0][:10]}")
        truth = {"tree": repo.tree(want_commits[0]), "root": root}
        found = verify_sources(rec, top, truth, "after_cleanup", label, structural)
        src_problems.extend(found)
        rec.count("loaded_packages_verified_after_cleanup")
        new_hold = {"pkg": top, "truth": truth, "label": label, "structural": structural,
                    "op": {k: v for k, v in op.items() if k not in ("fault", "pre")}}
    if op["op"] == "check":
        for i, item in enumerate(captured):
            label = f"check() package #{i + 1}"
            ifp = item["pkg"].filepath
            if item["root"] and item["head"]:
                rec.count("checkout_commits_observed")
                if i < 2 and want_commits[i] and item["head"] != want_commits[i]:
                    src_problems.append(f"{label}: the temporary checkout was at commit {item['head'][:10]}, the reference designates "
                                        f"{want_commits[i][:10]}")
                truth = {"tree": repo.tree(item["head"]), "root": item["root"]}
                rec.count("check_packages_from_refs_verified")
            elif not isinstance(ifp, list) and str(ifp).startswith(repo.path + os.sep):
                truth = {"fs": repo.path}
                rec.count("check_packages_from_working_tree_verified")
            else:
                continue
            src_problems.extend(verify_sources(rec, item["pkg"], truth, "after_cleanup", label, structural))
    src_problems.extend(later_problems)
    for h in repo.held:  # results of earlier loads stay usable whatever happened since (faults and cleanups included)
        if h.get("broken"):
            continue
        rec.count("held_results_reread")
        found_h = verify_sources(rec, h["pkg"], h["truth"], "after_later_operations", h["label"], h["structural"])
        h["broken"] = bool(found_h)
        src_problems.extend(found_h)
    if src_problems and repo.held:
        case["before"] = [h["op"] for h in repo.held]
    repo.held = [h for h in repo.held if not h.get("broken")]  # a result found broken is reported once, by this case
    for p in src_problems[:4]:
        problems.append((p, None))
    if new_hold is not None and not fault and not src_problems:
        repo.held = [*repo.held, new_hold][-2:]
    if op["op"] == "check":
        rec.count("check_runs")
        if exc is None:
            rec.add_to_set("check_exit_codes", str(result))
            if result not in (0, 1, 2):
                problems.append((f"check() returned {result!r}, not an exit code", None))
            if ctx.base in stderr.getvalue():
                rec.count("check_output_mentions_temporary_checkout")
    for key, name in (("unknown-ref", "unknown_ref_cases"), ("absent", "absent_package_cases"),
                      ("broken-init", "syntax_error_cases"), ("broken-sub", "syntax_error_cases"),
                      ("pre-existing-branch", "preexisting_branch_cases")):
        if expect == key:
            rec.count(name)
    obs = {"outcome": outcome, "error": (str(exc)[:300] if exc else None), "diff": diff, "tmpdir": leftovers,
           "git_trace": fp.log, "unclean_before_remove": fp.unclean_before_remove, "events": ext_state["events"]}
    tags = (op["op"], "fault:" + (fault["type"] if fault else "none"))
    if problems:
        fid, tried = classify(op, diff, leftovers, fp, before) if len(problems) == 1 and diff else (None, [])
        rec.fail(case, problems[0][0], observed=obs, expected="repository snapshot and TMPDIR identical before/after; "
                 "returned objects usable", finding=fid, tried=tried, nontrivial=True, tags=tags)
        repo.fresh()
    else:
        rec.ok(case, nontrivial=nontrivial, tags=tags)
        repo.before = after
        if op.get("pre"):
            repo.fresh()
    obs["problems"] = [p[0] for p in problems]
    return obs


def _after_worktree(fp: gs.GitFailpoints) -> bool:
    """True when the fired git fault came at or after a successful `worktree add`."""
    for e in fp.log:
        if e["cmd"] == "worktree add" and e.get("status") == 0:
            return True
        if e is fp.fired:
            return False
    return False


# ------------------------------------------------------------------------------------------
# enumeration of operations x faults for one history
def enumerate_static_ops(hist: dict, rng: random.Random) -> list[dict]:
    table = ref_table(hist)
    pre = set(hist["pre_branches"])
    ops: list[dict] = []
    opt_cycle = [{}, {"resolve_aliases": True, "find_stubs_package": True}, {"submodules": False},
                 {"docstring_parser": "google", "find_stubs_package": True},
                 {"resolve_aliases": True, "resolve_implicit": True, "resolve_external": False},
                 {"allow_inspection": False, "find_stubs_package": True}, {"submodules": False, "find_stubs_package": True},
                 {"docstring_parser": "numpy", "docstring_options": {"warn_unknown_params": False}}]
    forms = ["str", "path", "dot", "link"]
    good = None
    for i, entry in enumerate(table):
        name = entry["ref"].get("name")
        state = entry["state"]
        expect = "ok" if isinstance(state, int) else state
        if name and "griffe-" + normalize(name) in pre:
            expect = "pre-existing-branch"
        op = {"op": "load_git", "ref": entry["ref"], "opts": opt_cycle[i % len(opt_cycle)], "repo_form": forms[i % 4],
              "expect": expect, "entry": entry}
        ops.append(op)
        if expect == "ok" and name and good is None and "/" in name:
            good = entry
    good = good or next(e for e in table if isinstance(e["state"], int) and "griffe-" + normalize(e["ref"].get("name", "x")) not in pre
                        and "name" in e["ref"])
    hist_good = {"ref": good["ref"], "entry": good}
    # the stubs of the package, wherever they live, with the loader options that decide what is loaded and kept
    ops.append({"op": "load_git", **hist_good, "opts": {"find_stubs_package": True}, "expect": "ok"})
    ops.append({"op": "load_git", **hist_good, "opts": {"find_stubs_package": True, "docstring_parser": "sphinx"}, "repo_form": "link",
                "expect": "ok"})
    ops.append({"op": "worktree_load", **hist_good, "opts": {"find_stubs_package": True}, "store_source": True, "expect": "ok"})
    ops.append({"op": "worktree_load", **hist_good, "opts": {"find_stubs_package": True}, "store_source": False, "expect": "ok"})
    ops.append({"op": "worktree_load", **hist_good, "opts": {"submodules": False}, "store_source": False, "repo_form": "dot",
                "expect": "ok"})
    # git-step faults of load_git
    for at in (1, 2):
        for kind in GIT_KINDS:
            ops.append({"op": "load_git", **hist_good, "fault": {"type": "git", "at": at, "kind": kind}, "expect": "ok"})
    ops.append({"op": "load_git", "ref": {"name": "no/such-ref"}, "expect": "unknown-ref"})
    ops.append({"op": "load_git", "ref": {"name": "v9.9.9"}, "expect": "unknown-ref", "repo_form": "dot"})
    ops.append({"op": "load_git", **hist_good, "objspec": "vf_no_such_package", "expect": "absent"})
    # inspection: without, then with bytecode writing (the default of a real interpreter)
    ops.append({"op": "load_git", **hist_good, "opts": {"force_inspection": True}, "expect": "ok"})
    ops.append({"op": "load_git", **hist_good, "opts": {"force_inspection": True}, "bytecode": True, "expect": "ok"})
    ops.append({"op": "load_git", **hist_good, "opts": {"force_inspection": True, "resolve_aliases": True}, "bytecode": True,
                "repo_form": "dot", "expect": "ok"})
    # the same ref again: a leak of the previous case would make this one fail
    ops.append({"op": "load_git", **hist_good, "expect": "ok"})
    ops.append({"op": "load_git", **hist_good, "fault": {"type": "ext-write", "name": "notes-from-extension.txt"}, "expect": "ok"})
    ops.append({"op": "load_git", **hist_good, "fault": {"type": "ext-write", "name": "debug.log"}, "expect": "ok"})
    # two loads of one ref into ONE lines collection supplied by the caller, the first result kept alive meanwhile
    other = next((e for e in table if isinstance(e["state"], int) and e["state"] != good["state"] and "name" in e["ref"]
                  and "griffe-" + normalize(e["ref"]["name"]) not in pre), good)  # another ref, other module texts
    ops.append({"op": "load_git", **hist_good, "shared_lines": True, "expect": "ok"})
    ops.append({"op": "load_git", "ref": other["ref"], "entry": other, "shared_lines": True, "repo_form": "link", "expect": "ok"})
    ops.append({"op": "load_git", **hist_good, "shared_lines": True, "repo_form": "link", "expect": "ok"})
    # the checkout directory disappears under the loader (the only situation in which `worktree prune` has work to do)
    ops.append({"op": "load_git", **hist_good, "fault": {"type": "ext-rmtree", "then": "return"}, "expect": "ok"})
    ops.append({"op": "load_git", **hist_good, "fault": {"type": "ext-rmtree", "then": "raise"}, "expect": "ok"})
    ops.append({"op": "load_git", **hist_good, "expect": "ok"})
    # the user's repository has a stale (prunable) worktree entry of its own
    ops.append({"op": "load_git", **hist_good, "pre": "stale-worktree", "expect": "ok"})
    ops.append({"op": "load_git", **hist_good, "pre": "stale-worktree", "fault": {"type": "ext", "n": 1, "exc": "RuntimeError"}, "expect": "ok"})
    ops.append({"op": "load_git", **hist_good, "pre": "stale-worktree", "fault": {"type": "git", "at": 2, "kind": "fail"}, "expect": "ok"})
    return ops


def check_ops(hist: dict, tier: str) -> list[dict]:
    pre = set(hist["pre_branches"])
    old = {"name": "v0.1.0"} if "griffe-v0-1-0" not in pre else {"name": "feature/one"}
    variants = [{"against": old, "base_ref": None}, {"against": old, "base_ref": {"name": "release/0.x/maint"},
                                                     "opts": {"find_stubs_package": True}},
                {"against": None, "base_ref": None, "opts": {"find_stubs_package": True}},
                {"against": {"name": "rel/0.2"}, "base_ref": {"name": "main"}}]
    head_state = None
    for e in ref_table(hist):
        if e["ref"].get("name") == "HEAD":
            head_state = e["state"]
    last_tag_state = [c["state"] for c in hist["commits"] if c.get("tags") or c.get("annotated_tags")][-1]
    ops = []
    for v in variants:
        expect = "ok"
        if v["against"] is None and not isinstance(last_tag_state, int):
            expect = str(last_tag_state)
        if v["base_ref"] is None and not isinstance(head_state, int):
            expect = str(head_state)
        if v["base_ref"] and v["base_ref"]["name"] == "main" and not isinstance(hist["commits"][-1]["state"], int):
            expect = "broken"
        base = {"op": "check", **v, "expect": expect}
        ops.append(dict(base))
        nsteps = (1 if v["against"] is None else 0) + 1 + 2 + (2 if v["base_ref"] else 0)
        for at in range(1, nsteps + 1):
            for kind in GIT_KINDS:
                ops.append({**base, "fault": {"type": "git", "at": at, "kind": kind}})
    return ops


def ext_fault_ops(hist: dict, base_op: dict, trace_len: int, tier: str) -> list[dict]:
    ops = []
    positions = list(range(1, trace_len + 1))
    if tier != "thorough" and trace_len > QUICK_EXT_POINTS:
        # quick tier, long trace (many modules): the first and last ten events and evenly spread positions in between
        inner = QUICK_EXT_POINTS - 20
        spread = {11 + round(i * (trace_len - 21) / (inner - 1)) for i in range(inner)}
        positions = sorted(set(range(1, 11)) | spread | set(range(trace_len - 9, trace_len + 1)))
    for n in positions:
        ops.append({**base_op, "fault": {"type": "ext", "n": n, "exc": "RuntimeError"}})
        if tier == "thorough" or n % 3 == 1 or n == trace_len:
            ops.append({**base_op, "fault": {"type": "ext", "n": n, "exc": "KeyboardInterrupt"}})
        if n % 7 == 3 or n == trace_len:
            ops.append({**base_op, "fault": {"type": "ext", "n": n, "exc": "SIGINT"}})
    return ops


def run_history(ctx: Ctx, hist: dict, rng: random.Random, tier: str) -> None:
    repo = Repo(ctx, hist)
    for kind in hist.get("extras", {}):
        ctx.rec.count(f"histories_with[{kind}]")
    try:
        ops = enumerate_static_ops(hist, rng)
        trace_len = None
        base_for_ext = None
        # the load whose extension events are faulted one by one: with the stubs package when the history has one
        base_opts = {"find_stubs_package": True} if "stubs-package" in hist.get("extras", {}) else {}
        for op in ops:
            obs = run_case(ctx, repo, op)
            if (trace_len is None and op.get("expect") == "ok" and not op.get("fault") and (op.get("opts") or {}) == base_opts
                    and op["op"] == "load_git" and obs["outcome"] == "returned"):
                trace_len = obs["events"]
                base_for_ext = {k: v for k, v in op.items() if k not in ("fault",)}
        if trace_len is None:
            good = next(o for o in ops if o.get("expect") == "ok" and not o.get("fault"))
            base_for_ext = {"op": "load_git", "ref": good["ref"], "entry": good["entry"], "opts": base_opts, "expect": "ok"}
            trace_len = run_case(ctx, repo, base_for_ext)["events"]
        ctx.rec.maximum("extension_trace_length", trace_len)
        for op in ext_fault_ops(hist, base_for_ext, trace_len, tier):
            run_case(ctx, repo, op)
        cops = check_ops(hist, tier)
        check_trace = None
        for op in cops:
            obs = run_case(ctx, repo, op)
            if check_trace is None and not op.get("fault") and op.get("base_ref") and obs["outcome"] == "returned":
                check_trace = (obs["events"], {k: v for k, v in op.items() if k != "fault"})
        if check_trace:
            total, base = check_trace
            for n in sorted({1, max(1, total // 4), max(1, total // 2), max(1, (3 * total) // 4), total}):
                for kind in ("RuntimeError", "KeyboardInterrupt"):
                    run_case(ctx, repo, {**base, "fault": {"type": "ext", "n": n, "exc": kind}})
    finally:
        repo.remove()


# ------------------------------------------------------------------------------------------
def shards(tier: str, seed: int) -> list[dict]:  # noqa: ARG001
    if tier == "quick":
        return [{"histories": 1} for _ in range(16)]
    return [{"histories": 7} for _ in range(32)]


def run_shard(spec: dict, rec) -> None:  # noqa: ANN001
    rng = random.Random(spec["seed"])
    ctx = Ctx(rec)
    try:
        for h in range(spec["histories"]):
            hist = gen_history(rng, f"{spec['seed'] % 100003}s{spec['shard']}h{h}")
            run_history(ctx, hist, rng, spec["tier"])
    finally:
        shutil.rmtree(ctx.base, ignore_errors=True)


def replay_one(inp: dict, rec) -> dict:  # noqa: ANN001
    ctx = Ctx(rec)
    try:
        repo = Repo(ctx, inp["history"])
        try:
            for pre_op in inp.get("before", []):
                run_case(ctx, repo, pre_op)
            return run_case(ctx, repo, inp["op"])
        finally:
            repo.remove()
    finally:
        shutil.rmtree(ctx.base, ignore_errors=True)


def run_replay(inp: dict, rec) -> None:  # noqa: ANN001
    replay_one(inp, rec)


def run_pinned(findings: list[dict], rec) -> dict:  # noqa: ANN001
    from vf.core.rec import Recorder

    out = {}
    for f in findings:
        sub = Recorder(PROP, {})
        obs = replay_one(f["witness"], sub)
        reproduced = bool(sub.n_fail or sub.known)
        matched = f["id"] in sub.known
        detail = "; ".join(obs.get("problems", [])) or "passes"
        if reproduced and not matched:
            detail = "fails, but not by the listed mechanism: " + detail
        out[f["id"]] = {"reproduced": reproduced, "detail": detail[:300]}
    return out
