"""C11 — API diff: silent on compatible change, reports every public removal / re-kinding.

Workload: structured packages (public and private modules, ``__all__`` present/absent, re-exports
through aliases, classes with inheritance incl. private bases, methods, attributes) and edit
scripts drawn from a catalogue of compatible edits (add public object, add optional keyword
parameter, change private object, add base, reorder, add module) and incompatible edits (remove
object, change kind, remove base class, change attribute value) applied at random public and
private locations, plus dangling / cyclic re-exports.
The package may have sibling top-level packages (a private one, ``_pk``, and a public one, ``pkb``)
holding base classes of its classes and objects it re-exports (explicitly or by wildcard); both
versions are loaded by one *session*: the way ``griffe check`` loads (which pulls in ``_pk`` only
afterwards, while resolving aliases) or step by step over several packages, with consumer reads of
the tree between the steps - results derived from the tree before a later package entered the
collection must not survive it.
Modules may compose their ``__all__`` from other modules' ``__all__`` (every spelling the extractor
parses); the surface model computes the effective ``__all__`` the way Python does (validated
against CPython imports of the generated packages while building).
Containers come in boundary shapes too (classes with an empty body or private members only, modules
that only import, packages with an empty ``__init__``) and are then the only public route to an
edited object.
Attributes are bound several times (class level, ``__init__``, module level; conditionally or not);
the model records the value of the binding that wins the documented tie-break.
Definitions (functions, classes, attributes, class members, the re-exporting imports) may sit inside compound
statements that CPython runs exactly once at import time - ``if/elif/else`` (``sys.version_info``, ``TYPE_CHECKING``
else-branches), ``try/except/else/finally``, ``except*``, ``with`` (also parenthesised), ``for/while ... else``,
``match/case`` (literal, class, guard, sequence, mapping, wildcard patterns), nested two deep, alone or with their
neighbours, or written once per branch of a platform switch - in public modules, private re-exported modules and class
bodies; every version is imported by CPython and the structural model (kinds, values, bases, members, effective
``__all__``) is compared with what CPython built; the edits hit those objects like any other, and a sample of the pairs is
also compared in its plain spelling (same definitions at the top level): the reports must be the same.
Oracle: a *public-surface model* computed from the generator's structure (never from
``is_public``) and the packages the session loads gives the public paths of every object;
incompatible edits on an object with >= 1 public path must yield a breakage of the expected kind on
one of its paths, everything else must be silent.  CLI leg: ``python -m griffe check`` in a scratch
git repository; exit code must be 1 exactly when the reference model / the in-process diff has
something to report.
"""
from __future__ import annotations

import copy
import os
import random
import re
import subprocess
import sys
import textwrap
import types

from vf.core.util import case_watchdog, tmp_tree

PROP = "C11"
LEVEL = "exploration"
ANCHORS = ["diff.py"]
RULE = ("structured package pk (modules pk, pk.core, pk._impl, pk.sub, pk.sub.mod; functions, classes with methods/"
        "attributes and public or private bases, attributes; __all__ present or absent per module; re-exports of public "
        "and private-module objects, listed in __all__ or not), optionally with sibling top-level packages next to it - a private "
        "one (_pk, _pk.base) and a public one (pkb, pkb.mod) - that hold base classes of pk classes (imported directly, through a "
        "re-exporting __init__ hop, under an alias, or known through `from _pk import *` only; own members may override inherited "
        "ones) and objects pk re-exports (explicitly or by wildcard, listed in __all__ or not) x edit script of 1-4 edits from the "
        "catalogue {add public object, add optional keyword parameter, change private object, add base, reorder, add module | remove "
        "object, change kind, remove base, change attribute value, drop a re-export (one import, or everything taken from one module by "
        "wildcard / composed __all__) while the object stays} at random public/private locations in any of the packages; __all__ lists "
        "composed from other modules' __all__ - forms `[.., *x]`, `(.., *x)`, annotated, `[..] + x`, `x + [..]`, `+=`; the other list "
        "referred to as an imported name (absolute / relative import), `mod.__all__` (from-import or import-as of the module) or "
        "`pk.mod.__all__` - from a private (pk._impl) and a public (pk.core) source, chained or not, each consumed by 1-3 modules among "
        "the root, existing submodules and new public / private modules sorting before and after the sources, with the listed objects "
        "brought in by wildcard or one by one; containers of boundary shape - classes with an empty body (`pass`, `...`, docstring "
        "only) or with private members only that inherit from a private base in a private module (re-exported or not), a class of "
        "the package or of a sibling package, a module that only imports (with / without __all__), packages with an empty "
        "__init__ (pk.sub, the sibling package, the root) - as the only public route to an edited object; attributes (module level, "
        "class level, instance attributes set in an __init__ placed anywhere among the members) bound 1-4 times: plainly, as a bare "
        "annotation, annotated or not, under if / else / elif / if-else / try / except / try-except / try-else / finally / for / while / "
        "with and nestings, with literals or the __init__ parameter; `change_value` edits the binding Griffe documents to keep "
        "(later wins, but a re-assignment directly inside an if/else branch or an except handler does not displace a value), "
        "`change_losing_binding` (compatible) edits one that loses; definitions, class members and re-exporting imports (each with "
        "probability 0.45 / 0.3 in 70 % of the packages, alone or as a run of 2-3 neighbours in one block) placed inside 1-2 nested "
        "compound statements whose body runs exactly once at import time, drawn from 40 spellings of if / elif / else (conditions on "
        "__debug__, sys.version_info, sys.platform, TYPE_CHECKING), try / except / else / finally, except*, with (as, multi-item, "
        "parenthesised), for / while (+ else), match / case (literal, or-pattern, class, guard, sequence, mapping, wildcard) and the "
        "spellings that write the definition once per branch (if-else, if-elif-else, try-except ImportError, match over "
        "sys.platform); objects added by an edit may sit in such statements too; optional "
        "dangling or cyclic re-export injected in both versions x loading session applied to both versions: the way `griffe check` "
        "loads (load pk, resolve aliases with external=None, which pulls in _pk afterwards when an exported alias or a wildcard leads "
        "there) or a loader session over a drawn subset/order of the packages with consumer reads of the whole tree and alias "
        "resolution between the steps. distinct = digest of (old files, new files, session); non-trivial = script has an incompatible "
        "edit on an object whose only public path goes through a re-export or inheritance")
LEVEL_TEXT = ("Both versions are loaded statically by the same session (as `griffe check` does, or step by step over several packages) "
              "and diffed by the real find_breaking_changes; the generator's public-surface model - evaluated over the packages the "
              "session's loading rules put into the collection, which is itself compared with the collection observed - decides, per "
              "edit, whether a breakage of a given kind must appear on one of the object's paths, and that nothing else may be reported "
              "(a difference only Python sees, inside a package the session did not load, is neither demanded nor forbidden); identical "
              "copies and compatible-only scripts must be silent; every breakage must explain() in all styles; the CLI exit code is "
              "compared with the reference model and with the in-process result on a sample, two thirds of it with a private sibling "
              "package that the CLI has to pull in by itself. Every generated version is imported by CPython (from memory, through the "
              "import system) and the structural model is compared with the namespace CPython built, so that a definition inside a "
              "compound statement is known to exist at run time; a sample of the pairs is diffed a second time in its plain spelling "
              "and both spellings must produce the same (kind, path) reports.")
LEVEL_NOTE = ("trusted: the public-surface model (written from the documented rules: underscore names, __all__, imported "
              "names are private unless exported, modules only by underscore; only paths below pk are public paths of the compared "
              "package) and the loading rule (external=None loads `_pk` for pk, nothing else); a breakage located at the canonical "
              "definition path of an object that has a public path is accepted as 'on that object' - the definition of the object the "
              "path led to in the old version or leads to in the new one (Griffe attaches kind / value / base breakages to the new object: "
              "after an overriding member is removed that is the inherited one)")
TECHNIQUE = "runtime monitoring: reference-model monitor (public-surface model) over generated two-version histories x loading sessions + CLI exit-code oracle"
REQUIRED_COUNTERS = ["pairs_diffed", "identical_pairs_silent", "compatible_scripts_silent", "incompatible_public_edits_reported",
                     "incompatible_private_edits_silent", "breakages_explained", "cli_exit_codes_compared",
                     "edits_behind_reexport_or_inheritance", "private_sibling_entered_collection_after_package",
                     "inherited_from_late_loaded_package_edits_reported", "sibling_package_reexport_edits_reported",
                     "edits_behind_wildcard_import_from_sibling_reported", "cli_cases_with_sibling_package",
                     "tree_reads_between_loading_steps", "edits_public_only_through_composed_all_reported",
                     "composed_all_in_non_root_module_edits_reported", "composed_all_from_shared_source_edits_reported",
                     "cli_cases_with_composed_all", "edits_public_only_through_empty_body_class_reported",
                     "edits_public_only_through_class_with_private_members_only_reported",
                     "edits_public_only_through_import_only_module_reported", "cli_cases_with_empty_body_class", "pairs_with_empty_init",
                     "value_edits_where_conditional_rebinding_loses_reported",
                     "value_edits_on_instance_attribute_with_conditional_rebinding_reported",
                     "such_edits_with_documented_value_bound_at_class_level", "such_edits_with_documented_value_bound_in_init",
                     "value_edits_on_module_attribute_with_conditional_rebinding_reported", "pairs_with_losing_binding_edit_silent",
                     "cli_cases_with_conditionally_rebound_attribute",
                     "versions_with_compound_statements_confirmed_by_cpython_import",
                     "edits_on_objects_defined_in_compound_statement_reported", "edits_on_objects_defined_in_match_case_reported",
                     "edits_on_objects_defined_in_try_statement_reported", "edits_on_objects_defined_in_with_statement_reported",
                     "edits_on_objects_defined_in_loop_reported", "edits_on_objects_defined_in_if_statement_reported",
                     "edits_on_objects_defined_two_statements_deep_reported", "edits_on_class_members_defined_in_compound_statement_reported",
                     "edits_behind_reexport_or_inheritance_on_objects_defined_in_compound_statement_reported",
                     "edits_behind_reexport_spelled_in_compound_statement_reported",
                     "silent_pairs_with_definitions_in_compound_statements", "pairs_compared_with_their_plain_spelling",
                     "non_empty_reports_equal_in_both_spellings", "cli_cases_with_edit_on_object_defined_in_match_case"]
EXHAUSTIVE = {"quick": False, "thorough": False}
ASSUMPTIONS = ["attribute values and parameter lists are simple literals / names so that C03/C10 findings cannot surface here",
               "the value documented for an attribute bound several times follows the tie-break of C01's statement (later wins, a "
               "conditional re-assignment does not displace an existing value, a bare annotation keeps it); function signatures are "
               "not modelled: when a path comes to reach another function of the same name (override gone), reports on it are neither "
               "demanded nor forbidden; the __init__ carrying the instance attributes is not removed / re-kinded by edits",
               "a module with a wildcard import declares a non-empty __all__ (whether names only a wildcard brings in are public without "
               "__all__ is not settled by the documented rules); wildcard imports come from a sibling package's __init__ or from the module "
               "whose __all__ the importing module composes its own from, and are the first statements of the module (names are unique, so "
               "expansion order - C05's subject - cannot matter)",
               "__all__ is composed only from modules of pk itself and only in the spellings the extractor parses (no calls such as "
               "list(x)); composing from the sibling package's __all__ is not generated (see report: dropped when the sibling is loaded later)",
               "pairs in which the edit changes which packages the session loads (the last exported name leading into _pk is removed) "
               "are not judged",
               "no package is loaded twice in a session (reloading is C18's subject)",
               "a compound statement around a definition runs its body exactly once at import time (checked by importing every version "
               "with CPython) or, in the once-per-branch spellings, every branch holds the same definition; definitions in branches "
               "that never run, or that differ between branches, are not generated (what is documented then is C01's subject); an "
               "attribute bound several times sits only in blocks whose statements are not directly in an if-branch / except handler "
               "(the tie-break would read them as conditional)"]
SHARD_TIMEOUT = {"quick": 900, "thorough": 7200}


# -- model -------------------------------------------------------------------------------------
def new_obj(name, kind, **kw):  # noqa: ANN001, ANN003, ANN201
    o = {"name": name, "kind": kind, "params": [], "bases": [], "members": [], "value": "0", "doc": None}
    o.update(kw)
    return o


# -- attribute bindings --------------------------------------------------------------------------
# An attribute may be bound several times: at module / class level ("body") and, for class members, as `self.name = ...` in
# __init__ ("init"); plainly or inside if / else / try-except / loops / with. Griffe documents one value per name; its
# tie-break (C01's statement): later bindings win, except that a re-assignment whose statement sits directly in an if / elif /
# else branch or in an except handler does not displace a value the name already has. A bare annotation binds the name
# without a value and keeps a value it already has.
COND_CTX = {"if", "else", "elif", "except", "for_if", "exceptstar"}  # the assignment's direct parent is an If / ExceptHandler (also of `except*`)
# direct parent: body, Try, TryStar, For, While, With, match_case
WIN_CTX = {"plain", "try", "tryelse", "finally", "for", "while", "with", "if_with", "match", "match_wild", "trystar", "forelse", "whileelse"}
TWO_CTX = {"ifelse": (True, True), "tryexcept": (False, True)}  # two assignments: (first is conditional, second is conditional)
UNSET = "<unset>"


def private_name(name: str) -> bool:
    return name.startswith("_") and not (name.startswith("__") and name.endswith("__"))


def binding_atoms(attr: dict, cls: dict | None) -> list[tuple[dict, str, bool]]:
    """The assignments to ``attr`` in source order: (binding, key of its value, conditional). The class body is read in member
    order; the `self.x = ...` statements of all attributes sit in the member `__init__`, wherever that is."""
    binds = attr.get("binds")
    if binds is None:
        return [({"site": "body", "ctx": "plain", "value": attr["value"]}, "value", False)]
    seq = []
    holders = cls["members"] if cls else [attr]
    for mem in holders:
        site = "body" if mem is attr else "init" if (mem["name"] == "__init__" and mem["kind"] == "func") else None
        for b in binds if site else ():
            if b["site"] != site:
                continue
            if b["ctx"] in TWO_CTX:
                seq += [(b, "value", TWO_CTX[b["ctx"]][0]), (b, "value2", TWO_CTX[b["ctx"]][1])]
            else:
                seq.append((b, "value", b["ctx"] in COND_CTX))
    return seq


def winning_atom(attr: dict, cls: dict | None) -> tuple[dict, str] | None:
    """The assignment whose value is documented, by the tie-break above (None: no assignment, or a bare annotation only)."""
    bound, winner = False, None
    for b, key, cond in binding_atoms(attr, cls):
        if bound and cond:
            continue
        if b["ctx"] == "bare":
            bound = True  # keeps the value the name has, if any
            continue
        bound, winner = True, (b, key)
    return winner


def attr_exists(attr: dict, cls: dict | None) -> bool:
    return bool(binding_atoms(attr, cls))


def doc_value(attr: dict, cls: dict | None) -> str:
    w = winning_atom(attr, cls)
    return UNSET if w is None else w[0][w[1]]


def render_binding(b: dict, target: str, indent: str, cond: str) -> str:
    lhs = target + (": int" if b.get("ann") else "")
    a1, a2 = f"{lhs} = {b.get('value')}\n", f"{lhs} = {b.get('value2')}\n"
    i1, i2 = indent + "    ", indent + "        "
    ctx = b["ctx"]
    shapes = {
        "plain": f"{indent}{a1}",
        "bare": f"{indent}{target}: int\n",
        "if": f"{indent}if {cond}:\n{i1}{a1}",
        "else": f"{indent}if not {cond}:\n{i1}pass\n{indent}else:\n{i1}{a1}",
        "elif": f"{indent}if not {cond}:\n{i1}pass\n{indent}elif {cond}:\n{i1}{a1}",
        "ifelse": f"{indent}if {cond}:\n{i1}{a1}{indent}else:\n{i1}{a2}",
        "except": f"{indent}try:\n{i1}raise ValueError\n{indent}except Exception:\n{i1}{a1}",
        "try": f"{indent}try:\n{i1}{a1}{indent}except Exception:\n{i1}pass\n",
        "tryexcept": f"{indent}try:\n{i1}{a1}{indent}except Exception:\n{i1}{a2}",
        "tryelse": f"{indent}try:\n{i1}pass\n{indent}except Exception:\n{i1}pass\n{indent}else:\n{i1}{a1}",
        "finally": f"{indent}try:\n{i1}pass\n{indent}finally:\n{i1}{a1}",
        "for": f"{indent}for _ in (0,):\n{i1}{a1}",
        "while": f"{indent}while True:\n{i1}{a1}{i1}break\n",
        "with": f"{indent}with memoryview(b''):\n{i1}{a1}",
        "if_with": f"{indent}if {cond}:\n{i1}with memoryview(b''):\n{i2}{a1}",
        "for_if": f"{indent}for _ in (0,):\n{i1}if {cond}:\n{i2}{a1}",
        "match": f"{indent}match 1:\n{i1}case 1:\n{i2}{a1}{i1}case _:\n{i2}pass\n",
        "match_wild": f"{indent}match 0:\n{i1}case str():\n{i2}pass\n{i1}case _:\n{i2}{a1}",
        "trystar": f"{indent}try:\n{i1}{a1}{indent}except* Exception:\n{i1}pass\n",
        "exceptstar": f"{indent}try:\n{i1}raise ExceptionGroup('g', [ValueError(0)])\n{indent}except* ValueError:\n{i1}{a1}",
        "forelse": f"{indent}for _ in ():\n{i1}pass\n{indent}else:\n{i1}{a1}",
        "whileelse": f"{indent}while False:\n{i1}pass\n{indent}else:\n{i1}{a1}",
    }
    return shapes[ctx]


def top_of(mod: str) -> str:
    return mod.split(".", 1)[0]


# -- compound statements around definitions --------------------------------------------------------
# Every definition (function, class, attribute, class member, re-exporting import) may sit inside compound statements that
# CPython executes at import time so that the wrapped statements run exactly once: the object exists, with the same kind /
# value / signature, exactly as if it were defined at the top level of the module / class body. "dup" spellings write the
# definition in every branch (a platform switch: only one branch runs, all of them define the same thing).
TRUE_CONDS = ["__debug__", "sys.version_info >= (3, 8)", "not TYPE_CHECKING", "sys.version_info[0] == 3", "not typing.TYPE_CHECKING",
              "True", "sys.platform != 'no-such-os'"]
FALSE_CONDS = ["not __debug__", "sys.version_info < (3, 8)", "TYPE_CHECKING", "typing.TYPE_CHECKING", "sys.platform == 'no-such-os'", "False"]
_MV = 'memoryview(b"")'
WRAPS = {
    # if / elif / else
    "if": lambda c: f"{c.i}if {c.t}:\n{c.B}",
    "if_else_pass": lambda c: f"{c.i}if {c.t}:\n{c.B}{c.i}else:\n{c.i1}pass\n",
    "else": lambda c: f"{c.i}if {c.f}:\n{c.i1}pass\n{c.i}else:\n{c.B}",
    "elif": lambda c: f"{c.i}if {c.f}:\n{c.i1}pass\n{c.i}elif {c.t}:\n{c.B}",
    "elif_else": lambda c: f"{c.i}if {c.f}:\n{c.i1}pass\n{c.i}elif not {c.t}:\n{c.i1}pass\n{c.i}else:\n{c.B}",
    "ifelse_dup": lambda c: f"{c.i}if {c.any}:\n{c.B}{c.i}else:\n{c.B}",
    "elif_dup": lambda c: f"{c.i}if {c.f}:\n{c.B}{c.i}elif {c.t}:\n{c.B}{c.i}else:\n{c.B}",
    # try / except / else / finally, except*
    "try": lambda c: f"{c.i}try:\n{c.B}{c.i}except Exception:\n{c.i1}pass\n",
    "try_as": lambda c: f"{c.i}try:\n{c.B}{c.i}except (ImportError, AttributeError) as {c.v}:\n{c.i1}pass\n",
    "try_finally": lambda c: f"{c.i}try:\n{c.B}{c.i}finally:\n{c.i1}pass\n",
    "except": lambda c: f"{c.i}try:\n{c.i1}raise ValueError\n{c.i}except ValueError:\n{c.B}",
    "except_as": lambda c: f"{c.i}try:\n{c.i1}raise KeyError(0)\n{c.i}except (TypeError, KeyError) as {c.v}:\n{c.B}",
    "except_second": lambda c: f"{c.i}try:\n{c.i1}raise KeyError(0)\n{c.i}except ValueError:\n{c.i1}pass\n{c.i}except KeyError:\n{c.B}",
    "except_bare": lambda c: f"{c.i}try:\n{c.i1}raise ValueError\n{c.i}except:\n{c.B}",
    "tryexcept_dup": lambda c: f"{c.i}try:\n{c.B}{c.i}except ImportError:\n{c.B}",
    "tryelse": lambda c: f"{c.i}try:\n{c.i1}pass\n{c.i}except Exception:\n{c.i1}pass\n{c.i}else:\n{c.B}",
    "finally": lambda c: f"{c.i}try:\n{c.i1}pass\n{c.i}finally:\n{c.B}",
    "except_finally": lambda c: f"{c.i}try:\n{c.i1}pass\n{c.i}except Exception:\n{c.i1}raise\n{c.i}else:\n{c.i1}pass\n{c.i}finally:\n{c.B}",
    "trystar": lambda c: f"{c.i}try:\n{c.B}{c.i}except* ValueError:\n{c.i1}pass\n",
    "exceptstar": lambda c: f"{c.i}try:\n{c.i1}raise ExceptionGroup('g', [ValueError(0)])\n{c.i}except* ValueError:\n{c.B}",
    "exceptstar_as": lambda c: f"{c.i}try:\n{c.i1}raise ExceptionGroup('g', [KeyError(0)])\n{c.i}except* TypeError:\n{c.i1}pass\n{c.i}except* (KeyError, OSError) as {c.v}:\n{c.B}",
    "trystar_else": lambda c: f"{c.i}try:\n{c.i1}pass\n{c.i}except* OSError:\n{c.i1}pass\n{c.i}else:\n{c.B}",
    "trystar_finally": lambda c: f"{c.i}try:\n{c.i1}pass\n{c.i}except* OSError:\n{c.i1}pass\n{c.i}finally:\n{c.B}",
    # with
    "with": lambda c: f"{c.i}with {_MV}:\n{c.B}",
    "with_as": lambda c: f"{c.i}with {_MV} as {c.v}:\n{c.B}",
    "with_multi": lambda c: f"{c.i}with {_MV} as {c.v}, {_MV}:\n{c.B}",
    "with_paren": lambda c: f"{c.i}with (\n{c.i1}{_MV} as {c.v},\n{c.i1}{_MV} as {c.v}b,\n{c.i}):\n{c.B}",
    # loops
    "for": lambda c: f"{c.i}for {c.v} in (0,):\n{c.B}",
    "for_pass_else": lambda c: f"{c.i}for {c.v} in (0,):\n{c.B}{c.i}else:\n{c.i1}pass\n",
    "forelse": lambda c: f"{c.i}for {c.v} in ():\n{c.i1}pass\n{c.i}else:\n{c.B}",
    "while": lambda c: f"{c.i}while True:\n{c.B}{c.i1}break\n",
    "whileelse": lambda c: f"{c.i}while False:\n{c.i1}pass\n{c.i}else:\n{c.B}",
    # match / case
    "match_lit": lambda c: f"{c.i}match 1:\n{c.i1}case 0:\n{c.i2}pass\n{c.i1}case 1:\n{c.BB}",
    "match_first": lambda c: f"{c.i}match 'a':\n{c.i1}case 'a' | 'b':\n{c.BB}{c.i1}case _:\n{c.i2}pass\n",
    "match_class": lambda c: f"{c.i}match 1:\n{c.i1}case str():\n{c.i2}pass\n{c.i1}case int():\n{c.BB}",
    "match_guard": lambda c: f"{c.i}match 1:\n{c.i1}case {c.v} if {c.v} > 5:\n{c.i2}pass\n{c.i1}case {c.v} if {c.v} == 1 and {c.t}:\n{c.BB}",
    "match_wild": lambda c: f"{c.i}match 0:\n{c.i1}case 1:\n{c.i2}pass\n{c.i1}case _:\n{c.BB}",
    "match_seq": lambda c: f"{c.i}match (1, 2):\n{c.i1}case [{c.v}]:\n{c.i2}pass\n{c.i1}case [{c.v}, *{c.v}r]:\n{c.BB}",
    "match_map": lambda c: f"{c.i}match {{'k': 1}}:\n{c.i1}case {{'k': 2}}:\n{c.i2}pass\n{c.i1}case {{'k': {c.v}}}:\n{c.BB}",
    "match_dup": lambda c: f"{c.i}match sys.platform:\n{c.i1}case 'win32' | 'cygwin':\n{c.BB}{c.i1}case 'darwin' if {c.t}:\n{c.BB}{c.i1}case _:\n{c.BB}",
}
DUP_WRAPS = {"ifelse_dup", "elif_dup", "tryexcept_dup", "match_dup"}
# the statements of the body sit directly in an `if` branch or an except handler: what C01's tie-break calls conditional
COND_WRAPS = {"if", "if_else_pass", "else", "elif", "elif_else", "ifelse_dup", "elif_dup", "except", "except_as", "except_second", "except_bare",
              "tryexcept_dup", "exceptstar", "exceptstar_as"}
NEUTRAL_WRAPS = sorted(set(WRAPS) - COND_WRAPS - DUP_WRAPS)


def wrap_family(kind: str) -> str:
    if kind.startswith("match"):
        return "match_case"
    if kind.startswith(("try", "except", "finally")):
        return "try_statement"
    if kind.startswith("with"):
        return "with_statement"
    if kind.startswith(("for", "while")):
        return "loop"
    return "if_statement"


def gen_wrap(rng: random.Random, neutral_inner: bool = False, dup: bool = True) -> list[dict]:
    """1-2 nested compound statements, innermost first. ``neutral_inner``: the innermost one does not make its body conditional
    in the sense of the tie-break for attributes bound several times; ``dup`` False: no spelling that writes the body twice."""
    out = []
    for depth in range(rng.choice([1, 1, 1, 2, 2])):
        fam = rng.choice(["match_case", "match_case", "try_statement", "try_statement", "with_statement", "loop", "if_statement", "if_statement"])
        pool = [k for k in (NEUTRAL_WRAPS if neutral_inner and depth == 0 else sorted(WRAPS)) if wrap_family(k) == fam and (dup or k not in DUP_WRAPS)]
        if not pool:
            pool = [k for k in NEUTRAL_WRAPS if wrap_family(k) in ("match_case", "with_statement", "loop")]
        out.append({"w": rng.choice(pool), "t": rng.choice(TRUE_CONDS), "f": rng.choice(FALSE_CONDS)})
    return out


def wrap_text(w: dict, body: str, ind: str, depth: int) -> str:
    c = types.SimpleNamespace(i=ind, i1=ind + "    ", i2=ind + "        ", t=w["t"], f=w["f"], v=f"_w{depth}",
                              B=textwrap.indent(body, "    "), BB=textwrap.indent(body, "        "))
    c.any = w["t"] if len(w["t"]) % 2 else w["f"]  # (a platform switch: whichever branch runs defines the same)
    return WRAPS[w["w"]](c)


def apply_wraps(wraps: list[dict] | None, body: str, ind: str) -> str:
    if wraps and body.strip():
        for depth, w in enumerate(wraps):
            body = wrap_text(w, body, ind, depth)
    return body


def wrap_constraints(group: list[dict]) -> tuple[bool, bool]:
    """(innermost statement must be neutral, duplicating spellings allowed) for a run of objects sharing one block: attributes
    bound several times keep the meaning of their bindings only in a neutral block, written once; the __init__ that carries
    instance attributes is written once."""
    multi = any(o.get("binds") is not None for o in group)
    carrier = any(o["kind"] == "func" and o["name"] == "__init__" for o in group)
    return multi, not (multi or carrier)


def assign_wraps(rng: random.Random, model: dict) -> None:
    """Put definitions, class members and re-exporting imports into compound statements; runs of 2-3 neighbours may share one."""
    gid = [0]

    def over(objs: list[dict]) -> None:
        i = 0
        while i < len(objs):
            n = rng.choice([1, 1, 1, 2, 3])
            group = objs[i:i + n]
            if rng.random() < 0.45:
                neutral, dup = wrap_constraints(group)
                wraps = gen_wrap(rng, neutral, dup)
                gid[0] += 1
                for o in group:
                    o["wrap"] = copy.deepcopy(wraps)
                    o["grp"] = gid[0]
            for o in group:
                if o["kind"] == "class":
                    over(o["members"])
            i += n

    for m in model["mods"].values():
        over(m["objs"])
        for frm, name, asname in m["imports"]:
            if rng.random() < 0.3:
                m.setdefault("iwrap", {})[asname or name] = gen_wrap(rng)


def wraps_of(model: dict) -> tuple[dict[str, list[str]], dict[str, list[str]]]:
    """(canonical path of an object -> spellings of the compound statements its definition sits in, own and the enclosing
    class's, innermost first; module.localname of an import -> spellings of the statements around the import)."""
    objs, imps = {}, {}
    for mod, cls, o in all_objects(model):
        ws = [w["w"] for w in o.get("wrap") or ()] + [w["w"] for w in (cls.get("wrap") if cls else None) or ()]
        if ws:
            objs[canon(mod, cls, o)] = ws
    for mod, m in model["mods"].items():
        live = {i[2] or i[1] for i in m["imports"]}
        for local, ws in (m.get("iwrap") or {}).items():
            if local in live:
                imps[f"{mod}.{local}"] = [w["w"] for w in ws]
    return objs, imps


ALL_FORMS = ["star", "plus", "plus_rev", "aug", "tuple", "ann"]  # how the module writes its composed __all__
# how a term refers to the other module's __all__ (attr_hop: `m.__all__` where m is imported from a third module that imported it)
ALL_REFS = ["name", "relative", "attr_from", "attr_import_as", "attr_import", "attr_hop"]


def import_reaches(mods: dict, start: str, goal: str) -> bool:
    """Executing module ``start`` makes Python execute ``goal`` (imports of every spelling, parent packages first)."""
    def needs(mod: str) -> set[str]:
        m = mods[mod]
        out = {i[0] for i in m["imports"]} | set(m.get("wild", []))
        out |= {c["src"] for c in m.get("compose", [])} | {c["hop"] for c in m.get("compose", []) if c.get("hop")}
        out |= {c["src"] for m2 in mods.values() for c in m2.get("compose", []) if c.get("hop") == mod}
        for x in list(out) + [mod]:
            while "." in x:
                x = x.rsplit(".", 1)[0]
                if x != "pk":
                    out.add(x)
        return {x for x in out if x in mods and x != mod}
    seen, stack = set(), [start]
    while stack:
        cur = stack.pop()
        if cur == goal:
            return True
        if cur not in seen:
            seen.add(cur)
            stack.extend(needs(cur))
    return False


def gen_model(rng: random.Random, siblings: bool | None = None, compose: bool | None = None, shapes: bool | None = None,  # noqa: C901, PLR0912, PLR0915
              attrs: bool | None = None, wraps: bool | None = None) -> dict:
    """``wraps``: None = drawn, True = definitions, class members and re-exporting imports sit inside compound statements that
    run exactly once at import time (if / try / except* / with / loops / match, nested up to two deep). ``siblings``: None = drawn, True = the private sibling top-level package is present and linked by an exported
    re-export, False = single-package model. ``compose``: None = drawn, True = some modules build their ``__all__`` from
    other modules' ``__all__``. ``shapes``: None = drawn, True = boundary shapes of containers occur: classes with an empty
    body (``pass``, ``...``, docstring only) or with private members only that offer what they inherit, a module that only
    imports, packages with an empty ``__init__``. ``attrs``: None = drawn, True = attributes are bound several times (class
    level, __init__, module level; plainly and under if / else / try-except / loops / with; annotated or not)."""
    mods: dict[str, dict] = {}
    counter = [0]

    def fresh(prefix: str) -> str:
        counter[0] += 1
        return f"{prefix}{counter[0]}"

    shapes_on = (rng.random() < 0.6) if shapes is None else shapes

    attrs_on = (rng.random() < 0.6) if attrs is None else attrs

    def gen_attr(name: str, in_class: bool) -> dict:
        """An attribute: bound once, or (attrs_on) several times - at class / module level and in __init__, plainly and
        under conditions, annotated or not, with literal values or the __init__ parameter named after it."""
        o = new_obj(name, "attr", value=str(rng.randint(0, 9)))
        if not attrs_on or rng.random() < 0.3:
            return o
        binds = []
        for k in range(rng.choice([1, 2, 2, 3, 3, 4])):
            site = rng.choice(["body", "init", "init"]) if in_class else "body"
            if k == 0:
                ctx = rng.choice(["plain"] * 6 + ["bare", "if", "try", "ifelse"])
            else:
                ctx = rng.choice(["if", "if", "else", "elif", "except", "except", "ifelse", "tryexcept", "for_if",
                                  "plain", "try", "tryelse", "finally", "for", "while", "with", "if_with", "bare", "bare",
                                  "match", "match_wild", "trystar", "exceptstar", "forelse", "whileelse"])
            if ctx == "bare" and (site == "init" or (k == 0 and not in_class)):
                ctx = "plain"  # (a module-level name that is only declared cannot be imported by the other modules)
            b = {"site": site, "ctx": ctx, "ann": ctx != "bare" and rng.random() < 0.25}
            if ctx != "bare":
                for key in ("value", "value2") if ctx in TWO_CTX else ("value",):
                    b[key] = f"p_{name}" if site == "init" and rng.random() < 0.4 else str(rng.randint(0, 99))
            binds.append(b)
        o["binds"] = binds
        return o

    def gen_class(name: str, bases: list[str], plain: bool = False) -> dict:
        members = []
        shape = rng.random() if shapes_on and not plain else 1.0
        if bases and shape < 0.3:
            # declares nothing itself: its whole interface is inherited
            return new_obj(name, "class", bases=list(bases), members=[], body=rng.choice(["pass", "ellipsis", "doc"]))
        for _ in range(rng.randint(1, 3)):
            mname = fresh(rng.choice(["m", "m", "_pm"]) if not (bases and shape < 0.42) else "_pm")  # or: private members only
            if rng.random() < (0.5 if attrs_on else 0.7):
                members.append(new_obj(mname, "func", params=[("self", None), ("x", None)][: rng.randint(1, 2)]))
            else:
                members.append(gen_attr(mname, in_class=True))
        inits = [m for m in members if any(b["site"] == "init" for b in m.get("binds") or ())]
        if inits:
            # __init__ takes one optional parameter per instance attribute; it sits anywhere among the members
            init = new_obj("__init__", "func", params=[("self", None)] + [(f"p_{m['name']}", "None") for m in inits])
            members.insert(rng.randint(0, len(members)), init)
        return new_obj(name, "class", bases=list(bases), members=members)

    def gen_objs(n: int, private_share: float) -> list[dict]:
        objs = []
        for _ in range(n):
            priv = rng.random() < private_share
            k = rng.choice(["func", "func", "class", "attr"])
            name = fresh(("_" if priv else "") + {"func": "f", "class": "C", "attr": "A"}[k])
            if k == "func":
                params = [(fresh("p"), rng.choice([None, "0"])) for _ in range(rng.randint(0, 2))]
                params.sort(key=lambda p: p[1] is not None)
                objs.append(new_obj(name, "func", params=params))
            elif k == "class":
                objs.append(gen_class(name, []))
            else:
                objs.append(gen_attr(name, in_class=False))
        return objs

    core = gen_objs(rng.randint(3, 6), 0.25)
    # inheritance inside core: a (possibly private) base and a public subclass
    base = gen_class(fresh(rng.choice(["Base", "_Base"])), [])
    sub = gen_class(fresh("Sub"), [base["name"]])
    core += [base, sub]
    impl = gen_objs(rng.randint(2, 4), 0.2)
    pbase = None
    if shapes_on:
        # a base class in the private module (re-exported by the root or not, as the draw below decides) for an empty-bodied
        # public class elsewhere
        pbase = gen_class(fresh(rng.choice(["PBase", "_PBase"])), [], plain=True)
        if not any(not m["name"].startswith("_") for m in pbase["members"]):
            pbase["members"].append(new_obj(fresh("m"), rng.choice(["func", "attr"]), params=[("self", None)]))
        impl.append(pbase)
    mods["pk.core"] = {"objs": core, "imports": [], "all": None}
    mods["pk._impl"] = {"objs": impl, "imports": [], "all": None}
    if rng.random() < 0.5:
        mods["pk.core"]["all"] = [o["name"] for o in core if rng.random() < 0.75]
    init_imports = []
    for o in rng.sample(core, rng.randint(0, min(3, len(core)))):
        init_imports.append(("pk.core", o["name"], rng.choice([None, None, o["name"] + "_re"])))
    for o in rng.sample(impl, rng.randint(1, min(3, len(impl)))):
        # private-module objects (some with private names) re-exported, possibly under a public name
        init_imports.append(("pk._impl", o["name"], rng.choice([None, o["name"] + "_re", o["name"].lstrip("_") + "_pub"])))
    init_objs = gen_objs(rng.randint(0, 2), 0.2)
    mods["pk"] = {"objs": init_objs, "imports": init_imports, "all": None}
    mods["pk.sub"] = {"objs": gen_objs(rng.randint(0, 2), 0.2), "imports": [], "all": None}
    # pk.sub.mod: a class inheriting from a core class through an import
    core_classes = [o for o in core if o["kind"] == "class"]
    target = rng.choice(core_classes)
    submod_objs = gen_objs(rng.randint(1, 2), 0.2)
    submod_objs.append(gen_class(fresh("D"), [target["name"]]))
    mods["pk.sub.mod"] = {"objs": submod_objs, "imports": [("pk.core", target["name"], None)], "all": None}
    if pbase is not None:
        host = rng.choice(["pk", "pk.core", "pk.sub", "pk.sub.mod"])
        asname = rng.choice([None, None, pbase["name"].lstrip("_") + "_b"])
        mods[host]["imports"].append(("pk._impl", pbase["name"], asname))
        empty = new_obj(fresh("E"), "class", bases=[asname or pbase["name"]], members=[], body=rng.choice(["pass", "ellipsis", "doc"]))
        mods[host]["objs"].append(empty)
        if mods[host]["all"] is not None and rng.random() < 0.9:
            mods[host]["all"].append(empty["name"])
        if rng.random() < 0.5:
            # a module that only imports: with an __all__ it is a public route to what it imports, without it is none
            picks = rng.sample(impl, rng.randint(1, min(2, len(impl))))
            shim_imports = [("pk._impl", o["name"], rng.choice([None, o["name"].lstrip("_") + "_sh"])) for o in picks]
            mods["pk.shim"] = {"objs": [], "imports": shim_imports, "all": [i[2] or i[1] for i in shim_imports] if rng.random() < 0.75 else None}

    # sibling top-level packages: a private one (_pk next to pk: the ast/_ast, griffe/_griffe layout; the only kind of
    # package `griffe check` loads on its own, and only afterwards, while resolving an exported alias into it) and a
    # public one (pkb: never loaded implicitly). They hold base classes of pk classes and objects pk re-exports.
    sibling_names: list[tuple[str, str]] = []  # (name, sibling package) of what pk/__init__ imports explicitly from a sibling package
    wild_listed: list[str] = []  # names a wildcard import brings into pk/__init__ that its __all__ is going to list

    def add_sibling(topname: str, submod: str, cprefix: str) -> None:
        sbase = gen_class(fresh(rng.choice([cprefix, cprefix, "_" + cprefix])), [])
        sub_objs = gen_objs(rng.randint(1, 3), 0.2) + [sbase]
        if rng.random() < 0.4:
            sub_objs.append(gen_class(fresh(cprefix + "Mid"), [sbase["name"]]))
        mods[f"{topname}.{submod}"] = {"objs": sub_objs, "imports": [], "all": None}
        empty_init = shapes_on and rng.random() < 0.2  # the sibling package's __init__ is empty: everything lives in its submodule
        top_objs = [] if empty_init else gen_objs(rng.randint(1, 2), 0.2)
        top_imports = []
        hop = not empty_init and rng.random() < 0.5  # the package's __init__ re-exports the classes of its submodule: importable through that hop
        if hop:
            top_imports = [(f"{topname}.{submod}", o["name"], None) for o in sub_objs if o["kind"] == "class"]
        top_all = None
        if rng.random() < 0.4 and not empty_init:
            top_all = [o["name"] for o in top_objs if rng.random() < 0.8] + [i[1] for i in top_imports if rng.random() < 0.8]
        mods[topname] = {"objs": top_objs, "imports": top_imports, "all": top_all}
        # `from <sibling> import *` as the first line of pk/__init__ (at most one wildcard import there)
        wild_names: list[str] = []
        if rng.random() < 0.35 and not mods["pk"].get("wild"):
            mods["pk"]["wild"] = [topname]
            wild_names = [i[1] for i in imports_of({"mods": mods}, "pk")[len(init_imports):]]
            wild_listed.extend(n for n in wild_names if rng.random() < 0.5)
        # 1-2 classes of pk inherit from a class of the sibling package (imported directly or through the hop)
        sclasses = [o for o in sub_objs if o["kind"] == "class"]
        for _ in range(rng.randint(1, 2)):
            sc = rng.choice(sclasses)
            host = rng.choice(["pk", "pk", "pk.core", "pk.sub.mod"])
            frm = topname if hop and rng.random() < 0.5 else f"{topname}.{submod}"
            asname = rng.choice([None, None, sc["name"].lstrip("_") + "_b"])
            local = asname or sc["name"]
            hm = mods[host]
            if host == "pk" and sc["name"] in wild_names and rng.random() < 0.5:
                local = sc["name"]  # the base class is known in pk/__init__ through the wildcard import only
            elif not any((i[2] or i[1]) == local for i in hm["imports"]):
                hm["imports"].append((frm, sc["name"], asname))
                if host == "pk":
                    sibling_names.append((local, topname))
            bases = [local]
            if host == "pk.core" and rng.random() < 0.3:
                bases.append(base["name"])  # multiple inheritance: a base of the package itself next to the sibling one
            kid = gen_class(fresh("K"), bases)
            overridable = [x for x in sc["members"] if not any(y["name"] == x["name"] for y in kid["members"])]
            if rng.random() < 0.3 and overridable and kid["members"]:
                over = copy.deepcopy(rng.choice(overridable))  # overrides an inherited member: the base's one is shadowed
                over.pop("binds", None)  # (bound once, at class level)
                kid["members"].append(over)
            hm["objs"].append(kid)
            if hm["all"] is not None and host != "pk" and rng.random() < 0.85:
                hm["all"].append(kid["name"])
        # 1-2 objects of the sibling package re-exported by pk/__init__
        pool = [(topname, o) for o in top_objs] + [(f"{topname}.{submod}", o) for o in sub_objs]
        for smod, o in rng.sample(pool, rng.randint(1, min(2, len(pool)))):
            asname = rng.choice([None, None, o["name"].lstrip("_") + "_sx"])
            if not any((i[2] or i[1]) == (asname or o["name"]) for i in init_imports):
                init_imports.append((smod, o["name"], asname))
                sibling_names.append((asname or o["name"], topname))

    with_private = rng.random() < 0.65 if siblings is None else siblings
    with_public = rng.random() < 0.35 if siblings is None else (siblings and rng.random() < 0.35)
    if with_private:
        add_sibling("_pk", "base", "SBase")
    if with_public:
        add_sibling("pkb", "mod", "PB")

    init_all = None
    if rng.random() < 0.7 or siblings or mods["pk"].get("wild"):
        init_all = [(a or n) for (_m, n, a) in init_imports if rng.random() < 0.7] + [o["name"] for o in init_objs if rng.random() < 0.8]
        init_all += [n for n in wild_listed if n not in init_all]
        link = [n for n, t in sibling_names if t == "_pk"]
        if link and not any(n in init_all for n in link) and (siblings or rng.random() < 0.85):
            init_all.append(rng.choice(link))
        if mods["pk"].get("wild") and not init_all:
            # whether names that only a wildcard import brings in are public without __all__ is not settled by the documented
            # rules: a module with a wildcard import always declares a non-empty __all__ here
            init_all.append("_impl")
    mods["pk"]["all"] = init_all
    # underscore-named modules that are public all the same: listed in the parent's __all__, or special (__main__)
    if mods["pk"]["all"] is not None and rng.random() < 0.35:
        mods["pk"]["all"].append("_impl")
    if rng.random() < 0.3:
        mods["pk.__main__"] = {"objs": gen_objs(rng.randint(1, 2), 0.2), "imports": [], "all": None}
    if rng.random() < 0.3:
        mods["pk.sub._low"] = {"objs": gen_objs(rng.randint(1, 2), 0.2), "imports": [], "all": None}
        if rng.random() < 0.7:
            mods["pk.sub"]["all"] = [o["name"] for o in mods["pk.sub"]["objs"] if rng.random() < 0.8] + (["_low"] if rng.random() < 0.7 else [])
    extra = rng.choice([None, None, "dangling", "cyclic"])
    if extra and mods["pk"]["all"] is not None:
        mods["pk"]["all"].append("ghost" if extra == "dangling" else "loop_a")  # the broken re-export is exported

    # __all__ lists composed from other modules' __all__ (`[..., *other_all]`, `+ other.__all__`, `+=` ...): a private
    # (pk._impl) and a public (pk.core) source module, possibly chained, each consumed by 1-3 modules - the root, existing
    # submodules, new modules whose names sort before / after the sources - that bring the listed objects in by a wildcard
    # import or one by one. The composed entries are what makes those objects public in the consumer.
    if (rng.random() < 0.55) if compose is None else compose:
        model = {"mods": mods}
        if mods["pk._impl"]["all"] is None and (compose or rng.random() < 0.75):
            names = [o["name"] for o in impl]
            mods["pk._impl"]["all"] = [n for n in names if rng.random() < 0.75] or [names[0]]
        sources = [src for src in ("pk._impl", "pk.core") if mods[src]["all"]]

        def consume(cons: str, src: str) -> None:
            cm = mods[cons]
            if cm["all"] is None:
                cm["all"] = [o["name"] for o in cm["objs"] if rng.random() < 0.8]
            if not cm["all"]:  # at least one literal entry of its own
                if not cm["objs"]:
                    cm["objs"].append(new_obj(fresh("own"), "func"))
                cm["all"].append(cm["objs"][0]["name"])
            entry = {"src": src, "ref": rng.choice(ALL_REFS)}
            if entry["ref"] == "attr_hop":
                entry["hop"] = rng.choice([h for h in ("pk", "pk.sub", "pk.sub.mod") if h not in (cons, src)])
            cm.setdefault("compose", []).append(entry)
            # (a module whose own __all__ is consumed in turn keeps it a list: `[...] + a_tuple` is a TypeError at run time)
            cm.setdefault("form", rng.choice([f for f in ALL_FORMS if f != "tuple" or cons not in ("pk.core", "pk._impl")]))
            if rng.random() < 0.6:
                cm.setdefault("wild", []).append(src)
            else:
                # (also names a wildcard import from elsewhere already provides: that import may be dropped by an edit)
                have = {o["name"] for o in cm["objs"]} | {i[2] or i[1] for i in cm["imports"]}
                cm["imports"].extend((src, n, None) for n in eff_all(model, src) or [] if n not in have)

        if len(sources) == 2 and rng.random() < 0.3:
            consume("pk.core", "pk._impl")  # a chain: pk.core's own __all__ is composed, and consumed in turn
        for src in sources:
            pool = ["pk", "pk.sub", "pk.sub.mod", "pk.aapi", "pk.api", "pk.zapi", "pk._api"]
            for cons in rng.sample(pool, rng.choice([1, 2, 2, 3])):
                if cons not in mods:
                    mods[cons] = {"objs": gen_objs(rng.randint(1, 2), 0.2), "imports": [], "all": None}
                if not any(c["src"] == src for c in mods[cons].get("compose", [])):
                    consume(cons, src)
        # a module reached through a third one (attr_hop) must stay importable: the third module (or its parent package,
        # which runs first) must not need, directly or not, the module that is in the middle of importing it
        for cons, cm in mods.items():
            for entry in cm.get("compose", []):
                if entry.get("hop") and import_reaches(mods, entry["hop"], cons):
                    entry["ref"] = "attr_from"
                    del entry["hop"]
    if (shapes_on and rng.random() < 0.12 and tops_of({"mods": mods}) == ["pk"] and not mods["pk"].get("wild") and not mods["pk"].get("compose")
            and not any(c.get("hop") == "pk" for m in mods.values() for c in m.get("compose", []))):
        # the root __init__ is empty: every public route starts at a submodule
        mods["pk"] = {"objs": [], "imports": [], "all": None}
        extra = None
    model = {"mods": mods, "extra": extra, "wraps": (rng.random() < 0.7) if wraps is None else wraps}
    if model["wraps"]:
        assign_wraps(rng, model)
    return model


def render_obj(o: dict, indent: str = "", cls: dict | None = None, plain: bool = False) -> str:
    """The definition itself, without the compound statements it may sit in (see render_objs)."""
    if o["kind"] == "func":
        ps = ", ".join(n if d is None else f"{n}={d}" for n, d in o["params"])
        body = ""
        if cls is not None and o["name"] == "__init__":
            # the instance attributes of the class: `self.x = ...`, in member order
            for mem in cls["members"]:
                for b in (mem.get("binds") or ()) if mem["kind"] == "attr" else ():
                    if b["site"] == "init":
                        body += render_binding(b, f"self.{mem['name']}", indent + "    ", f"p_{mem['name']} is not None")
        return f"{indent}def {o['name']}({ps}):" + (f"\n{body}" if body else " ...\n")
    if o["kind"] == "attr":
        if o.get("binds") is None:
            return f"{indent}{o['name']} = {o['value']}\n"
        return "".join(render_binding(b, o["name"], indent, "__debug__") for b in o["binds"] if b["site"] == "body")
    head = f"{indent}class {o['name']}" + (f"({', '.join(o['bases'])})" if o["bases"] else "") + ":\n"
    empty = {"pass": "pass", "ellipsis": "...", "doc": '"""Everything is inherited."""'}[o.get("body") or "pass"]
    body = render_objs(o["members"], indent + "    ", o, plain) or f"{indent}    {empty}\n"
    return head + body


def render_objs(objs: list[dict], indent: str = "", cls: dict | None = None, plain: bool = False) -> str:
    """The definitions in order; a definition with a ``wrap`` sits inside those compound statements, together with the
    neighbours that follow it and belong to the same group. ``plain``: the same definitions, none of the statements."""
    out, i = "", 0
    while i < len(objs):
        o, j = objs[i], i + 1
        wraps = None if plain else o.get("wrap")
        if wraps and o.get("grp") is not None:
            while j < len(objs) and objs[j].get("grp") == o["grp"] and objs[j].get("wrap") == wraps:
                j += 1
        body = "".join(render_obj(x, indent, cls, plain) for x in objs[i:j])
        out += apply_wraps(wraps, body, indent)
        i = j
    return out


def all_term(mod: str, c: dict, k: int, pkgs: set[str]) -> tuple[str, str]:
    """(import statement, expression) by which module ``mod`` refers to the ``__all__`` of ``c['src']``."""
    src, ref = c["src"], c["ref"]
    parent, _, leaf = src.rpartition(".")
    if ref == "name":
        return f"from {src} import __all__ as _all{k}\n", f"_all{k}"
    if ref == "relative":
        base = mod if mod in pkgs else mod.rsplit(".", 1)[0]
        level = 1
        while not src.startswith(base + "."):
            base = base.rsplit(".", 1)[0]
            level += 1
        return f"from {'.' * level}{src[len(base) + 1:]} import __all__ as _all{k}\n", f"_all{k}"
    if ref == "attr_from":
        return f"from {parent} import {leaf} as _mod{k}\n", f"_mod{k}.__all__"
    if ref == "attr_hop":
        return f"from {c['hop']} import _hop_{leaf} as _mod{k}\n", f"_mod{k}.__all__"
    if ref == "attr_import_as":
        return f"import {src} as _mod{k}\n", f"_mod{k}.__all__"
    return f"import {src}\n", f"{src}.__all__"


def render_all(lits: list[str], terms: list[str], form: str | None) -> str:
    if not terms:
        return f"__all__ = {lits!r}\n"
    items = [repr(x) for x in lits]
    if form == "star":
        return "__all__ = [" + ", ".join(items + ["*" + t for t in terms]) + "]\n"
    if form == "tuple":
        return "__all__ = (" + "".join(x + ", " for x in ["*" + t for t in terms[:1]] + items + ["*" + t for t in terms[1:]]) + ")\n"
    if form == "ann":
        return "__all__: list[str] = [" + ", ".join(["*" + t for t in terms] + items) + "]\n"
    if form == "plus":
        return "__all__ = " + " + ".join([repr(lits), *terms]) + "\n"
    if form == "plus_rev":
        return "__all__ = " + " + ".join([*terms, repr(lits)]) + "\n"
    return f"__all__ = {lits!r}\n" + "".join(f"__all__ += {t}\n" for t in terms)  # aug


def render(model: dict, plain: bool = False) -> dict[str, str]:
    """``plain``: the same package with every definition and import at the top level of its module / class body."""
    files = {}
    pkgs = {"pk", "pk.sub"} | {top_of(m) for m in model["mods"]} | {m for m in model["mods"] if any(x.startswith(m + ".") for x in model["mods"])}
    for mod, m in model["mods"].items():
        # modules that other modules reach this one's neighbours through (`from <here> import _hop_x as m; m.__all__`); first
        # lines of the module, so that the name exists however the imports of the package interleave at run time
        hops = sorted({c["src"] for m2 in model["mods"].values() for c in m2.get("compose", []) if c.get("hop") == mod})
        src = "".join(f"from {h.rpartition('.')[0]} import {h.rpartition('.')[2]} as _hop_{h.rpartition('.')[2]}\n" for h in hops)
        src += "".join(f"from {w} import *\n" for w in m.get("wild", []))
        iwrap = {} if plain else (m.get("iwrap") or {})
        for frm, name, asname in m["imports"]:
            src += apply_wraps(iwrap.get(asname or name), f"from {frm} import {name}" + (f" as {asname}" if asname else "") + "\n", "")
        if mod == "pk" and model.get("extra") == "dangling":
            src += "from pk.nowhere import ghost\n"
        if mod == "pk" and model.get("extra") == "cyclic":
            src += "from pk.core import loop_a\n"
        if mod == "pk.core" and model.get("extra") == "cyclic":
            src += "from pk import loop_a\n"
        terms = []
        for k, c in enumerate(m.get("compose", [])):
            line, term = all_term(mod, c, k, pkgs)
            src += line
            terms.append(term)
        src += render_objs(m["objs"], "", None, plain)
        if m["all"] is not None:
            src += render_all(m["all"], terms, m.get("form"))
        # what the conditions of the compound statements refer to (first statements of the module)
        pre = "import sys\n" if "sys." in src else ""
        pre += "import typing\n" if "typing.TYPE_CHECKING" in src else ""
        pre += "from typing import TYPE_CHECKING\n" if re.search(r"(?<![.\w])TYPE_CHECKING", src) else ""
        rel = mod.replace(".", "/") + ("/__init__.py" if mod in pkgs else ".py")
        files[rel] = (pre + src) or "\n"
    return files


# -- public surface model ------------------------------------------------------------------------
def module_public(model: dict, mod: str) -> bool:
    """Every component below the top-level package must be public by the documented rules: a module without leading
    underscore is public whatever ``__all__`` says; an underscore-named one is public when its parent's (non-empty)
    ``__all__`` lists it, private when that ``__all__`` omits it, and - without ``__all__`` - public only when its
    name is special (``__main__``). Only ``pk`` is the compared package: modules of sibling top-level packages have
    no public path of their own (their objects can only be public through pk: re-exported or inherited)."""
    parts = mod.split(".")
    if parts[0] != "pk":
        return False
    for i in range(1, len(parts)):
        name = parts[i]
        if not name.startswith("_"):
            continue
        pall = eff_all(model, ".".join(parts[:i]))
        if pall:
            if name not in pall:
                return False
        elif not (name.startswith("__") and name.endswith("__")):
            return False
    return True


def eff_all(model: dict, mod: str, _seen: tuple = ()) -> list[str] | None:
    """The value ``__all__`` has at run time: the literal entries plus, for every composition term (``*other_all``,
    ``+ other.__all__``, ``+=``), the effective ``__all__`` of the module it comes from. None: no ``__all__`` declared."""
    m = model["mods"].get(mod)
    if m is None or m["all"] is None:
        return None
    out = list(m["all"])
    for c in m.get("compose", []):
        if c["src"] == mod or c["src"] in _seen:
            continue
        out += [n for n in (eff_all(model, c["src"], (*_seen, mod)) or []) if n not in out]
    return out


def consumers_of(model: dict, src: str) -> list[str]:
    return [mod for mod, m in model["mods"].items() if any(c["src"] == src for c in m.get("compose", []))]


def explicit_downstream(model: dict, src: str, _seen: tuple = ()) -> bool:
    """Some module composes its ``__all__`` from ``src``'s (directly or through a chain) but imports the listed objects
    one by one: a name added to ``src``'s ``__all__`` would be listed there without being importable."""
    for c in consumers_of(model, src):
        if c in _seen:
            continue
        if src not in model["mods"][c].get("wild", []) or explicit_downstream(model, c, (*_seen, src)):
            return True
    return False


def name_public(model: dict, mod: str, name: str, imported: bool) -> bool:
    ea = eff_all(model, mod)
    if ea:
        return name in ea
    if name.startswith("_"):
        return False
    return not imported


def find_obj(model: dict, mod: str, name: str) -> dict | None:
    return next((o for o in model["mods"][mod]["objs"] if o["name"] == name), None)


def imports_of(model: dict, mod: str, loaded: set[str] | None = None, _seen: tuple = ()) -> list[tuple]:
    """The explicit ``from .. import`` statements of ``mod`` followed by the names its wildcard import (rendered as the first
    line of the module, so that explicit imports of the same name win) brings in: what the wildcard-imported module lists in
    ``__all__`` when it declares one, else its names without leading underscore (defined or imported there). A wildcard from
    a package that is not loaded brings in nothing that is known."""
    m = model["mods"][mod]
    out = [tuple(i) for i in m["imports"]]
    for w in m.get("wild", []):
        wm = model["mods"].get(w)
        if wm is None or (loaded is not None and top_of(w) not in loaded) or w == mod or w in _seen:
            continue
        # the names of the wildcard-imported module: defined, imported, or brought in by its own wildcard imports
        names = [o["name"] for o in wm["objs"]] + [i[2] or i[1] for i in imports_of(model, w, loaded, (*_seen, mod))]
        wall = eff_all(model, w)
        if wall is not None:
            names = [n for n in names if n in wall]
        else:
            names = [n for n in names if not n.startswith("_")]
        taken = {i[2] or i[1] for i in out}
        out += [(w, n, None) for n in names if n not in taken]
    return out


def composed_paths(model: dict) -> list[list]:
    """[path, consumer is the root module, source shared by several consumers] for every name that is listed in a module's
    effective ``__all__`` only thanks to a composition term (not literally)."""
    out = []
    for mod, m in model["mods"].items():
        if m["all"] is None or not m.get("compose"):
            continue
        for c in m["compose"]:
            for n in eff_all(model, c["src"]) or []:
                if n not in m["all"]:
                    out.append([f"{mod}.{n}", mod == "pk", len(consumers_of(model, c["src"])) > 1])
    return out


def boundary_shapes(model: dict, loaded: set[str] | None = None) -> dict[str, list]:
    """Public paths of containers of boundary shape: classes that declare nothing / only private members but have bases,
    modules that only import, packages whose ``__init__`` is empty; plus the spellings of the empty class bodies."""
    paths = public_paths(model, loaded)
    out: dict[str, list] = {"empty_class": [], "private_only_class": [], "import_only_module": [], "empty_init": [], "bodies": []}
    pkgs = {m for m in model["mods"] if any(x.startswith(m + ".") for x in model["mods"])}
    for mod, m in model["mods"].items():
        for o in m["objs"]:
            if o["kind"] == "class" and o["bases"]:
                ps = sorted(paths.get(f"{mod}.{o['name']}", ()))
                if not o["members"]:
                    out["empty_class"] += ps
                    if ps:
                        out["bodies"].append(o.get("body") or "pass")
                elif all(private_name(x["name"]) for x in o["members"]):
                    out["private_only_class"] += ps
        bare = not m["objs"] and not m.get("wild") and not m.get("compose")
        if bare and m["imports"] and module_public(model, mod):
            out["import_only_module"].append(mod)
        if bare and not m["imports"] and mod in pkgs:
            out["empty_init"].append(mod)
    return out


def wildcard_only_paths(model: dict, loaded: set[str] | None = None) -> list[str]:
    """Paths of names a module has through its wildcard import from a sibling package only, and of its classes that name
    such a base class."""
    out = []
    for mod, m in model["mods"].items():
        if m.get("wild"):
            wnames = {i[1] for i in imports_of(model, mod, loaded)[len(m["imports"]):] if top_of(i[0]) != "pk"}
            out += [f"{mod}.{n}" for n in sorted(wnames)]
            out += [f"{mod}.{o['name']}" for o in m["objs"] if o["kind"] == "class" and any(b in wnames for b in o["bases"])]
    return out


def tops_of(model: dict) -> list[str]:
    return sorted({top_of(m) for m in model["mods"]})


def resolve_name(model: dict, mod: str, name: str, loaded: set[str] | None = None) -> tuple[str, dict | str] | None:
    """Follow ``name`` of module ``mod`` through the chain of ``from .. import`` statements to its definition:
    (defining module, object) - or ("?", dotted target) when the chain leaves the loaded top-level packages
    (nothing is known about the target then) - or None (dangling / cyclic)."""
    seen = set()
    while (mod, name) not in seen:
        seen.add((mod, name))
        if loaded is not None and top_of(mod) not in loaded:
            return "?", f"{mod}.{name}"
        m = model["mods"].get(mod)
        if m is None:
            return None
        o = find_obj(model, mod, name)
        if o:
            return mod, o
        imp = next((i for i in imports_of(model, mod, loaded) if (i[2] or i[1]) == name), None)
        if imp is None:
            return None
        mod, name = imp[0], imp[1]
    return None


def class_lookup(model: dict, mod: str, cname: str, loaded: set[str] | None = None) -> tuple[str, dict] | None:
    """Resolve a base-class name used in module ``mod`` to (defining module, class object)."""
    r = resolve_name(model, mod, cname, loaded)
    if r and r[0] != "?" and r[1]["kind"] == "class":
        return r  # type: ignore[return-value]
    return None


def linearize(model: dict, mod: str, cls: dict, loaded: set[str] | None = None, _seen: tuple = ()) -> list[tuple[str, dict]]:
    """Python's method resolution order (C3) of the class over the bases that can be resolved among the loaded packages:
    the order in which a name is looked up, hence which of several same-named members (``__init__``) is inherited."""
    key = (mod, cls["name"])
    if key in _seen:
        return []
    bases = [r for r in (class_lookup(model, mod, b, loaded) for b in cls["bases"]) if r]
    seqs = [linearize(model, bm, bc, loaded, (*_seen, key)) for bm, bc in bases] + [list(bases)]
    seqs = [[x for x in q] for q in seqs if q]
    out = [(mod, cls)]
    ident = lambda x: (x[0], x[1]["name"])  # noqa: E731
    while seqs:
        for q in seqs:
            head = q[0]
            if not any(ident(head) in [ident(y) for y in other[1:]] for other in seqs):
                break
        else:
            head = seqs[0][0]  # inconsistent hierarchy (not generated): fall back to declaration order
        out.append(head)
        seqs = [[y for y in q if ident(y) != ident(head)] for q in seqs]
        seqs = [q for q in seqs if q]
    return out


def public_paths(model: dict, loaded: set[str] | None = None, unknown: dict | None = None) -> dict[str, set[str]]:
    """canonical path of every object (incl. class members) -> set of *public* paths it is reachable by, given the
    top-level packages that are in the collection (None: all of them - what Python itself sees). Public names of pk
    that lead into a package that is not loaded are collected in ``unknown`` (public path -> dotted target)."""
    out: dict[str, set[str]] = {}
    mods = {mod: m for mod, m in model["mods"].items() if loaded is None or top_of(mod) in loaded}
    # module-level objects through their definition and through re-exports
    top_paths: dict[tuple[str, str], set[str]] = {}
    for mod, m in mods.items():
        for o in m["objs"]:
            s = top_paths.setdefault((mod, o["name"]), set())
            if module_public(model, mod) and name_public(model, mod, o["name"], imported=False):
                s.add(f"{mod}.{o['name']}")
    for mod, m in mods.items():
        for _frm, name, asname in imports_of(model, mod, loaded):
            if not (module_public(model, mod) and name_public(model, mod, asname or name, imported=True)):
                continue
            r = resolve_name(model, mod, asname or name, loaded)
            if r is None:
                continue
            if r[0] == "?":
                if unknown is not None:
                    unknown[f"{mod}.{asname or name}"] = r[1]
                continue
            top_paths[(r[0], r[1]["name"])].add(f"{mod}.{asname or name}")
    for (mod, name), paths in top_paths.items():
        out[f"{mod}.{name}"] = set(paths)
    # class members, own and inherited
    for mod, m in mods.items():
        for o in m["objs"]:
            if o["kind"] != "class":
                continue
            cpaths = top_paths[(mod, o["name"])]
            seen_names = set()
            for cmod, cls in linearize(model, mod, o, loaded):
                for mem in cls["members"]:
                    canon = f"{cmod}.{cls['name']}.{mem['name']}"
                    out.setdefault(canon, set())
                    if mem["name"] in seen_names:
                        continue
                    seen_names.add(mem["name"])
                    if not private_name(mem["name"]):
                        out[canon] |= {f"{p}.{mem['name']}" for p in cpaths}
    return out


# -- loading sessions ----------------------------------------------------------------------------
def links_private_sibling(model: dict) -> bool:
    """`resolve_aliases(external=None)` loads the private sibling package `_pk` exactly when a module of pk lists in its
    (non-empty) ``__all__`` a name imported from `_pk` (an exported alias that cannot be resolved without it) or
    wildcard-imports a module of `_pk`."""
    if "_pk" not in model["mods"]:
        return False
    for mod, m in model["mods"].items():
        if top_of(mod) != "pk":
            continue
        if any(top_of(w) == "_pk" for w in m.get("wild", [])):
            return True  # wildcards are expanded first, loading the private sibling package whatever __all__ says
        ea = eff_all(model, mod)
        if ea:
            for frm, name, asname in m["imports"]:
                if top_of(frm) == "_pk" and (asname or name) in ea:
                    return True
    return False


def loaded_after(model: dict, ops: list[str]) -> list[str]:
    """Top-level packages in the collection after the session, in the order they enter it."""
    loaded: list[str] = []
    for op in ops:
        if op.startswith("load:"):
            if op[5:] not in loaded:
                loaded.append(op[5:])
        elif op == "resolve" and "pk" in loaded and "_pk" not in loaded and links_private_sibling(model):
            loaded.append("_pk")
    return loaded


CLI_SESSION = {"mode": "cli", "ops": ["load:pk", "resolve"]}


def gen_session(rng: random.Random, model: dict) -> dict:
    """How both versions are loaded: the way `griffe check` does it (load pk, then resolve aliases, which may pull in the
    private sibling package afterwards), or a loader session over several packages in a drawn order, with consumer reads of
    the whole tree (`touch`) and alias resolution between the steps. No package is loaded twice."""
    others = [t for t in tops_of(model) if t != "pk"]
    if rng.random() < 0.45:
        return copy.deepcopy(CLI_SESSION)
    order = ["pk"] + [t for t in others if rng.random() < 0.6]
    rng.shuffle(order)
    ops: list[str] = []
    for t in order:
        if t in loaded_after(model, ops):
            continue  # already pulled in by an earlier resolve step
        ops.append("load:" + t)
        if rng.random() < 0.5:
            ops.append("touch")
        if rng.random() < 0.3:
            ops.append("resolve")
            if rng.random() < 0.5:
                ops.append("touch")
    if ops[-1] != "resolve":
        ops.append("resolve")
    if rng.random() < 0.3:
        ops.append("touch")
    return {"mode": "session", "ops": ops}


def touch(collection) -> int:  # noqa: ANN001
    """A consumer reading the tree between loading steps (what extension hooks and renderers do): every read below is part
    of the consumer API and must not influence what a later step or the comparison sees."""
    import griffe

    n = 0
    stack = list(collection.members.values())
    while stack:
        o = stack.pop()
        n += 1
        if o.is_alias:
            try:
                _ = o.target.kind
            except (griffe.AliasResolutionError, griffe.CyclicAliasError):
                pass
            continue
        _ = (o.is_public, o.is_private, o.is_special, o.path, o.canonical_path)
        if o.is_class:
            _ = (o.resolved_bases, o.mro(), o.parameters)
        if o.is_class or o.is_module:
            _ = (list(o.all_members), list(o.inherited_members), o.exports if o.is_module else None)
            stack.extend(o.members.values())
    return n


# -- edits ---------------------------------------------------------------------------------------
COMPAT = ["add_object", "add_kwarg", "change_private", "add_base", "reorder", "add_module", "change_losing_binding"]


def bump_value(o: dict, cls: dict | None, delta: int) -> bool:
    """Change the value Griffe documents for the attribute: the one of the binding that wins the tie-break."""
    if o.get("binds") is None:
        o["value"] = str(int(o["value"]) + delta)
        return True
    w = winning_atom(o, cls)
    if w is None:
        return False
    b, key = w
    b[key] = str(int(b[key]) + delta) if b[key].isdigit() else str(1000 + delta)  # (a parameter name becomes a literal)
    return True


def attribute_info(model: dict) -> dict[str, dict]:
    """canonical path -> how the attribute is bound, for attributes bound more than once."""
    out = {}
    for mod, cls, o in all_objects(model):
        if o["kind"] == "attr" and o.get("binds") is not None:
            atoms = binding_atoms(o, cls)
            w = winning_atom(o, cls)
            if len(atoms) > 1:
                out[canon(mod, cls, o)] = {
                    "ctxs": sorted({b["ctx"] for b, _k, _c in atoms}), "sites": sorted({b["site"] for b, _k, _c in atoms}),
                    "annotated": any(b.get("ann") or b["ctx"] == "bare" for b, _k, _c in atoms), "member": cls is not None,
                    # a conditional re-binding that loses against the documented one (the documented tie-break decides)
                    "conditional_loser": w is not None and any(c and not (b is w[0] and k == w[1]) for b, k, c in atoms),
                    "winner_site": None if w is None else w[0]["site"]}
    return out
INCOMPAT = ["remove", "change_kind", "remove_base", "change_value", "drop_reexport"]


def all_objects(model: dict):  # noqa: ANN201
    for mod, m in model["mods"].items():
        for o in m["objs"]:
            yield mod, None, o
            if o["kind"] == "class":
                for mem in o["members"]:
                    yield mod, o, mem


def prefer_hidden(rng: random.Random, cands: list, surface: dict, focus=None):  # noqa: ANN001, ANN201
    """Bias incompatible edits towards objects that are public *only* through a re-export or inheritance
    (their canonical path is not among their public paths) and towards members of such objects. ``focus``: "sibling" -
    when there are candidates that live in a sibling top-level package and are public through pk, take one of those; a set
    of paths - when there are candidates all of whose public paths are among / below those paths (names that only a
    composed ``__all__`` makes public), take one of those."""
    if focus == "attrs":
        focus = None
    if focus == "wraps":
        # public objects whose definition (or whose class's definition) sits inside a compound statement
        wrapped = [c for c in cands if (c[2].get("wrap") or (c[1] and c[1].get("wrap"))) and surface.get(canon(*c))]
        if wrapped:
            return rng.choice(wrapped)
        focus = None
    if focus and focus != "sibling":
        def only_there(c):  # noqa: ANN001, ANN202
            paths = surface.get(canon(*c))
            return bool(paths) and all(any(p == w or p.startswith(w + ".") for w in focus) for p in paths)
        comp = [c for c in cands if only_there(c)]
        if comp:
            return rng.choice(comp)
    if focus == "sibling":
        sib = [c for c in cands if top_of(c[0]) != "pk" and surface.get(canon(*c))]
        members = [c for c in sib if c[1] is not None]  # members of sibling classes: public through re-exported or inheriting pk classes
        if members and rng.random() < 0.6:
            return rng.choice(members)
        if sib:
            return rng.choice(sib)

    def hidden(c):  # noqa: ANN001, ANN202
        m, cls, o = c
        top = canon(m, None, cls) if cls else canon(m, cls, o)
        paths = surface.get(canon(m, cls, o), set())
        return bool(paths) and canon(m, cls, o) not in paths or (bool(surface.get(top)) and top not in surface.get(top, set()))
    hid = [c for c in cands if hidden(c)]
    if hid and rng.random() < 0.5:
        return rng.choice(hid)
    return rng.choice(cands)


def apply_edit(rng: random.Random, old: dict, new: dict, kind: str, surface: dict, focus=None) -> dict | None:  # noqa: ANN001  # noqa: C901, PLR0911, PLR0912
    """Mutates ``new``; returns an expectation record or None when not applicable."""
    objs = list(all_objects(new))
    if kind == "add_object":
        mod = rng.choice(list(new["mods"]))
        name = f"added{rng.randint(100, 999)}"
        added = new_obj(name, rng.choice(["func", "attr", "class"]))
        if new.get("wraps") and rng.random() < 0.4:
            added["wrap"] = gen_wrap(rng)
        new["mods"][mod]["objs"].append(added)
        # an *empty* __all__ declares nothing (names decide): giving it a first entry would un-publish every other
        # object of the module, which is no compatible edit - only a non-empty __all__ is extended
        # (nor is a name added to an __all__ that another module composes its own from while importing the objects one by one)
        if eff_all(new, mod) and rng.random() < 0.7 and not explicit_downstream(new, mod):
            new["mods"][mod]["all"].append(name)
        return {"edit": kind, "where": f"{mod}.{name}", "expect": None}
    if kind == "add_kwarg":
        cands = [(m, c, o) for m, c, o in objs if o["kind"] == "func"]
        if not cands:
            return None
        m, c, o = rng.choice(cands)
        taken = {p[0] for p in o["params"]}
        kwname = f"kw{rng.randint(10, 99)}"
        while kwname in taken:  # two edits of one function must not draw the same name (SyntaxError in the generated module)
            kwname += "x"
        o["params"].append((kwname, "None"))
        return {"edit": kind, "where": canon(m, c, o), "expect": None}
    if kind == "change_private":
        cands = [(m, c, o) for m, c, o in objs if not surface.get(canon(m, c, o)) and not (c and surface.get(canon(m, None, c)) and not private_name(o["name"]))]
        cands = [(m, c, o) for m, c, o in cands if not surface.get(canon(m, c, o)) and o["name"] != "__init__"]
        if not cands:
            return None
        m, c, o = rng.choice(cands)
        if o["kind"] == "attr":
            bump_value(o, c, 100)
        elif o["kind"] == "func":
            o["params"] = [(f"r{rng.randint(10, 99)}", None)] + ([("self", None)] if c else [])
            o["params"].sort(key=lambda p: p[0] != "self")
        else:
            o["members"] = []
        return {"edit": kind, "where": canon(m, c, o), "expect": None}
    if kind == "add_base":
        cands = [(m, c, o) for m, c, o in objs if o["kind"] == "class" and c is None]
        if not cands:
            return None
        m, c, o = rng.choice(cands)
        o["bases"].append("object") if not o["bases"] else o["bases"].append("Exception") if "Exception" not in o["bases"] and False else None
        if not o["bases"]:
            o["bases"].append("object")
        return {"edit": kind, "where": canon(m, c, o), "expect": None}
    if kind == "reorder":
        mod = rng.choice(list(new["mods"]))
        rng.shuffle(new["mods"][mod]["objs"])
        # keep base classes before subclasses inside one module (Python needs the name at class creation; Griffe does not care)
        return {"edit": kind, "where": mod, "expect": None}
    if kind == "add_module":
        new["mods"][f"pk.extra{rng.randint(1, 9)}"] = {"objs": [new_obj("thing", "func")], "imports": [], "all": None}
        return {"edit": kind, "where": "pk.extraN", "expect": None}
    # incompatible ---------------------------------------------------------------------------
    if kind == "change_losing_binding":
        # the value of an assignment that loses the tie-break (a conditional re-binding of a name that has a value, an
        # assignment a later one overrides) changes: what is documented stays
        cands = []
        for m, c, o in objs:
            if o["kind"] == "attr" and o.get("binds") is not None:
                w = winning_atom(o, c)
                cands += [(m, c, o, b, k) for b, k, _cond in binding_atoms(o, c) if b["ctx"] != "bare" and not (w and b is w[0] and k == w[1])]
        if not cands:
            return None
        m, c, o, b, k = rng.choice(cands)
        b[k] = str(500 + rng.randint(0, 99))
        return {"edit": kind, "where": canon(m, c, o), "expect": None}
    objs = [x for x in objs if x[2]["name"] != "__init__"]  # the carrier of the instance attributes is not edited away
    if kind == "remove":
        m, c, o = prefer_hidden(rng, objs, surface, focus)
        path = canon(m, c, o)
        if c:
            c["members"].remove(o)
        else:
            new["mods"][m]["objs"].remove(o)
            # drop re-exports (transitively: a re-export may itself be imported elsewhere), __all__ entries and base-class
            # uses so the new version stays importable
            drop_name(new, m, o["name"])
        return {"edit": kind, "where": path, "expect": "Public object was removed"}
    if kind == "change_kind":
        cands = [(m, c, o) for m, c, o in objs if not (o["kind"] == "class" and any(o["name"] in x["bases"] for _m, _c, x in objs if x["kind"] == "class"))]
        # a class used as a base (also through imports) cannot silently become a function in valid code
        used_as_base = set()
        for mod2, mm in new["mods"].items():
            for oo in mm["objs"]:
                if oo["kind"] == "class":
                    for b in oo["bases"]:
                        r = class_lookup(new, mod2, b)
                        if r:
                            used_as_base.add((r[0], r[1]["name"]))
        cands = [(m, c, o) for m, c, o in cands if not (c is None and (m, o["name"]) in used_as_base)]
        if not cands:
            return None
        m, c, o = prefer_hidden(rng, cands, surface, focus)
        path = canon(m, c, o)
        newkind = rng.choice([k for k in ("func", "attr", "class") if k != o["kind"]])
        o["kind"] = newkind
        o["params"] = [("self", None)] if (c and newkind == "func") else []
        o["members"] = []
        o["bases"] = []
        o["value"] = "5"
        o.pop("binds", None)
        return {"edit": kind, "where": path, "expect": "Public object points to a different kind of object"}
    if kind == "remove_base":
        cands = [(m, c, o) for m, c, o in objs if o["kind"] == "class" and o["bases"]]
        if not cands:
            return None
        m, c, o = rng.choice(cands)
        removed = o["bases"].pop()
        return {"edit": kind, "where": canon(m, c, o), "expect": "Base class was removed", "removed_base": removed}
    if kind == "change_value":
        cands = [(m, c, o) for m, c, o in objs if o["kind"] == "attr" and (o.get("binds") is None or winning_atom(o, c))]
        if not cands:
            return None
        if focus == "attrs":
            multi = [x for x in cands if surface.get(canon(*x)) and len(binding_atoms(x[2], x[1])) > 1]
            m, c, o = rng.choice(multi) if multi else prefer_hidden(rng, cands, surface, None)
        else:
            m, c, o = prefer_hidden(rng, cands, surface, focus)
        bump_value(o, c, 10)
        return {"edit": kind, "where": canon(m, c, o), "expect": "Attribute value was changed"}
    if kind == "drop_reexport":
        # a module of pk stops re-exporting - one explicit import, or everything it takes from one module by wildcard import
        # and / or composed __all__ - while the objects stay where they are defined (and public elsewhere, if they were)
        cands = []
        for mod, mm in new["mods"].items():
            if top_of(mod) != "pk":
                continue
            bulk = sorted(set(mm.get("wild", [])) | {c["src"] for c in mm.get("compose", [])})
            cands += [(mod, "bulk", w) for w in bulk]
            cands += [(mod, "import", tuple(i)) for i in mm["imports"] if i[0] not in bulk]
        if not cands:
            return None
        pick = [c for c in cands if c[1] == "bulk" and any(x["src"] == c[2] for x in new["mods"][c[0]].get("compose", []))]
        if focus == "wraps":
            pick = [c for c in cands if c[1] == "import" and (c[2][2] or c[2][1]) in (new["mods"][c[0]].get("iwrap") or {})]
        mod, how, what = rng.choice(pick) if pick and focus and focus != "sibling" else rng.choice(cands)
        mm = new["mods"][mod]
        before = {i[2] or i[1] for i in imports_of(new, mod)}
        if how == "import":
            mm["imports"] = [i for i in mm["imports"] if tuple(i) != what]
        else:
            mm["wild"] = [w for w in mm.get("wild", []) if w != what]
            mm["compose"] = [c for c in mm.get("compose", []) if c["src"] != what]
            mm["imports"] = [i for i in mm["imports"] if i[0] != what]
        for n in sorted(before - {i[2] or i[1] for i in imports_of(new, mod)}):
            drop_name(new, mod, n)
        return {"edit": kind, "where": mod, "prefix": mod, "expect": "Public object was removed"}
    return None


def drop_name(model: dict, mod: str, name: str) -> None:
    """``name`` no longer exists in ``mod``: remove its ``__all__`` entry, its uses as a base class there, and every import
    of it in other modules (recursively, with what those modules exposed under the imported name)."""
    mm = model["mods"][mod]
    if mm["all"] is not None and name in mm["all"]:
        mm["all"].remove(name)
    for oo in mm["objs"]:
        if oo["kind"] == "class" and name in oo["bases"]:
            oo["bases"].remove(name)
    for mod2, m2 in model["mods"].items():
        for imp in list(m2["imports"]):
            if imp[0] == mod and imp[1] == name and imp in m2["imports"]:
                m2["imports"].remove(imp)
                drop_name(model, mod2, imp[2] or imp[1])
        if (mod in m2.get("wild", []) and not find_obj(model, mod2, name)
                and not any((i[2] or i[1]) == name for i in imports_of(model, mod2))):
            drop_name(model, mod2, name)  # no wildcard (or other) import brings the name in any more


def keep_bound_names_exported(old: dict, new: dict) -> int:
    """Un-exporting a name that still exists is no edit of the catalogue (the statement speaks of removed objects): when an
    edit shrank a module's effective ``__all__`` (a dropped composition term, a dropped wildcard ...) while another statement
    of the module still binds the name, the name is listed literally instead. Returns the number of names re-listed."""
    fixed = 0
    for _ in range(4):
        changed = False
        for mod, nm in new["mods"].items():
            om = old["mods"].get(mod)
            if om is None or nm["all"] is None:
                continue
            old_def, new_def = {o["name"] for o in om["objs"]}, {o["name"] for o in nm["objs"]}
            bound_old = old_def | {i[2] or i[1] for i in imports_of(old, mod)}
            bound_new = new_def | {i[2] or i[1] for i in imports_of(new, mod)}
            for n in sorted(bound_old & bound_new):
                if name_public(old, mod, n, imported=n not in old_def) and not name_public(new, mod, n, imported=n not in new_def):
                    nm["all"].append(n)
                    fixed += 1
                    changed = True
        if not changed:
            break
    return fixed


def canon(mod: str, cls: dict | None, o: dict) -> str:
    return f"{mod}.{cls['name']}.{o['name']}" if cls else f"{mod}.{o['name']}"


def fix_class_order(model: dict) -> None:
    """After a reorder keep same-module base classes before their subclasses (valid Python)."""
    for m in model["mods"].values():
        names = [o["name"] for o in m["objs"]]
        changed = True
        while changed:
            changed = False
            for i, o in enumerate(m["objs"]):
                if o["kind"] == "class":
                    for b in o["bases"]:
                        if b in names and names.index(b) > i:
                            j = names.index(b)
                            m["objs"].insert(i, m["objs"].pop(j))
                            names = [x["name"] for x in m["objs"]]
                            changed = True
                            break
                if changed:
                    break


# -- CPython as witness of the generated packages ------------------------------------------------------
def cpython_view(files: dict[str, str]) -> dict | str:
    """Import every module of the generated packages with CPython (in this process; the modules are removed from
    sys.modules afterwards) and describe what exists: module -> {"all": __all__ or None, "objs": {name: [kind, value /
    number of bases, {member: [kind, value]}]}} for what the module's namespace holds. A string: the import failed."""
    import importlib
    import importlib.abc
    import importlib.util

    table = {rel[:-3].replace("/", ".").removesuffix(".__init__"): (src, rel.endswith("/__init__.py")) for rel, src in files.items()}
    mods = sorted(table)
    tops = {top_of(m) for m in mods}

    class FromMemory(importlib.abc.MetaPathFinder, importlib.abc.Loader):
        """The import system reads the generated sources from memory instead of a scratch directory."""

        def find_spec(self, name, path=None, target=None):  # noqa: ANN001, ANN202, ARG002
            if name in table:
                return importlib.util.spec_from_loader(name, self, is_package=table[name][1])
            return None

        def create_module(self, spec):  # noqa: ANN001, ANN202, ARG002
            return None

        def exec_module(self, module):  # noqa: ANN001, ANN202
            exec(compile(table[module.__name__][0], f"<generated {module.__name__}>", "exec"), module.__dict__)  # noqa: S102

    def describe(v, holder: str | None):  # noqa: ANN001, ANN202
        if isinstance(v, type):
            return ["class", len(v.__bases__), {k: describe(x, None) for k, x in vars(v).items() if not (k.startswith("__") and k != "__init__")},
                    v.__module__]
        if isinstance(v, types.FunctionType):
            return ["func", None, None, v.__module__]
        if isinstance(v, types.ModuleType):
            return ["module", None, None, v.__name__]
        return ["attr", repr(v), None, holder]

    finder = FromMemory()
    sys.meta_path.insert(0, finder)
    try:
        out = {}
        for mod in mods:
            module = importlib.import_module(mod)
            out[mod] = {"all": None if getattr(module, "__all__", None) is None else list(module.__all__),
                        "objs": {k: describe(v, mod) for k, v in vars(module).items() if not (k.startswith("__") and k.endswith("__"))}}
        return out
    except Exception as exc:  # noqa: BLE001
        return f"{type(exc).__name__}: {exc}"
    finally:
        sys.meta_path.remove(finder)
        for name in [n for n in sys.modules if top_of(n) in tops]:
            del sys.modules[name]


def model_vs_cpython(model: dict, view: dict) -> str | None:
    """What the structural model says exists (definitions with kind, value of attributes bound once, number of bases, own
    members; the effective __all__) against what CPython built; also: CPython defined no function / class in a module that
    the model does not know. None: they agree."""
    for mod, m in model["mods"].items():
        got = view.get(mod)
        if got is None:
            return f"module {mod} not imported"
        ea = eff_all(model, mod)
        if (ea is None) != (got["all"] is None) or (ea is not None and set(ea) - {"ghost", "loop_a"} != set(got["all"]) - {"ghost", "loop_a"}):
            return f"{mod}.__all__ is {got['all']} for CPython, the model computes {ea}"
        for o in m["objs"]:
            d = got["objs"].get(o["name"])
            if o["kind"] == "attr" and o.get("binds") is not None:
                continue  # (what is documented for a name bound several times is C01's tie-break, not the run-time value)
            if d is None or d[0] != o["kind"]:
                return f"{mod}.{o['name']} is {d and d[0]} for CPython, the model says {o['kind']}"
            if o["kind"] == "attr" and d[1] != o["value"]:
                return f"{mod}.{o['name']} = {d[1]} for CPython, the model says {o['value']}"
            if o["kind"] == "class":
                if d[1] != max(1, len(o["bases"])):
                    return f"{mod}.{o['name']} has {d[1]} bases for CPython, the model says {o['bases']}"
                for mem in o["members"]:
                    md = d[2].get(mem["name"])
                    if mem["kind"] == "attr" and mem.get("binds") is not None:
                        continue
                    if md is None or md[0] != mem["kind"] or (mem["kind"] == "attr" and md[1] != mem["value"]):
                        return f"{mod}.{o['name']}.{mem['name']} is {md and md[:2]} for CPython, the model says {mem['kind']} {mem.get('value')}"
                known = {mem["name"] for mem in o["members"]}
                extra = [k for k, md in d[2].items() if md[0] in ("func", "class") and k not in known]
                if extra:
                    return f"CPython defines {mod}.{o['name']}.{extra} which the model does not know"
        known = {o["name"] for o in m["objs"]}
        extra = [k for k, d in got["objs"].items() if d[0] in ("func", "class") and d[3] == mod and k not in known]
        if extra:
            return f"CPython defines {extra} in {mod} which the model does not know"
    return None


def confirm_with_cpython(rec, model: dict, label: str) -> str | None:  # noqa: ANN001
    """The model of one version against CPython's import of its files (without the deliberately broken re-export, which no
    importable package can have). Returns a reason when the generator and CPython disagree."""
    clean = dict(model, extra=None)
    view = cpython_view(render(clean))
    if isinstance(view, str):
        plain = cpython_view(render(clean, plain=True))
        if isinstance(plain, str):
            rec.count("versions_cpython_cannot_import_in_either_spelling")
            return None
        return f"{label} version: CPython imports the plain spelling but not the one with compound statements: {view}"
    why = model_vs_cpython(clean, view)
    if why:
        return f"{label} version: {why}"
    rec.count("versions_confirmed_by_cpython_import")
    if model.get("wraps"):
        rec.count("versions_with_compound_statements_confirmed_by_cpython_import")
    return None


# -- judge ---------------------------------------------------------------------------------------
def load_pkg(root, session: dict | None = None):  # noqa: ANN001, ANN201
    """Returns (pk, number of objects read by touch steps)."""
    import griffe

    if session is not None and session["mode"] == "cli":
        # exactly what `griffe check` does for each version
        return griffe.load("pk", search_paths=[root], try_relative_path=False, allow_inspection=False,
                           resolve_aliases=True, resolve_external=None), 0
    loader = griffe.GriffeLoader(search_paths=[root], allow_inspection=False)
    touched = 0
    for op in (session["ops"] if session else ["load:pk", "resolve"]):
        if op.startswith("load:"):
            loader.load(op[5:], try_relative_path=False)
        elif op == "touch":
            touched += touch(loader.modules_collection)
        elif op == "resolve":
            loader.resolve_aliases(implicit=False, external=None)
        else:
            raise ValueError(op)
    return loader.modules_collection["pk"], touched


def diff_in_process(old_files: dict, new_files: dict, session: dict | None = None):  # noqa: ANN201
    import griffe

    with tmp_tree(old_files) as r1, tmp_tree(new_files) as r2:
        (old, t1), (new, t2) = load_pkg(r1, session), load_pkg(r2, session)
        info = {"old_tops": list(old.modules_collection.members), "new_tops": list(new.modules_collection.members), "touched": t1 + t2}
        breakages = list(griffe.find_breaking_changes(old, new))
        rows = []
        for b in breakages:
            texts = [b.explain(style) for style in griffe.ExplanationStyle]
            assert all(isinstance(t, str) and t for t in texts)
            try:
                canonical = b.obj.canonical_path
            except (griffe.AliasResolutionError, griffe.CyclicAliasError):
                canonical = getattr(b.obj, "target_path", b.obj.path)  # an exported name whose target is not loaded
            rows.append({"kind": b.kind.value, "path": b.obj.path, "canonical": canonical})
        return rows, info


def surface(model: dict, loaded: list[str] | set[str] | None = None) -> dict[str, dict]:
    """public path -> descriptor of the object reachable there (definition, re-export and inherited paths alike), given
    the loaded top-level packages (None: all). A public name leading into a package that is not loaded has kind '?'."""
    unknown: dict[str, str] = {}
    paths = public_paths(model, None if loaded is None else set(loaded), unknown)
    desc: dict[str, dict] = {}
    for mod, cls, o in all_objects(model):
        c = canon(mod, cls, o)
        desc[c] = {"canonical": c, "kind": o["kind"], "value": doc_value(o, cls) if o["kind"] == "attr" else None,
                   "bases": list(o["bases"]) if o["kind"] == "class" else None}
    out = {}
    for c, ps in paths.items():
        for p in ps:
            out[p] = desc[c]
    for p, target in unknown.items():
        out[p] = {"canonical": target, "kind": "?", "value": None, "bases": None}
    return out


KIND_NAMES = {"func": "function", "class": "class", "attr": "attribute"}


def expected_differences(old_surface: dict, new_surface: dict) -> list[dict]:
    """The reference diff of the two public surfaces."""
    diffs = []
    for p, od in old_surface.items():
        nd = new_surface.get(p)
        if nd is not None and nd["kind"] == od["kind"] == "func" and nd["canonical"] != od["canonical"]:
            # the path now leads to another function of that name (an override went away or appeared: __init__ of the
            # class / of its base): their signatures are not modelled, a report about them is neither demanded nor forbidden
            diffs.append({"path": p, "canonical": od["canonical"], "new_canonical": nd["canonical"], "kind": "*"})
        if nd is None:
            parent = p.rsplit(".", 1)[0]
            if parent in old_surface and (parent not in new_surface or new_surface[parent]["kind"] != old_surface[parent]["kind"]):
                continue  # reported once, on the removed / re-kinded parent
            diffs.append({"path": p, "canonical": od["canonical"], "kind": "Public object was removed"})
        elif "?" in (od["kind"], nd["kind"]):
            continue  # the target is in a package that is not loaded: only the removal of the name itself can be seen
        elif nd["kind"] != od["kind"]:
            diffs.append({"path": p, "canonical": od["canonical"], "new_canonical": nd["canonical"], "kind": "Public object points to a different kind of object"})
        elif od["kind"] == "attr" and od["value"] != nd["value"]:
            diffs.append({"path": p, "canonical": od["canonical"], "new_canonical": nd["canonical"], "kind": "Attribute value was changed"})
        elif od["kind"] == "class" and od["bases"] != nd["bases"] and len(nd["bases"]) < len(od["bases"]):
            diffs.append({"path": p, "canonical": od["canonical"], "new_canonical": nd["canonical"], "kind": "Base class was removed"})
    return diffs


def module_bindings(files: dict[str, str]) -> dict[str, set[str]]:
    """module path -> names its source binds at module level by a statement that names them (def, class, assignment,
    import; CPython's own parser reads the source). Names only a wildcard import brings in are not listed."""
    import ast

    out: dict[str, set[str]] = {}
    for rel, src in files.items():
        mod = rel[:-3].replace("/", ".")
        mod = mod[: -len(".__init__")] if mod.endswith(".__init__") else mod
        names = out.setdefault(mod, set())

        def walk(body: list, names: set = names) -> None:
            for node in body:
                if isinstance(node, (ast.FunctionDef, ast.AsyncFunctionDef, ast.ClassDef)):
                    names.add(node.name)
                elif isinstance(node, (ast.Import, ast.ImportFrom)):
                    names |= {(a.asname or a.name).split(".")[0] for a in node.names if a.name != "*"}
                elif isinstance(node, (ast.Assign, ast.AnnAssign, ast.AugAssign)):
                    targets = node.targets if isinstance(node, ast.Assign) else [node.target]
                    names |= {t.id for t in targets if isinstance(t, ast.Name)}
                else:
                    # a compound statement: what its blocks bind is bound in the module
                    for field in ("body", "orelse", "finalbody"):
                        walk(getattr(node, field, None) or [])
                    for sub in list(getattr(node, "handlers", None) or []) + list(getattr(node, "cases", None) or []):
                        walk(sub.body)

        walk(ast.parse(src).body)
    return out


def reference_diffs(case: dict) -> tuple[list[dict], list[dict]]:
    """(demanded, allowed). Demanded: differences between the public surfaces as far as the loaded packages show them.
    Allowed: those plus the differences Python itself sees with every sibling package present (a report about an object
    that lives in a package the session did not load is neither demanded nor forbidden). A module-level name that left
    the public surface but is still bound in the new module was un-exported, not removed: the statement does not speak
    about that, so it is allowed but not demanded either."""
    allowed = expected_differences(case["old_surface"], case["new_surface"])
    demanded = [d for d in allowed if d["kind"] != "*"]
    if any(d["kind"] == "Public object was removed" for d in demanded):
        bound = module_bindings(case["new"])
        for mod, names in (case.get("bound_new") or {}).items():
            bound.setdefault(mod, set()).update(names)

        def unexported(path: str) -> bool:
            mod, _, name = path.rpartition(".")
            return mod in bound and name in bound[mod]
        demanded = [d for d in demanded if not (d["kind"] == "Public object was removed" and unexported(d["path"]))]
    if case.get("old_full") is not None:
        allowed += expected_differences(case["old_full"], case["new_full"])
    return demanded, allowed


def judge(rec, case: dict, rows: list[dict], info: dict) -> tuple | None:  # noqa: ANN001, C901, PLR0912
    """Completeness: every changed public object is reported (same kind) on one of its public paths or at its definition.
    Soundness: every reported breakage corresponds to a difference of that kind between the two public surfaces."""
    expectations, old_surface = case["expectations"], case["old_surface"]
    demanded, allowed = reference_diffs(case)
    late: set[str] = set()
    if case.get("loaded") is not None:
        for which in ("old_tops", "new_tops"):
            if sorted(info[which]) != sorted(case["loaded"]):
                return (f"the collection of the {which[:3]} version holds the packages {info[which]} after the session, the loading rules "
                        f"(explicit loads + private sibling of pk when an exported alias leads there) give {case['loaded']}", info, case["loaded"])
        tops = info["old_tops"]
        late = set(tops[tops.index("pk") + 1:])
        if "_pk" in late:
            rec.count("private_sibling_entered_collection_after_package")
        if any(d["kind"] == "?" for d in old_surface.values()):
            rec.count("pairs_with_reexport_into_unloaded_package")
        if case.get("wild_paths"):
            rec.count("pairs_with_wildcard_import_from_loaded_sibling")
        if case.get("composed_paths"):
            rec.count("pairs_with_composed_all")
        for key, val in (case.get("boundary") or {}).items():
            if val and key != "bodies":
                rec.count(f"pairs_with_{key}")
    by_obj: dict[tuple[str, str], list[dict]] = {}
    for d in demanded:
        by_obj.setdefault((d["canonical"], d["kind"]), []).append(d)
    for (canonical, kind), ds in by_obj.items():
        # Griffe locates these breakages at the object the path leads to in the new version: when an own member that overrode
        # an inherited one is removed (or the other way round), that is the definition of the other object
        paths = {d["path"] for d in ds} | {canonical} | {d["new_canonical"] for d in ds if d.get("new_canonical")}
        hit = any(r["kind"] == kind and (r["path"] in paths or r["canonical"] in paths) for r in rows)
        behind = all(d["path"] != canonical for d in ds)
        rec.count("incompatible_public_edits_reported" if hit else "incompatible_public_edits_missed")
        if behind:
            rec.count("edits_behind_reexport_or_inheritance")
        ctop = top_of(canonical)
        if hit and ctop != "pk" and old_surface[ds[0]["path"]]["kind"] != "?":
            # the object lives in a sibling top-level package; inherited = reached through a pk class that is not its own class
            inherited = False
            for d in ds:
                holder = old_surface.get(d["path"].rsplit(".", 1)[0])
                if holder and holder["kind"] == "class" and holder["canonical"] != canonical.rsplit(".", 1)[0]:
                    inherited = True
            rec.count("sibling_package_inherited_member_edits_reported" if inherited else "sibling_package_reexport_edits_reported")
            if inherited and ctop in late:
                rec.count("inherited_from_late_loaded_package_edits_reported")
            if any(d["path"] == w or d["path"].startswith(w + ".") for d in ds for w in case.get("wild_paths") or ()):
                rec.count("edits_behind_wildcard_import_from_sibling_reported")
        comp = [[c for c in case.get("composed_paths") or () if d["path"] == c[0] or d["path"].startswith(c[0] + ".")] for d in ds]
        if hit and all(comp):
            # every public path of the object exists only because a composed __all__ lists the name
            rec.count("edits_public_only_through_composed_all_reported")
            if any(not c[1] for cs in comp for c in cs):
                rec.count("composed_all_in_non_root_module_edits_reported")
            if any(c[2] for cs in comp for c in cs):
                rec.count("composed_all_from_shared_source_edits_reported")
        for key, name in (("empty_class", "edits_public_only_through_empty_body_class_reported"),
                          ("private_only_class", "edits_public_only_through_class_with_private_members_only_reported"),
                          ("import_only_module", "edits_public_only_through_import_only_module_reported")):
            prefixes = (case.get("boundary") or {}).get(key) or ()
            if hit and all(any(d["path"].startswith(w + ".") for w in prefixes) for d in ds):
                rec.count(name)
                if key == "empty_class":
                    for style in case["boundary"]["bodies"]:
                        rec.add_to_set("empty_class_bodies_seen_in_such_pairs", style)
        ainfo = (case.get("attr_info") or {}).get(canonical)
        if hit and ainfo and kind == "Attribute value was changed":
            rec.count("value_edits_on_attribute_bound_several_times_reported")
            if ainfo["conditional_loser"]:
                rec.count("value_edits_where_conditional_rebinding_loses_reported")
                if "init" in ainfo["sites"]:
                    rec.count("value_edits_on_instance_attribute_with_conditional_rebinding_reported")
                    rec.count("such_edits_with_documented_value_bound_" + ("in_init" if ainfo["winner_site"] == "init" else "at_class_level"))
                if not ainfo["member"]:
                    rec.count("value_edits_on_module_attribute_with_conditional_rebinding_reported")
                for ctx in ainfo["ctxs"]:
                    rec.add_to_set("binding_contexts_in_such_pairs", ctx)
        winfo = (case.get("wrap_info") or {}).get(canonical)
        if winfo:
            rec.count("incompatible_edits_on_objects_defined_in_compound_statement_demanded")
        if hit and winfo:
            rec.count("edits_on_objects_defined_in_compound_statement_reported")
            for w in winfo:
                rec.count(f"edits_on_objects_defined_in_{wrap_family(w)}_reported")
                rec.add_to_set("compound_statement_spellings_around_reported_edits", w)
            if len(winfo) > 1:
                rec.count("edits_on_objects_defined_two_statements_deep_reported")
            if canonical in (case.get("member_paths") or ()):
                rec.count("edits_on_class_members_defined_in_compound_statement_reported")
            if behind:
                rec.count("edits_behind_reexport_or_inheritance_on_objects_defined_in_compound_statement_reported")
            if kind in ("Public object was removed", "Public object points to a different kind of object", "Attribute value was changed",
                        "Base class was removed"):
                rec.add_to_set("breakage_kinds_reported_on_objects_defined_in_compound_statement", kind)
        iw = case.get("import_wraps") or {}
        if hit and any(d["path"] == w or d["path"].startswith(w + ".") for d in ds for w in iw):
            rec.count("edits_behind_reexport_spelled_in_compound_statement_reported")
        if not hit:
            fid = ID_GUARD_SWITCH if type_guard_switch_hid_old_attribute(case, canonical, [d["path"] for d in ds]) else None
            return (f"public object {canonical} ({kind}) changed on public path(s) {sorted(d['path'] for d in ds)} but no such breakage is reported",
                    rows, ds, fid)
    for r in rows:
        ok = any(d["kind"] in (r["kind"], "*")
                 and (r["path"] == d["path"] or r["canonical"] in (d["canonical"], d.get("new_canonical")) or r["path"] == d["canonical"])
                 for d in allowed)
        if not ok:
            fid = None
            if r["kind"] == "Attribute value was changed" and r["path"].endswith(".__all__"):
                modpath = r["path"][: -len(".__all__")]
                rel = modpath.replace(".", "/")
                src = case["old"].get(rel + "/__init__.py", case["old"].get(rel + ".py", ""))
                if "\n__all__ = []\n" in "\n" + src:
                    fid = "C11-empty-all-is-itself-public"
            elif r["kind"] == "Public object was removed" and type_guard_switch_hides_attribute(case, r, allowed):
                fid = ID_GUARD_SWITCH
            return (f"breakage '{r['kind']}' on {r['path']} does not correspond to any difference between the public surfaces "
                    "(private / imported-not-exported object, or nothing changed there)", rows, allowed, fid)
    if not rows and any(e["edit"] == "change_losing_binding" for e in expectations):
        rec.count("pairs_with_losing_binding_edit_silent")
    for e in expectations:
        if e["expect"] and not any(d["canonical"].startswith(e["where"]) or e["where"].startswith(d["canonical"])
                                   or d["path"].startswith(e.get("prefix", "\0") + ".") for d in allowed):
            rec.count("incompatible_private_edits_silent")
    return None


ID_GUARD_SWITCH = "C11-attribute-bound-in-both-branches-of-type-checking-switch-not-runtime"


def switch_bound_attribute(files: dict, canonical: str) -> bool:
    """True when the module defining `canonical` binds that name, in `files`, as an ATTRIBUTE in the body of an `if` on
    TYPE_CHECKING and again in that statement's else branch (or a branch of the `elif` chain it is spelled as): read
    with CPython's ast from the case's own sources."""
    import ast

    modpath, _, name = canonical.rpartition(".")
    rel = modpath.replace(".", "/")
    src = files.get(rel + "/__init__.py", files.get(rel + ".py"))
    if src is None:
        return False

    def binds_attr(stmts: list) -> bool:
        for st in stmts:
            targets = st.targets if isinstance(st, ast.Assign) else [st.target] if isinstance(st, ast.AnnAssign) else []
            if any(isinstance(t, ast.Name) and t.id == name for t in targets):
                return True
        return False

    def binds_in_else(stmts: list) -> bool:
        if binds_attr(stmts):
            return True
        return any(isinstance(st, ast.If) and (binds_attr(st.body) or binds_in_else(st.orelse)) for st in stmts)

    return any(isinstance(node, ast.If) and ast.unparse(node.test) in ("TYPE_CHECKING", "typing.TYPE_CHECKING")
               and binds_attr(node.body) and binds_in_else(node.orelse) for node in ast.parse(src).body)


def module_has_wildcard_import(files: dict, path: str) -> bool:
    """The module holding the public path `path` (module.name) contains a `from ... import *` statement."""
    import ast

    rel = path.rpartition(".")[0].replace(".", "/")
    src = files.get(rel + "/__init__.py", files.get(rel + ".py"))
    return src is not None and any(isinstance(n, ast.ImportFrom) and any(a.name == "*" for a in n.names) for n in ast.walk(ast.parse(src)))


def type_guard_switch_hides_attribute(case: dict, row: dict, allowed: list) -> bool:
    """Classifier of ID_GUARD_SWITCH, soundness form (tight: every clause is read from the case's own sources).

    The unjustified 'removed' is reported on a re-export path of an object that still exists in the new version but
    changed kind there (an allowed difference of kind 're-kinded' on that very path), and in the NEW sources the module
    defining it binds the name as an attribute in every branch of a TYPE_CHECKING switch: Griffe keeps the first
    (type-guarded) binding, flags the attribute as not available at runtime, and wildcard imports of the module no
    longer deliver it."""
    same_path = [d for d in allowed if d["path"] == row["path"] and d["kind"] == "Public object points to a different kind of object"]
    if not same_path or row["path"] == row["canonical"]:
        return False
    return switch_bound_attribute(case["new"], same_path[0].get("new_canonical") or same_path[0]["canonical"])


def type_guard_switch_hid_old_attribute(case: dict, canonical: str, paths: list) -> bool:
    """Classifier of ID_GUARD_SWITCH, completeness form: a removal / re-kinding / value change is not reported on
    re-export paths only (never the definition's own path), each of those paths lies in a module with a wildcard import,
    and in the OLD sources the defining module binds the name as an attribute in every branch of a TYPE_CHECKING switch:
    the old tree never held those paths, so nothing can be reported on them."""
    return (bool(paths) and canonical not in paths and all(module_has_wildcard_import(case["old"], p) for p in paths)
            and switch_bound_attribute(case["old"], canonical))


def plain_difference_is_guard_switch(case: dict, rows: list, rows_plain: list) -> bool:
    """Classifier of ID_GUARD_SWITCH, metamorphic form: the spelling with compound statements reports a subset of what
    the plain spelling reports, and every report it lacks is on a re-export path (in a module with a wildcard import) of
    an object whose defining module, in the old sources spelled with compound statements, binds it as an attribute in
    every branch of a TYPE_CHECKING switch."""
    seen = {(r["kind"], r["path"]) for r in rows}
    missing = [r for r in rows_plain if (r["kind"], r["path"]) not in seen]
    extra = [r for r in rows if (r["kind"], r["path"]) not in {(q["kind"], q["path"]) for q in rows_plain}]
    return (bool(missing) and not extra
            and all(r["path"] != r["canonical"] and module_has_wildcard_import(case["old"], r["path"])
                    and switch_bound_attribute(case["old"], r["canonical"]) for r in missing))


def cli_exit(old_files: dict, new_files: dict) -> tuple[int, int, str]:
    """Run `python -m griffe check` in a scratch git repository; returns (exit code, stderr lines, stderr tail)."""
    import shutil
    import tempfile

    root = tempfile.mkdtemp(prefix="vfc11git-")
    env = dict(os.environ, GIT_CONFIG_GLOBAL="/dev/null", GIT_CONFIG_SYSTEM="/dev/null", GIT_AUTHOR_NAME="t", GIT_AUTHOR_EMAIL="t@t",
               GIT_COMMITTER_NAME="t", GIT_COMMITTER_EMAIL="t@t", TMPDIR=root + "/tmp", NO_COLOR="1")
    os.makedirs(root + "/tmp")
    repo = root + "/repo"
    os.makedirs(repo)
    tops = sorted({rel.split("/", 1)[0] for rel in list(old_files) + list(new_files)})

    def git(*a):  # noqa: ANN002, ANN202
        return subprocess.run(["git", *a], cwd=repo, env=env, capture_output=True, text=True, check=True)

    def write(files):  # noqa: ANN001, ANN202
        for t in tops:  # the public package and its sibling top-level packages live side by side in the repository
            shutil.rmtree(os.path.join(repo, t), ignore_errors=True)
        for rel, content in files.items():
            p = os.path.join(repo, rel)
            os.makedirs(os.path.dirname(p), exist_ok=True)
            with open(p, "w") as fh:
                fh.write(content)

    try:
        git("init", "-q", "-b", "main")
        write(old_files)
        git("add", "-A")
        git("commit", "-q", "-m", "v1")
        git("tag", "v1")
        write(new_files)
        proc = subprocess.run([sys.executable, "-m", "griffe", "check", "pk", "-s", ".", "-a", "v1"], cwd=repo, env=env,
                              capture_output=True, text=True, timeout=120, check=False)
        lines = [ln for ln in proc.stderr.splitlines() if ln.strip()]
        return proc.returncode, len(lines), proc.stderr[-400:]
    finally:
        shutil.rmtree(root, ignore_errors=True)


def run_case(rec, old_model: dict, script: list[str], rng: random.Random, with_cli: bool, focus: str | None = None) -> None:  # noqa: ANN001
    new_model = copy.deepcopy(old_model)
    paths_old = public_paths(old_model)  # what Python itself sees, every sibling package present
    expectations = []
    composed = composed_paths(old_model)
    if focus == "composed":
        focus = {c[0] for c in composed}  # type: ignore[assignment]
    elif focus == "boundary":
        b = boundary_shapes(old_model)
        focus = set(b["empty_class"] + b["private_only_class"] + b["import_only_module"])  # type: ignore[assignment]
    for kind in script:
        e = apply_edit(rng, old_model, new_model, kind, paths_old, focus=focus)
        if e:
            expectations.append(e)
    relisted = keep_bound_names_exported(old_model, new_model)
    if relisted:
        rec.count("still_bound_names_kept_exported_after_edit", relisted)
    fix_class_order(new_model)
    fix_class_order(old_model)
    if any(m.get("wild") and not eff_all(mdl, mod) for mdl in (old_model, new_model) for mod, m in mdl["mods"].items()):
        rec.skip("wildcard import in a module whose __all__ became empty (publicness of wildcard-imported names not settled)")
        return
    session = copy.deepcopy(CLI_SESSION) if with_cli else gen_session(rng, old_model)
    loaded = loaded_after(old_model, session["ops"])
    if loaded_after(new_model, session["ops"]) != loaded:
        # the edit removed the last exported name that leads into the private sibling package: the two versions are not
        # loaded alike and what is inherited from there is visible in one of them only - outside the judged domain
        rec.skip("edit changes which packages the session loads")
        return
    old_files, new_files = render(old_model), render(new_model)
    for label, mdl in (("old", old_model), ("new", new_model)):
        why = confirm_with_cpython(rec, mdl, label)
        if why:
            # the generator's model and CPython disagree about what the generated package defines: nothing can be judged
            rec.inconclusive({"old": old_files, "new": new_files}, "generator and CPython disagree - " + why)
            return
    wrap_old, iwrap_old = wraps_of(old_model)
    wrap_new, _iw = wraps_of(new_model)
    plain = None
    if (wrap_old or iwrap_old or wrap_new) and (with_cli or rng.random() < 0.35):
        # the same two versions with every definition at the top level: the reports must be the same
        plain = {"old": render(old_model, plain=True), "new": render(new_model, plain=True)}
    case = {"old": old_files, "new": new_files, "expectations": expectations, "session": session, "loaded": loaded,
            "wrap_info": wrap_old, "import_wraps": iwrap_old, "wrap_info_new": wrap_new, "plain": plain,
            "member_paths": sorted(canon(m_, c_, o_) for m_, c_, o_ in all_objects(old_model) if c_ is not None),
            "old_surface": surface(old_model, loaded), "new_surface": surface(new_model, loaded),
            "old_full": surface(old_model), "new_full": surface(new_model), "wild_paths": wildcard_only_paths(old_model, set(loaded)),
            "composed_paths": composed, "boundary": boundary_shapes(old_model, set(loaded)), "attr_info": attribute_info(old_model),
            "bound_new": {mod: sorted({o["name"] for o in m["objs"]} | {i[2] or i[1] for i in imports_of(new_model, mod)})
                          for mod, m in new_model["mods"].items()}}
    judge_case(rec, case, with_cli)


def judge_case(rec, case: dict, with_cli: bool) -> None:  # noqa: ANN001, C901
    old_files, new_files, expectations = case["old"], case["new"], case["expectations"]
    incompat = [e for e in expectations if e["expect"]]
    demanded, allowed = reference_diffs(case)
    nontrivial = any(d["path"] != d["canonical"] for d in demanded)
    session = case.get("session")
    try:
        with case_watchdog(180):
            for src in list(old_files.values()) + list(new_files.values()):
                compile(src, "<c11>", "exec")
            rows, info = diff_in_process(old_files, new_files, session)
            rec.count("pairs_diffed")
            rec.count("breakages_explained", len(rows))
            if session:
                rec.count("sessions_loaded_like_cli" if session["mode"] == "cli" else "sessions_with_several_steps")
                rec.count("tree_reads_between_loading_steps", info["touched"])
                rec.count("pairs_with_sibling_packages", int(len(info["old_tops"]) > 1))
            res = judge(rec, case, rows, info)
            wrapped = bool(case.get("wrap_info") or case.get("import_wraps") or case.get("wrap_info_new"))
            if wrapped:
                rec.count("pairs_with_definitions_in_compound_statements")
            if not res and not incompat:
                rec.count("identical_pairs_silent" if not expectations else "compatible_scripts_silent")
                if wrapped:
                    rec.count("silent_pairs_with_definitions_in_compound_statements")
                    rec.count("compatible_edits_on_objects_defined_in_compound_statement_silent",
                              sum(1 for e in expectations if e["where"] in (case.get("wrap_info_new") or {})))
            if not res and case.get("plain"):
                # metamorphic: the compound statements run exactly once, so the two versions spelled without them are the same
                # two APIs - the comparison must say the same about both spellings
                rows_plain, _info = diff_in_process(case["plain"]["old"], case["plain"]["new"], session)
                rec.count("pairs_compared_with_their_plain_spelling")
                seen, seen_plain = sorted({(r["kind"], r["path"]) for r in rows}), sorted({(r["kind"], r["path"]) for r in rows_plain})
                if seen != seen_plain:
                    res = ("the two versions spelled with their definitions inside compound statements (each runs exactly once at import time) "
                           "and spelled with the same definitions at the top level give different reports",
                           {"with_compound_statements": seen}, {"plain": seen_plain},
                           ID_GUARD_SWITCH if plain_difference_is_guard_switch(case, rows, rows_plain) else None)
                elif rows:
                    rec.count("non_empty_reports_equal_in_both_spellings")
            if with_cli:
                code, nlines, tail = cli_exit(old_files, new_files)
                rec.count("cli_exit_codes_compared")
                if len(info["old_tops"]) > 1:
                    rec.count("cli_cases_with_sibling_package")
                if case.get("composed_paths"):
                    rec.count("cli_cases_with_composed_all")
                if (case.get("boundary") or {}).get("empty_class"):
                    rec.count("cli_cases_with_empty_body_class")
                if any(a["conditional_loser"] for a in (case.get("attr_info") or {}).values()):
                    rec.count("cli_cases_with_conditionally_rebound_attribute")
                if any(d["canonical"] in (case.get("wrap_info") or {}) for d in demanded):
                    rec.count("cli_cases_with_edit_on_object_defined_in_compound_statement")
                    if any("match" in w for d in demanded for w in (case.get("wrap_info") or {}).get(d["canonical"], ())):
                        rec.count("cli_cases_with_edit_on_object_defined_in_match_case")
                # against the reference model: non-zero when a difference is demanded, zero when none is even allowed
                wants = {1 if demanded else 0, 1 if allowed else 0}
                cres = None
                if code not in wants:
                    cres = (f"CLI exit code {code} but the public surfaces differ in {len(demanded)} demanded / {len(allowed)} allowed place(s)",
                            {"exit": code, "stderr": tail}, sorted(wants))
                elif not res and code != (1 if rows else 0):
                    cres = (f"CLI exit code {code} but in-process diff reports {len(rows)} breakage(s)", {"exit": code, "stderr": tail}, 1 if rows else 0)
                elif not res and rows and nlines < len(rows):
                    cres = ("CLI printed fewer lines than breakages", {"lines": nlines, "stderr": tail}, len(rows))
                if cres:
                    rec.count("cli_exit_code_discrepancies")
                    if demanded and code == 0 and any(top_of(d["canonical"]) != "pk" for d in demanded):
                        rec.count("cli_silent_on_sibling_package_edit")
                res = res or cres
    except Exception as exc:  # noqa: BLE001
        rec.fail_exc(case, f"{type(exc).__name__} during API comparison", exc, nontrivial=nontrivial)
        return
    if res:
        rec.fail(case, res[0], observed=res[1], expected=res[2], finding=res[3] if len(res) > 3 else None,
                 tried=["C11-empty-all-is-itself-public", ID_GUARD_SWITCH], nontrivial=nontrivial)
    else:
        tags = tuple(sorted({e["edit"] for e in expectations})) or ("identical",)
        rec.ok(case, nontrivial=nontrivial, tags=tags)


def shards(tier: str, seed: int) -> list[dict]:
    n = 110 if tier == "quick" else 900
    return [{"count": n, "cli": 7 if tier == "quick" else 21} for _ in range(16)]


def run_shard(spec: dict, rec) -> None:  # noqa: ANN001
    rng = random.Random(spec["seed"])
    for i in range(spec["count"]):
        with_cli = i < spec["cli"]
        # of seven CLI cases, two have the private sibling package linked by an exported re-export (what makes `griffe check`
        # pull it in) and edit an object pk only has from there; one has composed __all__ lists and edits an object that
        # only such a list makes public; one has containers of boundary shape (empty class bodies, ...) and edits an object
        # that is public only through one of them; one has attributes bound several times and changes a documented value;
        # one has its definitions inside compound statements and edits one of those
        force = (["sibling", "sibling", "composed", "boundary", "attrs", "wraps", None][i % 7]) if with_cli else None
        model = gen_model(rng, siblings=True if force == "sibling" else None, compose=True if force == "composed" else None,
                          shapes=True if force == "boundary" else None, attrs=True if force == "attrs" else None,
                          wraps=True if force == "wraps" else None)
        r = rng.random()
        if r < 0.12 and not force:
            script: list[str] = []
        elif r < 0.40 and not force:
            script = [rng.choice(COMPAT) for _ in range(rng.randint(1, 4))]
        else:
            script = [rng.choice(INCOMPAT + COMPAT) for _ in range(rng.randint(1, 3))] + [rng.choice(INCOMPAT)]
            script = script[-rng.randint(1, 4):]
            # one incompatible edit per script keeps expectations independent of each other
            inc = [k for k in script if k in INCOMPAT][:1]
            if force == "wraps":
                inc = [rng.choice(["remove", "change_kind", "change_value"])]
            script = [k for k in script if k in COMPAT] + (["change_value"] if force == "attrs" else inc)
        r = rng.random()
        focus = force or ("sibling" if r < 0.18 else "composed" if r < 0.36 else "boundary" if r < 0.54 else "attrs" if r < 0.72 else "wraps" if r < 0.88 else None)
        run_case(rec, model, script, rng, with_cli=with_cli, focus=focus)


def legacy_case(inp: dict) -> dict:
    """Replay files / pinned witnesses written before sessions existed: single package, load + resolve."""
    case = dict(inp)
    case.setdefault("session", None)
    case.setdefault("loaded", None)
    case.setdefault("old_full", None)
    case.setdefault("new_full", None)
    case.setdefault("expectations", [])
    return case


def run_replay(inp: dict, rec) -> None:  # noqa: ANN001
    judge_case(rec, legacy_case(inp), with_cli=False)


def run_pinned(findings: list[dict], rec) -> dict:  # noqa: ANN001
    from vf.core.rec import Recorder, pinned_result

    out = {}
    for f in findings:
        sub = Recorder(PROP, {})
        judge_case(sub, legacy_case(f["witness"]), with_cli=False)
        out[f["id"]] = pinned_result(sub, f)
    return out
